"""Tie of Model/ViewsN.v (C18, the glue around Model/Views.v) to the real library, evaluated on every run of the check.

Correspondence (see notes/prover_C18_TIE.md); the model side is computed by coqc (vm_compute) during the run:

  reciprocal_viewname_str (check_reciprocal_str)      vs  arim.ut.reciprocal_viewname(s)                 any str (code points < 256)
  default_viewname_order_str + skey_cmp (check_key_cmp) vs sign of the comparison of arim.ut.default_viewname_order(a), (b)
  mode_char                                           vs  arim.Mode.<m>.key()
  parse_word (mapM parse_mode)                        vs  [arim.helpers.parse_enum_constant(ch, Mode) for ch in s]
  make_interfaces_imm_c / make_interfaces / spec_interfaces
                                                      vs  block_in_immersion.make_interfaces, block_in_contact.make_interfaces
                                                          (keys in dictionary order, every field of every Interface)
  make_paths / make_paths_gen (r <= 2), make_paths_imm(_gen) / make_paths_contact(_gen) on sub-dictionaries
                                                      vs  block_in_immersion.make_paths, block_in_contact.make_paths
                                                          (keys, order, every path; exact error kind incl. precedence)
  make_views_imm_obj / make_views_contact_obj         vs  block_in_immersion.make_views / block_in_contact.make_views on
                                                          examination objects with every attribute absent / None / set
  make_views_from_paths_dict (views_loop, od_set)     vs  models.helpers.make_views_from_paths on sub-dictionaries (any key
                                                          order, reversal-closed or not, repeated keys through a Mapping)
  check_view_keys                                     vs  list(make_views_from_paths(make_paths(...)).keys())
  closed form of the unique filter (kept)             vs  keys of the unique dictionary among those of the full dictionary
  spec_path_reversed / path_reverse (spec_path)       vs  Path.reverse() of the documented paths (real make_paths, r <= 2) and of
                                                          paths of 4..5 block legs built from the real interfaces by the same rule
  make_paths_gen entry of the word                    vs  the forward path itself
  view_str / scat_key_str / word_str                  vs  dictionary key, View.name, View.scat_key(), Path.name

Discrete observables only; everything is compared exactly (error KINDS are kept apart here: ValueError 1, KeyError 2,
NotImplementedError 3, AssertionError 4, AttributeError 5, TypeError 6, anything else 99).  Points, orientations and
materials are opaque: only their identity is encoded (which wall, which material of the call).
"""
import collections
import collections.abc
import itertools
import time

import numpy as np

from common import cZ, cbool, clist, cpair, copt, cstr

PRELUDE = r"""From Coq Require Import Arith List Bool ZArith String.
From Coq Require Strings.Ascii.
From Arim Require Import Base.ListX Model.Views Model.ViewsN.
Import ListNotations.
Definition S (x : string) : pystr := list_ascii_of_string x.
(* exact error kinds *)
Definition ecode (e : Err) : Z :=
  match e with ErrValue => 1 | ErrKey => 2 | ErrNotImplemented => 3 | ErrAssert => 4 end%Z.
Definition xcode (e : ErrX) : Z := match e with XBase b => ecode b | XAttribute => 5 | XType => 6 end%Z.
Definition z_of_ikey (k : IKey) : Z :=
  match k with KProbe => 0 | KFrontTrans => 1 | KBackRefl => 2 | KGrid => 3 | KFrontRefl => 4 end%Z.
Definition ikey_of_z (z : Z) : IKey :=
  match z with 0 => KProbe | 1 => KFrontTrans | 2 => KBackRefl | 3 => KGrid | _ => KFrontRefl end%Z.
Definition zidict : Type := list (Z * list Z).
Definition z_of_idict (d : idict) : zidict := map (fun e => (z_of_ikey (fst e), z_of_iface (snd e))) d.
Definition zidict_eqb : zidict -> zidict -> bool := list_eqb (pair_eqb Z.eqb zl_eqb).
Definition idict_ok (x : res idict) (ec : Z) (got : zidict) : bool :=
  match x with inl d => (ec =? 0)%Z && zidict_eqb (z_of_idict d) got | inr e => (ecode e =? ec)%Z end.
Definition zpdict : Type := list (list Z * zpath).
Definition z_of_pdict (d : pdict) : zpdict := map (fun e => (z_of_word (fst e), z_of_path (snd e))) d.
Definition zpdict_eqb : zpdict -> zpdict -> bool := list_eqb (pair_eqb zl_eqb zpath_eqb).
Definition pdict_ok (x : res pdict) (ec : Z) (got : zpdict) : bool :=
  match x with inl d => (ec =? 0)%Z && zpdict_eqb (z_of_pdict d) got | inr e => (ecode e =? ec)%Z end.
(* the sub-dictionary with the given keys, in the given order *)
Definition sub_idict (ks : list Z) (d : idict) : idict :=
  flat_map (fun k => match ilookup (ikey_of_z k) d with Some i => [(ikey_of_z k, i)] | None => [] end) ks.
Definition attr_of_z (z : Z) : attr bool := if (z <? 0)%Z then NoAttr else Attr (negb (z =? 0)%Z).
Definition exam_of_z (l : list Z) : ExamObj :=
  let g := fun k => attr_of_z (nth k l (-1)%Z) in
  mkExam (g 0%nat) (g 1%nat) (g 2%nat) (g 3%nat) (g 4%nat) (g 5%nat).
(* one entry of a real views dictionary: key, View.name when it is not the key, index of the tx / rx path in the list
   of the distinct Path objects, scat_key() *)
Definition zv : Type := (string * option string * Z * Z * string)%type.
Definition dummy_zpath : zpath := ([], [], [], []).
Definition entry_ok (paths : list zpath) (k : pystr) (v : View) (g : zv) : bool :=
  let '(key, nm, itx, irx, sk) := g in
  let name := match nm with None => key | Some x => x end in
  pystr_eqb k (S key) && pystr_eqb (view_str (v_name v)) (S name)
  && zpath_eqb (z_of_path (v_tx v)) (nth (Z.to_nat itx) paths dummy_zpath)
  && zpath_eqb (z_of_path (v_rx v)) (nth (Z.to_nat irx) paths dummy_zpath)
  && pystr_eqb (match scat_key_str v with Some s => s | None => [] end) (S sk).
Fixpoint entries_ok {K : Type} (f : K -> pystr) (paths : list zpath) (vs : list (K * View)) (gs : list zv) : bool :=
  match vs, gs with
  | [], [] => true
  | (k, v) :: vs', g :: gs' => entry_ok paths (f k) v g && entries_ok f paths vs' gs'
  | _, _ => false
  end.
(* the closed form of the unique filter: X-Y is kept iff len(Y) < len(X) or (len(Y) = len(X) and not reversed(Y) < X) *)
Definition kept_b (tx rx : word) : bool :=
  (List.length rx <? List.length tx)
  || ((List.length rx =? List.length tx) && negb (match word_cmp (rev rx) tx with Lt => true | _ => false end)).
Definition key_kept (k : pystr) : bool :=
  match split_dash k with
  | [tx; rx] => match parse_word tx, parse_word rx with inl a, inl b => kept_b a b | _, _ => false end
  | _ => false
  end.
Definition sub_paths (s : list Z) (r : Z) (names : list (list Z)) : res pdict :=
  bind (make_paths (setup_of_z s) r) (fun d => inl (select (map word_of_z names) d)).
Inductive tcase :=
| CRecip (c : list Z * (Z * list Z))
| CKey (c : (list Z * list Z) * (list Z * list Z) * Z)
| CModeKey (m : Z) (got : list Z)
| CParse (s : list Z) (ec : Z) (got : list Z)
| CIfaces (kind : Z) (flags : list Z) (ec : Z) (got : zidict)
| CPaths (s : list Z) (keys : option (list Z)) (r : Z) (ec : Z) (got : zpdict)
| CObj (m : Z) (attrs : list Z) (r : Z) (uo : bool) (ec : Z) (paths : list zpath) (views : list zv)
| CSub (s : list Z) (r : Z) (names : list (list Z)) (uo : bool) (ec : Z) (paths : list zpath) (views : list zv)
| CClosed (full uniq : list string)
| CViewKeys (c : list Z * Z * bool * (Z * list (list Z)))
| CRev (s : list Z) (w : list Z) (ec : Z) (fwd got got2 : zpath).
Definition flag (l : list Z) (k : nat) : bool := negb (nth k l 0 =? 0)%Z.
Definition check (c : tcase) : bool :=
  match c with
  | CRecip x => check_reciprocal_str x
  | CKey x => check_key_cmp x
  | CModeKey m got => zl_eqb (z_of_str [mode_char (mode_of_z m)]) got
  | CParse s ec got =>
      match parse_word (str_of_z s) with
      | inl w => (ec =? 0)%Z && zl_eqb (z_of_word w) got && zl_eqb (z_of_str (word_str w)) s
      | inr e => (ecode e =? ec)%Z
      end
  | CIfaces kind fl ec got =>
      if (kind =? 0)%Z then
        idict_ok (make_interfaces_imm_c (flag fl 0) (flag fl 1)) ec got
        && (if flag fl 0 then idict_ok (make_interfaces (Immersion (flag fl 1))) ec got
                              && idict_ok (inl (spec_interfaces (Immersion (flag fl 1)))) ec got else true)
      else
        let st := Contact (flag fl 0) (flag fl 1) (flag fl 2) in
        idict_ok (make_interfaces st) ec got && idict_ok (inl (spec_interfaces st)) ec got
  | CPaths s keys r ec got =>
      let st := setup_of_z s in
      match keys with
      | None => pdict_ok (make_paths st r) ec got
                && (if (r <=? 2)%Z then pdict_ok (make_paths_gen st r) ec got else true)
      | Some ks =>
          match make_interfaces st with
          | inr _ => false
          | inl d =>
              let d' := sub_idict ks d in
              match st with
              | Immersion _ => pdict_ok (make_paths_imm d' r) ec got
                               && (if (r <=? 2)%Z then pdict_ok (make_paths_imm_gen d' r) ec got else true)
              | Contact _ _ _ => pdict_ok (make_paths_contact d' r) ec got
                               && (if (r <=? 2)%Z then pdict_ok (make_paths_contact_gen d' r) ec got else true)
              end
          end
      end
  | CObj m attrs r uo ec paths views =>
      match (if (m =? 0)%Z then make_views_imm_obj (exam_of_z attrs) r uo
             else make_views_contact_obj (exam_of_z attrs) r uo) with
      | inl vs => (ec =? 0)%Z && entries_ok view_str paths vs views
      | inr e => (xcode e =? ec)%Z
      end
  | CSub s r names uo ec paths views =>
      match bind (sub_paths s r names) (fun d => make_views_from_paths_dict d uo) with
      | inl d => (ec =? 0)%Z && entries_ok (fun k : pystr => k) paths d views
      | inr e => (ecode e =? ec)%Z
      end
  | CClosed full uniq => list_eqb pystr_eqb (filter key_kept (map S full)) (map S uniq)
  | CViewKeys x => check_view_keys x
  | CRev s w ec fwd got got2 =>
      let st := setup_of_z s in
      let ww := word_of_z w in
      (ec =? 0)%Z
      && match make_paths_gen st (Z.of_nat (List.length ww) - 1) with
         | inl d => match plookup ww d with Some p => zpath_eqb (z_of_path p) fwd | None => false end
         | inr _ => false
         end
      && zpath_eqb (z_of_path (spec_path st ww)) fwd
      && zpath_eqb (z_of_path (spec_path_reversed st ww)) got
      && match path_reverse (spec_path st ww) with inl q => zpath_eqb (z_of_path q) got | inr _ => false end
      && zpath_eqb (z_of_path (spec_path st ww)) got2
  end.
(* the model's answers, for the report of a disagreement *)
Definition show_views {K : Type} (f : K -> pystr) (vs : list (K * View)) :=
  map (fun e => (string_of_list_ascii (f (fst e)), z_of_path (v_tx (snd e)), z_of_path (v_rx (snd e)),
                 match scat_key_str (snd e) with Some s => string_of_list_ascii s | None => EmptyString end)) vs.
"""

LT = "LT"
ERR = {0: "no error", 1: "ValueError", 2: "KeyError", 3: "NotImplementedError", 4: "AssertionError",
       5: "AttributeError", 6: "TypeError", 99: "another exception"}
IKEYS = ["probe", "frontwall_trans", "backwall_refl", "grid", "frontwall_refl"]
ATTRS = ["block_material", "material", "couplant_material", "frontwall", "backwall", "under_material"]


class EncodingError(Exception):
    pass


def exc_code(e):
    for code, cls in ((3, NotImplementedError), (2, KeyError), (1, ValueError), (4, AssertionError), (5, AttributeError),
                      (6, TypeError)):
        if isinstance(e, cls):
            return code
    return 99


def call(fn, *a, **k):
    """(exact error code, value, text of the exception)"""
    try:
        return 0, fn(*a, **k), ""
    except Exception as e:  # noqa: BLE001   (every exception is an observable outcome here)
        return exc_code(e), None, f"{type(e).__name__}: {e}"[:200]


def czl(l):
    return clist([cZ(x) for x in l])


def cpts(s):
    """a str as the list of its code points"""
    return czl([ord(ch) for ch in s])


def zw(s):
    if not (isinstance(s, str) and set(s) <= set(LT)):
        raise EncodingError(f"{s!r} is not a word over L, T")
    return [LT.index(ch) for ch in s]


def cpath(e):
    n, m, t, i = e
    return cpair(czl(n), czl(m), czl(t), clist([czl(x) for x in i]))


def csafe(s):
    if not (isinstance(s, str) and all(32 <= ord(ch) < 127 for ch in s)):
        raise EncodingError(f"{s!r} is not a printable ASCII str")
    return cstr(s)


class _Bare:
    """an object without any of the attributes read by make_views"""


class _DupMapping(collections.abc.Mapping):
    """a read-only mapping whose keys() may repeat a key (the model's association list); d[k] is the first entry"""

    def __init__(self, items):
        self._items = list(items)

    def __getitem__(self, k):
        for kk, v in self._items:
            if kk == k:
                return v
        raise KeyError(k)

    def __iter__(self):
        return iter([k for k, _ in self._items])

    def __len__(self):
        return len(self._items)


class _Tie:
    def __init__(self, chk, arim, rng, quick):
        import arim.core as c
        import arim.geometry as g
        import arim.helpers as helpers
        import arim.ut as ut
        from arim.models import block_in_contact as bic
        from arim.models import block_in_immersion as bim
        from arim.models import helpers as mhelpers
        self.chk, self.arim, self.rng, self.Q = chk, arim, rng, quick
        self.c, self.g, self.helpers, self.ut, self.bic, self.bim, self.mh = c, g, helpers, ut, bic, bim, mhelpers

        def opoints(n, z, name):
            pts = g.Points(np.column_stack([np.arange(n, dtype=float), np.zeros(n), np.full(n, float(z))]), name)
            return g.OrientedPoints(pts, g.default_orientations(pts))

        self.PROBE, self.FRONT = opoints(3, -8, "Probe"), opoints(4, 0, "Front")
        self.BACK, self.GRID = opoints(5, 16, "Back"), opoints(2, 4, "Grid")
        self.OPS = [self.PROBE, self.FRONT, self.BACK, self.GRID]
        self.COUPLANT = c.Material(1480.0, None, 1000.0, "liquid", metadata={"long_name": "Water"})
        self.BLOCK = c.Material(6320.0, 3130.0, 2700.0, "solid", metadata={"long_name": "Aluminium"})
        self.BLOCK2 = c.Material(5900.0, 3200.0, 7800.0, "solid", metadata={"long_name": "Steel (attribute `material`)"})
        self.UNDER = c.Material(340.0, None, 1.2, "liquid", metadata={"long_name": "Air"})
        self.light = []       # (literal, family, replay, model expression)
        self.heavy = []
        self.n = 0
        self.enc_reported = {}

    # -- bookkeeping ------------------------------------------------------------------------------------------
    def add(self, heavy, lit, family, kind, replay, model_expr):
        (self.heavy if heavy else self.light).append((lit, family, replay, model_expr))
        self.chk.count(tie_C18=f"{family}:{kind}")
        self.n += 1

    def encoding_violation(self, family, e, replay):
        self.n += 1
        self.chk.count(tie_C18=f"{family}:not encodable")
        self.enc_reported[family] = self.enc_reported.get(family, 0) + 1
        if self.enc_reported[family] > 2:
            return
        self.chk.violation(f"tie:{family}:encoding",
                           f"the library returned an object outside the vocabulary of Model/ViewsN.v: {e}",
                           dict(replay, correspondence=family), failing_input_found=False)

    # -- encodings of real objects ---------------------------------------------------------------------------------
    def enc_optbool(self, b):
        if b is None:
            return -1
        if b is True:
            return 1
        if b is False:
            return 0
        raise EncodingError(f"normal-side flag {b!r} is not None/True/False")

    def enc_material(self, m, env):
        """env: the materials given to the call (block may be None)"""
        if m is env["block"]:
            return 1
        if m is not None and m is env.get("couplant"):
            return 0
        if m is not None and m is env.get("under"):
            return 2
        raise EncodingError(f"material {m!r} is not the one of the call expected at this place")

    def enc_iface(self, i, env):
        c = self.c
        pid = None
        for k, o in enumerate(self.OPS):
            if i.points is o.points:
                pid = k
        if pid is None:
            raise EncodingError("interface points are not one of the oriented points given to the call")
        if i.orientations is not self.OPS[pid].orientations:
            raise EncodingError("interface orientations do not belong to its points")
        try:
            kind = -1 if i.kind is None else {c.InterfaceKind.fluid_solid: 0, c.InterfaceKind.solid_fluid: 1}[i.kind]
            tr = -1 if i.transmission_reflection is None else {
                c.TransmissionReflection.transmission: 0, c.TransmissionReflection.reflection: 1}[i.transmission_reflection]
        except (KeyError, TypeError):
            raise EncodingError(f"interface kind {i.kind!r} / {i.transmission_reflection!r}")
        if i.reflection_against is None:
            ag = -1
        elif i.reflection_against is env.get("couplant"):
            ag = 0
        elif i.reflection_against is env.get("under"):
            ag = 2
        elif i.reflection_against is env.get("block"):
            ag = 1
        else:
            raise EncodingError("reflection_against is not a material of the call")
        return [pid, kind, tr, ag, self.enc_optbool(i.are_normals_on_inc_rays_side),
                self.enc_optbool(i.are_normals_on_out_rays_side)]

    def enc_mode(self, m):
        c = self.c
        if m is c.Mode.L:
            return 0
        if m is c.Mode.T:
            return 1
        raise EncodingError(f"mode {m!r}")

    def enc_path(self, p, env):
        return (zw(p.name), [self.enc_mode(m) for m in p.modes], [self.enc_material(m, env) for m in p.materials],
                [self.enc_iface(i, env) for i in p.interfaces])

    def enc_idict(self, d, env):
        out = []
        for k, v in d.items():
            if k not in IKEYS:
                raise EncodingError(f"interface key {k!r}")
            out.append((IKEYS.index(k), self.enc_iface(v, env)))
        return out

    def enc_pdict(self, d, env):
        return [(zw(k), self.enc_path(p, env)) for k, p in d.items()]

    def enc_views(self, views, env):
        """(distinct paths, entries (key, name or None, itx, irx, scat_key))"""
        ids, paths, entries = {}, [], []

        def idx(p):
            if id(p) not in ids:
                ids[id(p)] = len(paths)
                paths.append(self.enc_path(p, env))
            return ids[id(p)]

        for key, v in views.items():
            ec, sk, _ = call(v.scat_key)
            sk = sk if ec == 0 and isinstance(sk, str) else ""
            csafe(key), csafe(v.name), csafe(sk)
            entries.append((key, None if v.name == key else v.name, idx(v.tx_path), idx(v.rx_path), sk))
        return paths, entries

    @staticmethod
    def cviews(paths, entries):
        return (clist([cpath(p) for p in paths]),
                clist([cpair(cstr(k), copt(nm, cstr), cZ(a), cZ(b), cstr(sk)) for (k, nm, a, b, sk) in entries], sep=";\n"))

    # -- (1) reciprocal_viewname on arbitrary strings ------------------------------------------------------------------
    def gen_string(self, alphabet, lo, hi):
        n = int(self.rng.integers(lo, hi + 1))
        return "".join(alphabet[int(self.rng.integers(len(alphabet)))] for _ in range(n))

    def fam_recip(self):
        rng, ut = self.rng, self.ut
        ascii_nodash = [chr(k) for k in range(32, 127) if k != 45]
        latin_nodash = [chr(k) for k in range(0, 256) if k != 45]
        cases = [("fixed", s) for s in ["L-LT", "LL", "L-T-L", "", "ab-", "LLT-LT", "-", "--", "-a", "a--b", "L-L", "T-T",
                                        "LTL-TLT", "A-", "\x00-\xff", "a-b-", "-a-b"]]
        for _ in range(120 if self.Q else 1400):
            alpha = [LT, LT, LT, ascii_nodash, latin_nodash][int(rng.integers(5))]
            npieces = [1, 2, 2, 2, 2, 2, 2, 3, 3, 4, 6][int(rng.integers(11))]
            pieces = [self.gen_string(alpha, 0 if rng.random() < 0.25 else 1, 6) for _ in range(npieces)]
            cases.append((f"{npieces - 1} dash" + ("" if alpha is LT else "/any chars"), "-".join(pieces)))
        for kind, s in cases:
            ec, out, msg = call(ut.reciprocal_viewname, s)
            if ec == 0 and not (isinstance(out, str) and all(ord(ch) < 256 for ch in out)):
                self.encoding_violation("reciprocal_viewname", f"result {out!r}", {"viewname": s})
                continue
            got = [ord(ch) for ch in out] if ec == 0 else []
            self.add(False, f"CRecip ({cpts(s)}, ({cZ(ec)}, {czl(got)}))", "reciprocal_viewname",
                     ("ok:" if ec == 0 else ERR[ec] + ":") + kind,
                     {"correspondence": "Model.ViewsN.reciprocal_viewname_str (check_reciprocal_str) vs arim.ut.reciprocal_viewname",
                      "viewname": s, "viewname_code_points": [ord(ch) for ch in s], "impl": out if ec == 0 else ERR[ec] + " " + msg},
                     f"zres z_of_str [] (reciprocal_viewname_str (str_of_z {cpts(s)}))")

    # -- (2) default_viewname_order as Python compares the key tuples ------------------------------------------------------
    def fam_key(self):
        rng, ut = self.rng, self.ut
        ascii_all = [chr(k) for k in range(32, 127)]
        latin = [chr(k) for k in range(0, 256)]
        cases = [("fixed", ("T", "L"), ("L", "T")), ("fixed", ("T", "T"), ("LL", "L")), ("fixed", ("L", "LL"), ("LL", "L")),
                 ("fixed", ("T", ""), ("a", "")), ("fixed", ("LT", ""), ("LTL", "")), ("fixed", ("L", "T"), ("L", "T")),
                 ("fixed", ("", ""), ("", "")), ("fixed", ("LL", "T"), ("L", "TT")), ("fixed", ("LT", "L"), ("L", "LT")),
                 ("fixed", ("L", "TL"), ("T", "LL")), ("fixed", ("TL", "L"), ("LT", "T"))]
        for _ in range(150 if self.Q else 1600):
            u = rng.random()
            if u < 0.35:       # path names
                a = (self.gen_string(LT, 1, 4), self.gen_string(LT, 1, 4))
                b = (self.gen_string(LT, 1, 4), self.gen_string(LT, 1, 4))
                kind = "names"
            elif u < 0.75:     # the same four lengths: the strings decide
                alpha = [LT, LT, ascii_all, latin][int(rng.integers(4))]
                lt, lr = int(rng.integers(0, 5)), int(rng.integers(0, 5))
                a = (self.gen_string(alpha, lt, lt), self.gen_string(alpha, lr, lr))
                b = [self.gen_string(alpha, lt, lt), self.gen_string(alpha, lr, lr)]
                if rng.random() < 0.5:
                    b[0] = a[0]
                elif lt and rng.random() < 0.5:      # common prefix
                    k = int(rng.integers(0, lt))
                    b[0] = a[0][:k] + b[0][k:]
                if rng.random() < 0.25:
                    b[1] = a[1]
                b = tuple(b)
                kind = "same lengths" + ("" if alpha is LT else "/any chars")
            elif u < 0.85:     # same total, same max: len(rx), len(tx) decide
                a = (self.gen_string(LT, 1, 4), self.gen_string(LT, 1, 4))
                b = (self.gen_string(LT, len(a[1]), len(a[1])), self.gen_string(LT, len(a[0]), len(a[0])))
                kind = "swapped lengths"
            else:
                alpha = [ascii_all, latin][int(rng.integers(2))]
                a = (self.gen_string(alpha, 0, 5), self.gen_string(alpha, 0, 5))
                b = (self.gen_string(alpha, 0, 5), self.gen_string(alpha, 0, 5))
                kind = "any strings"
            cases.append((kind, a, b))
        for kind, a, b in cases:
            spell = (lambda x: list(x)) if self.rng.random() < 0.2 else (lambda x: tuple(x))     # the argument is unpacked
            ec, keys, msg = call(lambda: (ut.default_viewname_order(spell(a)), ut.default_viewname_order(spell(b))))
            if ec != 0:
                sign = 7
            else:
                ec2, sign, msg = call(lambda: -1 if keys[0] < keys[1] else (1 if keys[0] > keys[1] else 0))
                if ec2 != 0:
                    sign = 7
            self.add(False, f"CKey (({cpts(a[0])}, {cpts(a[1])}), ({cpts(b[0])}, {cpts(b[1])}), {cZ(sign)})",
                     "default_viewname_order", f"{kind}:sign={sign}",
                     {"correspondence": "Model.ViewsN.skey_cmp of default_viewname_order_str (check_key_cmp) vs comparison of "
                                        "arim.ut.default_viewname_order(a) with arim.ut.default_viewname_order(b)",
                      "a": list(a), "b": list(b), "impl_keys": repr(keys) if ec == 0 else msg,
                      "impl_sign(-1: a first, 0: equal, 1: b first, 7: exception)": sign},
                     f"z_of_cmp (skey_cmp (default_viewname_order_str (str_of_z {cpts(a[0])}, str_of_z {cpts(a[1])})) "
                     f"(default_viewname_order_str (str_of_z {cpts(b[0])}, str_of_z {cpts(b[1])})))")

    # -- (3) Mode.key, parse_enum_constant(ch, Mode) -------------------------------------------------------------------------
    def fam_modes(self):
        c, helpers, rng = self.c, self.helpers, self.rng
        for m, member in ((0, c.Mode.L), (1, c.Mode.T), (0, c.Mode.longitudinal), (1, c.Mode.transverse)):
            ec, out, msg = call(member.key)
            got = [ord(ch) for ch in out] if ec == 0 and isinstance(out, str) else [-1]
            self.add(False, f"CModeKey {cZ(m)} {czl(got)}", "Mode.key", member.name,
                     {"correspondence": "Model.ViewsN.mode_char vs arim.Mode.key()", "mode": member.name,
                      "impl": out if ec == 0 else msg}, f"z_of_str [mode_char (mode_of_z {cZ(m)})]")
        ascii_all = [chr(k) for k in range(32, 127)]
        cases = ["L", "T", "LTL", "LXL", "", "l", "t", "LT-", "TTLLTLT", "LT ", "0", "\xff"]
        for _ in range(40 if self.Q else 400):
            s = self.gen_string(LT, 1, 6)
            if rng.random() < 0.4:
                k = int(rng.integers(len(s)))
                s = s[:k] + ascii_all[int(rng.integers(len(ascii_all)))] + s[k + (1 if rng.random() < 0.5 else 0):]
            cases.append(s)
        for s in cases:
            ec, out, msg = call(lambda: [helpers.parse_enum_constant(ch, c.Mode) for ch in s])
            try:
                got = [self.enc_mode(m) for m in out] if ec == 0 else []
            except EncodingError as e:
                self.encoding_violation("parse_enum_constant", e, {"key": s})
                continue
            self.add(False, f"CParse {cpts(s)} {cZ(ec)} {czl(got)}", "parse_mode", "ok" if ec == 0 else ERR[ec],
                     {"correspondence": "Model.ViewsN.parse_word / word_str vs [arim.helpers.parse_enum_constant(ch, arim.Mode) "
                                        "for ch in key] (as block_in_immersion.make_paths reads a path name)",
                      "key": s, "impl": got if ec == 0 else msg},
                     f"match parse_word (str_of_z {cpts(s)}) with inl w => (0%Z, z_of_word w) | inr e => (ecode e, []) end")

    # -- (4) the interface dictionaries ------------------------------------------------------------------------------------------
    def real_interfaces_imm(self, couplant, bw, spelling=0):
        cm = self.COUPLANT if couplant else None
        b = self.BACK if bw else None
        if spelling == 0:
            return self.bim.make_interfaces(cm, self.PROBE, self.FRONT, b, self.GRID)
        if spelling == 1:
            return self.bim.make_interfaces(couplant_material=cm, probe_oriented_points=self.PROBE, frontwall=self.FRONT,
                                            backwall=b, grid_oriented_points=self.GRID)
        return self.bim.make_interfaces(cm, self.PROBE, grid_oriented_points=self.GRID, backwall=b, frontwall=self.FRONT)

    def real_interfaces_contact(self, fw, bw, um, spelling=0):
        f = self.FRONT if fw else None
        b = self.BACK if bw else None
        u = self.UNDER if um else None
        if spelling == 0:
            return self.bic.make_interfaces(self.PROBE, self.GRID, f, b, u)
        if spelling == 1:
            return self.bic.make_interfaces(self.PROBE, self.GRID, frontwall=f, backwall=b, under_material=u)
        if spelling == 2:      # None arguments left out
            kw = {}
            if fw:
                kw["frontwall"] = f
            if bw:
                kw["backwall"] = b
            if um:
                kw["under_material"] = u
            return self.bic.make_interfaces(self.PROBE, self.GRID, **kw)
        return self.bic.make_interfaces(grid_oriented_points=self.GRID, probe_oriented_points=self.PROBE, under_material=u,
                                        backwall=b, frontwall=f)

    def env(self, block="BLOCK"):
        return {"block": self.BLOCK if block == "BLOCK" else block, "couplant": self.COUPLANT, "under": self.UNDER}

    def fam_interfaces(self):
        corr = ("Model.ViewsN.make_interfaces_imm_c / make_interfaces / spec_interfaces vs "
                "arim.models.block_in_immersion.make_interfaces / block_in_contact.make_interfaces")
        todo = [(0, [cp, bw], sp) for cp in (1, 0) for bw in (1, 0) for sp in (0, 1, 2)]
        todo += [(1, [fw, bw, um], sp) for fw in (1, 0) for bw in (1, 0) for um in (1, 0) for sp in (0, 1, 2, 3)]
        for kind, fl, sp in todo:
            if kind == 0:
                ec, d, msg = call(self.real_interfaces_imm, fl[0], fl[1], sp)
            else:
                ec, d, msg = call(self.real_interfaces_contact, fl[0], fl[1], fl[2], sp)
            rep = {"correspondence": corr, "module": "block_in_immersion" if kind == 0 else "block_in_contact",
                   "flags(immersion: couplant, backwall given; contact: frontwall, backwall, under_material given)": fl,
                   "argument_spelling": sp}
            try:
                got = self.enc_idict(d, self.env()) if ec == 0 else []
            except EncodingError as e:
                self.encoding_violation("make_interfaces", e, rep)
                continue
            rep["impl(key index in probe/frontwall_trans/backwall_refl/grid/frontwall_refl, [points,kind,tr,against,inc,out])"] = \
                got if ec == 0 else ERR[ec] + " " + msg
            lit = f"CIfaces {cZ(kind)} {czl(fl)} {cZ(ec)} {clist([cpair(cZ(k), czl(v)) for k, v in got])}"
            if kind == 0:
                expr = (f"match make_interfaces_imm_c {cbool(fl[0])} {cbool(fl[1])} with inl d => (0%Z, z_of_idict d) "
                        "| inr e => (ecode e, []) end")
            else:
                expr = (f"match make_interfaces (Contact {cbool(fl[0])} {cbool(fl[1])} {cbool(fl[2])}) with "
                        "inl d => (0%Z, z_of_idict d) | inr e => (ecode e, []) end")
            self.add(False, lit, "make_interfaces", f"{'imm' if kind == 0 else 'contact'}:{ERR[ec]}", rep, expr)

    # -- (5) make_paths -----------------------------------------------------------------------------------------------------------
    def setups(self):
        return [[0, 0], [0, 1]] + [[1, fw, bw, um] for fw in (0, 1) for bw in (0, 1) for um in (0, 1)]

    def real_idict(self, s):
        if s[0] == 0:
            return self.real_interfaces_imm(1, s[1])
        return self.real_interfaces_contact(s[1], s[2], s[3])

    def spell_r(self, r):
        """one of: the int, a numpy integer"""
        u = self.rng.random()
        if u < 0.7:
            return int(r), "int"
        if u < 0.85:
            return np.int64(r), "np.int64"
        return np.int32(r), "np.int32"

    def real_make_paths(self, s, d, r, absent=False, keyword=False):
        if s[0] == 0:
            if absent:
                return self.bim.make_paths(self.BLOCK, self.COUPLANT, d)
            if keyword:
                return self.bim.make_paths(self.BLOCK, self.COUPLANT, d, max_number_of_reflection=r)
            return self.bim.make_paths(self.BLOCK, self.COUPLANT, d, r)
        if absent:
            return self.bic.make_paths(self.BLOCK, d)
        if keyword:
            return self.bic.make_paths(self.BLOCK, d, max_number_of_reflection=r)
        return self.bic.make_paths(self.BLOCK, d, r)

    def fam_paths(self):
        rng = self.rng
        corr = ("Model.Views.make_paths / Model.ViewsN.make_paths_gen (r <= 2; sub-dictionaries: make_paths_imm(_gen), "
                "make_paths_contact(_gen)) vs arim.models.block_in_immersion.make_paths / block_in_contact.make_paths")
        todo = []
        for s in self.setups():
            for r in (-3, -1, 0, 1, 2, 3, 4, 10 ** 6, None):       # None: argument left out (1 immersion, 0 contact)
                todo.append((s, None, r))
        for _ in range(60 if self.Q else 700):                   # sub-dictionaries of the interfaces, any order
            s = self.setups()[int(rng.integers(10))]
            avail = [0, 1, 3, 4] + ([2] if s[1] else []) if s[0] == 0 else [0, 3] + ([2] if s[2] else []) + ([4] if s[1] else [])
            u = rng.random()
            if u < 0.4:
                keys = list(avail)
            elif u < 0.8:
                keys = [k for k in avail if k != avail[int(rng.integers(len(avail)))]]
            else:
                keys = [k for k in avail if rng.random() < 0.6]
            keys = [int(k) for k in rng.permutation(keys)]
            r = [-2, -1, 0, 0, 1, 1, 1, 2, 2, 2, 3, 5][int(rng.integers(12))]
            todo.append((s, keys, r))
        self.good_paths = {}
        for s, keys, r in todo:
            ecd, d, msg = call(self.real_idict, s)
            if ecd != 0:
                self.chk.violation("tie:make_paths:interfaces", f"make_interfaces raised on a valid configuration: {msg}",
                                   {"correspondence": corr, "setup(kind,flags)": s}, failing_input_found=False)
                continue
            rmodel = r if r is not None else (1 if s[0] == 0 else 0)
            if keys is not None:
                sub = [(IKEYS[k], d[IKEYS[k]]) for k in keys]
                d = dict(sub) if rng.random() < 0.5 else collections.OrderedDict(sub)
            if r is None:
                rs, sp = None, "absent"
                ec, paths, msg = call(self.real_make_paths, s, d, None, absent=True)
            else:
                rs, sp = self.spell_r(r)
                kw = bool(rng.random() < 0.4)
                sp += "/keyword" if kw else "/positional"
                ec, paths, msg = call(self.real_make_paths, s, d, rs, keyword=kw)
            rep = {"correspondence": corr, "setup(kind,flags)": s, "max_number_of_reflection": r, "spelling": sp,
                   "interface_keys_given(in this order; null = all, as make_interfaces returns them)":
                       None if keys is None else [IKEYS[k] for k in keys]}
            try:
                got = self.enc_pdict(paths, self.env()) if ec == 0 else []
                if ec == 0:
                    for k, p in paths.items():
                        if p.name != k:
                            raise EncodingError(f"paths[{k!r}].name == {p.name!r}")
            except EncodingError as e:
                self.encoding_violation("make_paths", e, rep)
                continue
            if ec == 0 and keys is None and r is not None:
                self.good_paths[(tuple(s), r)] = paths
            rep["impl"] = [(k, p) for k, p in got] if ec == 0 else ERR[ec] + " " + msg
            lit = (f"CPaths {czl(s)} {copt(keys, czl)} {cZ(rmodel)} {cZ(ec)} "
                   f"{clist([cpair(czl(k), cpath(p)) for k, p in got], sep=';' + chr(10))}")
            if keys is None:
                expr = f"match make_paths (setup_of_z {czl(s)}) {cZ(rmodel)} with inl d => (0%Z, z_of_pdict d) | inr e => (ecode e, []) end"
            else:
                fn = "make_paths_imm" if s[0] == 0 else "make_paths_contact"
                expr = (f"match make_interfaces (setup_of_z {czl(s)}) with inl d => match {fn} (sub_idict {czl(keys)} d) {cZ(rmodel)} "
                        "with inl p => (0%Z, z_of_pdict p) | inr e => (ecode e, []) end | inr e => (ecode e, []) end")
            self.add(False, lit, "make_paths",
                     f"{'imm' if s[0] == 0 else 'contact'}:{'full' if keys is None else 'sub'}-dict:r={r}:{ERR[ec]}", rep, expr)

    # -- (6) the public make_views on examination objects ------------------------------------------------------------------------
    def attr_value(self, k, v, alias=False):
        if v == 0:
            return None
        return [self.BLOCK, self.BLOCK if alias else self.BLOCK2, self.COUPLANT, self.FRONT, self.BACK, self.UNDER][k]

    def build_object(self, attrs, base):
        """a real object whose attributes are absent (-1), None (0) or set (1) as `attrs` says"""
        c = self.c
        if base == "BlockInContact":
            assert attrs[0] == attrs[1]
            o = c.BlockInContact(self.BLOCK)
            todo = [1, 2, 3, 4, 5]          # block_material is a property reading `material`
        elif base == "BlockInImmersion":
            o = c.BlockInImmersion(self.BLOCK, self.COUPLANT, self.FRONT, self.BACK)
            todo = range(6)
        elif base == "ExaminationObject":
            o = c.ExaminationObject(self.BLOCK2)
            todo = range(6)
        else:
            o = _Bare()
            todo = range(6)
        for k in todo:
            if attrs[k] < 0:
                if ATTRS[k] in vars(o):
                    delattr(o, ATTRS[k])
            else:
                setattr(o, ATTRS[k], self.attr_value(k, attrs[k], alias=(base == "BlockInContact")))
        return o

    def constructed(self, which, *flags):
        """(object built by the constructor alone, its attribute pattern)"""
        c = self.c
        if which == "ExaminationObject":
            return c.ExaminationObject(self.BLOCK2), [-1, 1, -1, -1, -1, -1]
        if which == "BlockInImmersion":
            cp, fw, bw = flags
            args = [self.BLOCK, self.COUPLANT if cp else None, self.FRONT if fw else None]
            if bw or self.rng.random() < 0.5:
                args.append(self.BACK if bw else None)          # else: backwall left out
            return c.BlockInImmersion(*args), [1, 1, cp, fw, bw, -1]
        fw, bw, um = flags
        kw = {}
        for name, fl, val in (("frontwall", fw, self.FRONT), ("backwall", bw, self.BACK), ("under_material", um, self.UNDER)):
            if fl or self.rng.random() < 0.5:
                kw[name] = val if fl else None
        return c.BlockInContact(self.BLOCK, **kw), [1, 1, -1, fw, bw, um]

    def expected_block(self, module, o):
        """the object that must be the material of the legs in the block"""
        if module == 0:
            return getattr(o, "block_material", None)
        try:
            return o.block_material
        except AttributeError:
            return getattr(o, "material", None)

    def one_object_case(self, module, o, attrs, base, r, uo, kind):
        rng = self.rng
        mod = self.bim if module == 0 else self.bic
        args, kw, sp = [o, self.PROBE, self.GRID], {}, []
        rmodel, uomodel = r, uo
        if r is None:
            rmodel = 1 if module == 0 else 0
            sp.append("r absent")
        else:
            rs, s_ = self.spell_r(r)
            sp.append("r " + s_)
        if uo is None:
            uomodel = False
            sp.append("unique absent")
        if r is not None and uo is not None and rng.random() < 0.5:
            args += [rs, uo]
            sp.append("positional")
        else:
            if r is not None:
                kw["max_number_of_reflection"] = rs
            if uo is not None:
                kw["tfm_unique_only"] = uo
            sp.append("keyword")
        ec, views, msg = call(mod.make_views, *args, **kw)
        corr = (("Model.ViewsN.make_views_imm_obj vs arim.models.block_in_immersion.make_views" if module == 0 else
                 "Model.ViewsN.make_views_contact_obj vs arim.models.block_in_contact.make_views")
                + " (view_str, scat_key_str on every entry)")
        rep = {"correspondence": corr, "object_class": base,
               "attributes(-1 absent, 0 None, 1 set) of " + "/".join(ATTRS): attrs,
               "max_number_of_reflection": r, "tfm_unique_only": uo, "spelling": ", ".join(sp)}
        try:
            env = {"block": self.expected_block(module, o), "couplant": self.COUPLANT, "under": self.UNDER}
            paths, entries = self.enc_views(views, env) if ec == 0 else ([], [])
        except EncodingError as e:
            self.encoding_violation("make_views(object)", e, rep)
            return
        rep["impl"] = ({"view_keys": [e[0] for e in entries], "distinct_paths(name,modes,materials,interfaces)": paths}
                       if ec == 0 else ERR[ec] + " " + msg)
        cp, cv = self.cviews(paths, entries)
        lit = f"CObj {cZ(module)} {czl(attrs)} {cZ(rmodel)} {cbool(uomodel)} {cZ(ec)} {cp} {cv}"
        fn = "make_views_imm_obj" if module == 0 else "make_views_contact_obj"
        expr = (f"match {fn} (exam_of_z {czl(attrs)}) {cZ(rmodel)} {cbool(uomodel)} with "
                "inl vs => (0%Z, show_views view_str vs) | inr e => (xcode e, []) end")
        self.add(len(entries) > 40, lit, "make_views(object) " + ("immersion" if module == 0 else "contact"),
                 f"{kind}:{ERR[ec]}" + (f":r={rmodel}" if ec == 0 else ""), rep, expr)

    def fam_objects(self):
        rng = self.rng
        R = lambda: [-2, -1, 0, 0, 0, 1, 1, 1, 1, 2, 2, 3, 7, None][int(rng.integers(14))]      # noqa: E731
        U = lambda: [False, True, True, None][int(rng.integers(4))]                          # noqa: E731
        # the fixed examples of the note (tables 3 and 4)
        fixed = [(0, ("BlockInContact", 1, 1, 1), 7, False), (0, ("ExaminationObject",), 0, False),
                 (0, ("BlockInImmersion", 1, 1, 1), 7, False), (0, ("BlockInImmersion", 1, 1, 0), 1, True),
                 (0, ("BlockInImmersion", 0, 1, 1), 0, True), (0, ("BlockInImmersion", 0, 1, 0), 0, False),
                 (0, ("BlockInImmersion", 1, 0, 1), 0, False), (0, ("BlockInImmersion", 1, 1, 1), 1, True),
                 (0, ("BlockInImmersion", 1, 1, 1), -1, True), (0, ("BlockInImmersion", 1, 1, 1), 2, False),
                 (1, ("BlockInImmersion", 1, 1, 1), 2, True), (1, ("ExaminationObject",), 1, False),
                 (1, ("ExaminationObject",), 0, True), (1, ("BlockInContact", 1, 1, 1), 2, False),
                 (1, ("BlockInContact", 0, 1, 1), 2, False), (1, ("BlockInContact", 1, 0, 1), 1, False),
                 (1, ("BlockInContact", 1, 1, 1), 3, False), (1, ("BlockInContact", 1, 1, 0), 2, True),
                 (1, ("BlockInContact", 0, 0, 0), None, None), (0, ("BlockInImmersion", 1, 1, 1), None, None)]
        # every valid constructor x every accepted number of reflections x both filters
        for r in (0, 1, 2):
            for uo in (False, True):
                fixed += [(0, ("BlockInImmersion", 1, 1, 1), r, uo), (1, ("BlockInContact", 1, 1, 1), r, uo),
                          (1, ("BlockInContact", 1, 1, 0), r, uo)]
        for module, spec, r, uo in fixed:
            o, attrs = self.constructed(*spec)
            self.one_object_case(module, o, attrs, spec[0], r, uo, "fixed")
        o = _Bare()
        self.one_object_case(1, o, [-1] * 6, "bare object", 0, False, "fixed")
        self.one_object_case(0, o, [-1] * 6, "bare object", 0, False, "fixed")
        # real constructors, every combination of optional parts
        combos = [("ExaminationObject",)] + [("BlockInImmersion", cp, fw, bw) for cp in (1, 0) for fw in (1, 0) for bw in (1, 0)] \
            + [("BlockInContact", fw, bw, um) for fw in (1, 0) for bw in (1, 0) for um in (1, 0)]
        for _ in range(70 if self.Q else 700):
            spec = combos[int(rng.integers(len(combos)))]
            if rng.random() < 0.5:       # mostly the valid ones
                spec = [("BlockInImmersion", 1, 1, 1), ("BlockInContact", 1, 1, 1), ("BlockInContact", 1, 1, 0),
                        ("BlockInImmersion", 1, 1, 0), ("BlockInContact", 0, 1, 0), ("BlockInImmersion", 1, 1, 1)][int(rng.integers(6))]
            module = int(rng.random() < (0.3 if spec[0] == "BlockInImmersion" else 0.8))
            o, attrs = self.constructed(*spec)
            self.one_object_case(module, o, attrs, spec[0], R(), U(), "constructor")
        # any attribute pattern: a valid object with a few attributes removed / set to None / added
        for _ in range(70 if self.Q else 900):
            module = int(rng.integers(2))
            attrs = [[1, 1, 1, 1, 1, -1], [1, 1, -1, 1, 1, 1], [1, 1, -1, 1, 1, 0], [-1, 1, -1, -1, -1, -1]][int(rng.integers(4))]
            attrs = list(attrs)
            for _k in range(int(rng.integers(0, 4))):
                attrs[int(rng.integers(6))] = int(rng.integers(-1, 2))
            if rng.random() < 0.15:
                attrs = [int(x) for x in rng.integers(-1, 2, size=6)]
            bases = ["bare object", "ExaminationObject", "BlockInImmersion"] + (["BlockInContact"] * 2 if attrs[0] == attrs[1] else [])
            base = bases[int(rng.integers(len(bases)))]
            o = self.build_object(attrs, base)
            self.one_object_case(module, o, attrs, base + " (attributes edited)", R(), U(), "edited")
        # one stream per error branch
        streams = []
        for k in range(4):      # immersion: each attribute of the try block missing -> ValueError, whatever r
            a = [1, 1, 1, 1, 1, -1]
            a[[2, 0, 3, 4][k]] = -1
            streams.append((0, a, "missing attribute"))
        streams += [(0, [1, 1, 1, 0, 1, -1], "frontwall None"), (0, [1, 1, 1, 0, 0, -1], "frontwall None"),
                    (0, [1, 1, 0, 1, 1, -1], "couplant None"), (0, [1, 1, 0, 1, 0, -1], "couplant None"),
                    (0, [1, 1, 0, 0, 1, -1], "couplant and frontwall None"), (0, [1, 1, 1, 1, 0, -1], "backwall None"),
                    (0, [0, 0, 1, 1, 1, -1], "block None"), (0, [1, -1, 1, 1, 1, -1], "no `material`"),
                    (1, [-1, -1, -1, 1, 1, 1], "no material at all"), (1, [-1, -1, 1, -1, -1, -1], "no material at all"),
                    (1, [-1, 1, -1, 1, 1, 1], "plan B"), (1, [-1, 0, -1, 1, 1, -1], "plan B, None"),
                    (1, [1, -1, -1, 1, 1, 0], "only block_material"), (1, [1, 1, -1, -1, 1, 1], "frontwall absent"),
                    (1, [1, 1, -1, 0, 1, 1], "frontwall None"), (1, [1, 1, -1, 1, -1, 1], "backwall absent"),
                    (1, [1, 1, -1, 1, 0, 1], "backwall None"), (1, [1, 1, -1, 1, 1, -1], "under_material absent"),
                    (1, [1, 1, 1, 1, 1, -1], "immersion block")]
        for module, attrs, kind in streams:
            for r in ((-1, 0, 1, 2, 3) if not self.Q else [int(x) for x in rng.choice([-1, 0, 1, 2, 3], size=2, replace=False)]):
                bases = ["bare object", "ExaminationObject", "BlockInImmersion"] + (["BlockInContact"] if attrs[0] == attrs[1] else [])
                base = bases[int(rng.integers(len(bases)))]
                self.one_object_case(module, self.build_object(attrs, base), attrs, base + " (attributes edited)", r,
                                     bool(rng.random() < 0.5), "error stream: " + kind)

    # -- (7) the views dictionary on sub-dictionaries of paths; closed form of the unique filter; check_view_keys --------------------
    def fam_views_dict(self):
        rng, mh = self.rng, self.mh
        corr = ("Model.ViewsN.make_views_from_paths_dict (views_loop, od_set, view_str) vs "
                "arim.models.helpers.make_views_from_paths")
        keys_sr = sorted(k for k in self.good_paths if k[1] in (0, 1, 2))
        todo = []
        # fixed: the repeated key of the note (names ["L", "L"]), a non-closed set, a single name
        for names in (["L", "L"], ["T", "L", "T"], ["L"], ["T", "L"], []):
            todo.append(((1, 0, 0, 0), 0, names, False))
        todo += [((1, 1, 1, 0), 1, ["LT", "TL"], True), ((1, 1, 1, 0), 1, ["LT"], False), ((0, 1), 1, ["LT"], False),
                 ((0, 1), 2, ["LLT", "TLL", "L"], True), ((0, 1), 1, ["LL", "LL", "T"], False)]
        for _ in range(50 if self.Q else 600):
            s, r = keys_sr[int(rng.integers(len(keys_sr)))]
            avail = list(self.good_paths[(s, r)])
            u = rng.random()
            if u < 0.6:          # reversal-closed
                p = [0.3, 0.6, 1.0][int(rng.integers(3))]
                chosen = set()
                for w in avail:
                    if w <= w[::-1] and rng.random() < p:
                        chosen |= {w, w[::-1]}
                names = [w for w in avail if w in chosen]
            else:
                names = [w for w in avail if rng.random() < 0.4][:6]
            names = [names[k] for k in rng.permutation(len(names))]
            if names and rng.random() < 0.15:       # a repeated key (possible only through a Mapping that is not a dict)
                names.insert(int(rng.integers(len(names) + 1)), names[int(rng.integers(len(names)))])
            if len(names) > 8 and rng.random() < 0.7:
                names = names[:8] if u >= 0.6 else names
            todo.append((s, r, names, bool(rng.random() < 0.5)))
        for s, r, names, uo in todo:
            paths = self.good_paths[(tuple(s), r)]
            items = [(w, paths[w]) for w in names]
            dup = len(set(names)) < len(names)
            if dup:
                sub, sp = _DupMapping(items), "Mapping with a repeated key"
            elif rng.random() < 0.5:
                sub, sp = collections.OrderedDict(items), "OrderedDict"
            else:
                sub, sp = dict(items), "dict"
            closed = all(w[::-1] in names for w in names)
            kwsp = rng.random() < 0.5
            if not uo and rng.random() < 0.3:
                ec, views, msg = call(mh.make_views_from_paths, sub)
                sp += ", unique absent"
            elif kwsp:
                ec, views, msg = call(mh.make_views_from_paths, sub, tfm_unique_only=uo)
            else:
                ec, views, msg = call(mh.make_views_from_paths, sub, uo)
            rep = {"correspondence": corr, "paths_from": {"setup(kind,flags)": list(s), "max_number_of_reflection": r},
                   "path_names(dictionary order)": names, "mapping": sp, "tfm_unique_only": uo}
            try:
                zpaths, entries = self.enc_views(views, self.env()) if ec == 0 else ([], [])
            except EncodingError as e:
                self.encoding_violation("make_views_from_paths", e, rep)
                continue
            rep["impl"] = {"view_keys": [e[0] for e in entries]} if ec == 0 else ERR[ec] + " " + msg
            cp, cv = self.cviews(zpaths, entries)
            cn = clist([czl(zw(w)) for w in names])
            lit = f"CSub {czl(s)} {cZ(r)} {cn} {cbool(uo)} {cZ(ec)} {cp} {cv}"
            expr = (f"match bind (sub_paths {czl(s)} {cZ(r)} {cn}) (fun d => make_views_from_paths_dict d {cbool(uo)}) with "
                    "inl d => (0%Z, show_views (fun k : pystr => k) d) | inr e => (ecode e, []) end")
            self.add(len(entries) > 40, lit, "make_views_from_paths",
                     f"{'closed' if closed else 'open'}{'/repeated key' if dup else ''}:{ERR[ec]}", rep, expr)
            # closed form of the unique filter, on the keys of the two real dictionaries
            if closed and not dup and ec == 0 and names:
                ec1, full, _ = call(mh.make_views_from_paths, sub, False)
                ec2, uniq, _ = call(mh.make_views_from_paths, sub, True)
                if ec1 == 0 and ec2 == 0:
                    try:
                        lit = f"CClosed {clist([csafe(k) for k in full])} {clist([csafe(k) for k in uniq])}"
                    except EncodingError as e:
                        self.encoding_violation("unique filter", e, rep)
                        continue
                    self.add(len(full) > 60, lit, "unique closed form", f"{len(names)} paths",
                             {"correspondence": "closed form of Props.C18.unique_views_closed_form (kept: len(rx) < len(tx) or "
                                                "equal and not rx[::-1] < tx) on the keys of make_views_from_paths(paths, False) "
                                                "vs the keys of make_views_from_paths(paths, True)",
                              "path_names": names, "impl_full_keys": list(full), "impl_unique_keys": list(uniq)},
                             f"map string_of_list_ascii (filter key_kept (map S {clist([cstr(k) for k in full])}))")
        # the ready-made check on whole configurations (error classes as Model.Views.z_of_err: ValueError/KeyError = 1)
        for s in self.setups():
            for r in (-1, 0, 1, 2, 3):
                for uo in (False, True):
                    def f():
                        return self.mh.make_views_from_paths(self.real_make_paths(s, self.real_idict(s), r), uo)
                    ec, views, msg = call(f)
                    ecc = {0: 0, 1: 1, 2: 1, 3: 3, 4: 4}.get(ec, 99)
                    keys = list(views) if ec == 0 else []
                    if not all(isinstance(k, str) and all(ord(ch) < 256 for ch in k) for k in keys):
                        self.encoding_violation("view keys", f"keys {keys!r}", {"setup": s, "r": r})
                        continue
                    lit = f"CViewKeys ({czl(s)}, {cZ(r)}, {cbool(uo)}, ({cZ(ecc)}, {clist([cpts(k) for k in keys])}))"
                    self.add(len(keys) > 60, lit, "view keys", f"r={r}:{ERR[ec]}",
                             {"correspondence": "Model.ViewsN.check_view_keys (make_views_from_paths_dict of make_paths) vs "
                                                "list(make_views_from_paths(make_paths(...)).keys())",
                              "setup(kind,flags)": s, "max_number_of_reflection": r, "tfm_unique_only": uo,
                              "impl": keys if ec == 0 else ERR[ec] + " " + msg},
                             f"match bind (make_paths (setup_of_z {czl(s)}) {cZ(r)}) (fun p => make_views_from_paths_dict p {cbool(uo)}) "
                             "with inl d => (0%Z, map (fun e => string_of_list_ascii (fst e)) d) | inr e => (z_of_err e, []) end")

    # -- (8) Path.reverse on the documented paths -------------------------------------------------------------------------------------
    def fam_reverse(self):
        rng, c = self.rng, self.c
        corr = ("Model.ViewsN.spec_path_reversed / Model.Views.path_reverse (spec_path) vs arim.Path.reverse(); "
                "Model.ViewsN.make_paths_gen entry vs the path itself")
        todo = []
        for (s, r), paths in sorted(self.good_paths.items()):
            if r != max(rr for (ss, rr) in self.good_paths if ss == s):
                continue
            for w, p in paths.items():
                todo.append((list(s), w, p, "make_paths"))
        # the same rule with more reflections, on the real interfaces (no make_paths above 2 in the library)
        for s in ([0, 1], [1, 1, 1, 0], [1, 1, 1, 1]):
            d = self.real_idict(s)
            words = ["".join(x) for n in (4, 5) for x in itertools.product(LT, repeat=n)]
            for w in [words[int(k)] for k in rng.choice(len(words), size=4 if self.Q else 24, replace=False)]:
                walls = [d["backwall_refl"] if k % 2 == 1 else d["frontwall_refl"] for k in range(1, len(w))]
                if s[0] == 0:
                    p = c.Path((d["probe"], d["frontwall_trans"], *walls, d["grid"]), (self.COUPLANT,) + (self.BLOCK,) * len(w),
                               (c.Mode.L,) + tuple(c.Mode[ch] for ch in w), name=w)
                else:
                    p = c.Path((d["probe"], *walls, d["grid"]), (self.BLOCK,) * len(w), tuple(c.Mode[ch] for ch in w), name=w)
                todo.append((s, w, p, "same rule, more reflections"))
        for s, w, p, kind in todo:
            ec, q, msg = call(p.reverse)
            ec2, qq, msg2 = call(q.reverse) if ec == 0 else (ec, None, msg)
            rep = {"correspondence": corr, "setup(kind,flags)": s, "path": w, "built_by": kind}
            try:
                env = self.env()
                fwd = self.enc_path(p, env)
                got = self.enc_path(q, env) if ec == 0 else ([], [], [], [])
                got2 = self.enc_path(qq, env) if ec2 == 0 else ([], [], [], [])
            except EncodingError as e:
                self.encoding_violation("Path.reverse", e, rep)
                continue
            rep.update({"impl_path(name,modes,materials,interfaces[points,kind,tr,against,inc,out])": fwd,
                        "impl_reversed": got if ec == 0 else ERR[ec] + " " + msg,
                        "impl_reversed_twice": got2 if ec2 == 0 else ERR[ec2] + " " + msg2})
            lit = f"CRev {czl(s)} {czl(zw(w))} {cZ(max(ec, ec2))} {cpath(fwd)} {cpath(got)} {cpath(got2)}"
            self.add(False, lit, "Path.reverse", f"{'imm' if s[0] == 0 else 'contact'}:{len(w)} legs:{kind}", rep,
                     f"(z_of_path (spec_path (setup_of_z {czl(s)}) (word_of_z {czl(zw(w))})), "
                     f"z_of_path (spec_path_reversed (setup_of_z {czl(s)}) (word_of_z {czl(zw(w))})))")

    # -- evaluation in Coq ---------------------------------------------------------------------------------------------------------------
    def evaluate(self, name, cases, shard):
        chk = self.chk
        if not cases:
            return
        fails = chk.coq_failing(name, PRELUDE, "tcase", [x[0] for x in cases], "check", shard=shard, jobs=8)
        if not fails:
            return
        per_family = {}
        report = []
        for k in fails:
            fam = cases[k][1]
            per_family[fam] = per_family.get(fam, 0) + 1
            if per_family[fam] <= 2:
                report.append(k)
        try:
            out = chk.coq_values(name + "_answers", PRELUDE, [cases[k][3] for k in report])
            answers = [a.strip() for a in out.split("     = ")[1:]]
        except Exception as e:  # noqa: BLE001
            answers = [f"(could not be printed: {e})"[:300]] * len(report)
        for j, k in enumerate(report):
            lit, fam, rep, expr = cases[k]
            rep = dict(rep)
            rep["model_expression"] = expr[:1500]
            rep["model_answer"] = (answers[j] if j < len(answers) else "?")[:3000]
            rep["disagreeing_cases_of_this_family"] = per_family[fam]
            chk.violation("tie:" + fam.replace(" ", "_"),
                          f"tie C18: {fam}: the library and Model/ViewsN.v disagree ({per_family[fam]} case(s)); "
                          f"{rep['correspondence'][:160]}", rep, failing_input_found=False)

    def run(self):
        t0 = time.time()
        self.fam_recip()
        self.fam_key()
        self.fam_modes()
        self.fam_interfaces()
        self.fam_paths()
        self.fam_objects()
        self.fam_views_dict()
        self.fam_reverse()
        t1 = time.time()
        self.evaluate("tie_C18_light", self.light, 250)
        self.evaluate("tie_C18_heavy", self.heavy, 6)
        self.chk.cov["tie_C18"] = {"comparisons": self.n, "light_cases": len(self.light), "heavy_cases": len(self.heavy),
                                   "library_s": round(t1 - t0, 1), "coq_s": round(time.time() - t1, 1)}
        return self.n


def run(chk, arim, rng, quick):
    """chk: common.Check of the running check; arim: the imported library; rng: numpy Generator.  Returns the number of
    comparisons made."""
    return _Tie(chk, arim, rng, quick).run()
