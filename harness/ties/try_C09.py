"""Development runner of the C09 tie alone (no proofs):
   cd /verif && VERIF_ARIM_SRC=/repo/src PYTHONPATH=/verif/harness /venv/bin/python harness/ties/try_C09.py --tier quick --no-proofs
"""
import time

import numpy as np  # noqa: F401
from common import Check

chk = Check("C09", design_ref="DESIGN.md §5 C09")
arim = chk.import_arim()
import arim.scat  # noqa: E402,F401

from ties import tie_C09  # noqa: E402

t0 = time.time()
n = tie_C09.run(chk, arim, chk.rng, chk.tier == "quick")
print(f"# tie_C09: {n} comparisons in {time.time() - t0:.1f} s", flush=True)
agg = {}
for k, v in sorted(chk.hist.get("tie_C09", {}).items()):
    agg[k] = v
print("#  ", agg)
chk.finish(evaluations=n, distinct_nontrivial=n, rule="tie only", samples=[])
