"""Tie of Model/CacheGraph.v (C14, extension) to the real arim.ray.RayGeometry / arim.helpers.Cache.

On every run of the check, `run(chk, arim, rng, quick)`

 1. builds real synthetic paths (2..6 interfaces, all values None/True/False of the two normal-side flags) and executes
    WORLDS on them: several `RayGeometry.from_path(path, use_cache=...)` objects of one path (cached and uncached, plus
    failed from_path calls on a path without rays), with interleaved operations: queries of the 17 cached methods
    (non-negative and negative index spellings, out-of-range indices, positional / keyword / absent is_final, numpy
    integer indices), clear_intermediate_results, clear_all_results, precompute blocks (also with a raising query in
    the middle), the four model-function clients, in-place write attempts on earlier answers;
 2. records AFTER EVERY STEP the observable cache state of the touched object: list(rg._cache) in dictionary order,
    rg._final_keys, _cache.hits / misses / ignored, _cache.counter, the class of _cache, the number of
    "Reassigning a cached value" and "Caching is not enabled" ArimWarnings emitted so far, and the outcome kinds
    (None / array / IndexError / ValueError / ...) of the step; at the end the state of every object and the list of
    from_path errors;
 3. lets coqc evaluate (vm_compute) the model on the same worlds: `wstep` / `wrun` (world of objects in one heap,
    `from_path`), `istep` / `irun` (table-driven interpreter `icall` with the bookkeeping `stat_*`) and `kstep` /
    `krun` (pure key-list evaluator `kcall` over `callees` / `raises`, `client_queries`) — step by step and, with the
    top-level functions, on the whole (projected) histories — and compare exactly.  The literal dictionary keys are
    compared through `key_string`: the real key strings are collected in a table and the model's keys are looked up in
    it by string equality inside Coq;
 4. separate streams tie `key_string`/`py_str_int` (two-digit indices on a path of 13 interfaces), `callees`, `raises`
    and `rank` (call tree observed with a logging subclass of helpers.Cache installed on a new object), `client_queries`
    (top-level queries made by the real clients) and `all_keys` (keys present after a sweep over every method and index).

Every disagreement is reported with chk.violation("tie:<key>", ..., failing_input_found=False).
"""
import re
import time
import warnings

import numpy as np

from common import cZ, clist, cpair, cstr

METHS = ["leg_points", "orientations_of_legs_points", "inc_leg_size", "inc_leg_cartesian", "inc_leg_radius",
         "inc_leg_polar", "inc_leg_azimuth", "inc_angle", "signed_inc_angle", "conventional_inc_angle",
         "out_leg_cartesian", "out_leg_radius", "out_leg_polar", "out_leg_azimuth", "out_angle",
         "signed_out_angle", "conventional_out_angle"]
MCODE = {m: i for i, m in enumerate(METHS)}
CLIENTS = ["beamspread_2d_for_path", "reverse_beamspread_2d_for_path", "transmission_reflection_for_path",
           "reverse_transmission_reflection_for_path"]
CODES = {0: "None", 1: "array", 2: "IndexError", 3: "ValueError", 4: "unit", 5: "write-refused", 6: "no-handle",
         7: "client-result", 8: "TypeError", 9: "other-error", -1: "no-such-object"}

# ---------------------------------------------------------------------------
# Coq side: glue around the model functions (routing of an operation to the j-th object, comparison of views)
# ---------------------------------------------------------------------------
PRELUDE = r"""
From Coq Require Import String Ascii ZArith List Bool.
From Arim Require Import Base.ListX Model.Cache Model.CacheGraph.
Import ListNotations.
Open Scope Z_scope.

(* the key strings that the REAL library produced during this run *)
Definition ktab : list string := __KTAB__.

Fixpoint sidx (s : string) (l : list string) (i : Z) : Z :=
  match l with
  | [] => -1
  | x :: l => if String.eqb s x then i else sidx s l (i + 1)
  end.

(* model key -> position of key_string k in ktab (string equality decided here, once per file) *)
Definition kcodes : list Z := Eval vm_compute in
  flat_map (fun m => map (fun a => sidx (key_string (m, a)) ktab 0) [0; 1; 2; 3; 4; 5; 6; 7]) all_meths.
Definition kc (k : key) : Z :=
  if (0 <=? snd k) && (snd k <? 8) then nth (Z.to_nat (meth_code (fst k) * 8 + snd k)) kcodes (-2) else -3.

Definition zl_eqb : list Z -> list Z -> bool := list_eqb Z.eqb.
Fixpoint count_z (z : Z) (l : list Z) : Z :=
  match l with [] => 0 | x :: l => (if x =? z then 1 else 0) + count_z z l end.
Definition set_eqb (a b : list Z) : bool :=
  (List.length a =? List.length b)%nat && forallb (fun x => existsb (Z.eqb x) b) a
  && forallb (fun x => existsb (Z.eqb x) a) b.
Definition cnt_eqb (model : list Z) (exp : list (Z * Z)) : bool :=
  (Z.of_nat (List.length model) =? fold_left (fun acc p => acc + snd p) exp 0)
  && forallb (fun p => count_z (fst p) model =? snd p) exp.

(* what the harness observed of one object: keys of _cache in dictionary order, sorted(_final_keys),
   [hits; misses; ignored; reassign warnings; precompute warnings; 1 Cache / 0 NoCache], counter as (key, count) *)
Definition expview := (list Z * list Z * list Z * list (Z * Z))%type.

Definition match_kf (uc : bool) (keys finals : list key) (e : expview) : bool :=
  let '(ek, ef, es, ec) := e in
  zl_eqb (map kc (rev keys)) ek && set_eqb (map kc finals) ef && (nth 5%nat es (-1) =? (if uc then 1 else 0)).

Definition match_full (uc : bool) (keys finals : list key) (st : stats) (e : expview) : bool :=
  let '(ek, ef, es, ec) := e in
  zl_eqb (map kc (rev keys)) ek && set_eqb (map kc finals) ef
  && zl_eqb [st_hits st; st_misses st; st_ignored st; st_warn st; st_prewarn st; if uc then 1 else 0] es
  && cnt_eqb (map kc (st_counter st)) ec.

Definition iobj := (bool * list entry * istate)%type.
Definition kobj := (bool * kstate)%type.
Definition tri := (world * list iobj * list kobj)%type.
(* j, packed operation (or has_rays + 2 * use_cache when j < 0), number of objects after the step,
   outcome codes of the step, view of the touched object *)
Definition step_t := (Z * Z * Z * list Z * expview)%type.
Definition case_t := (list Z * list step_t * (list Z * list expview))%type.

Definition last_opt {A} (l : list A) : option A := nth_error l (Nat.pred (List.length l)).

Definition wop_of (j p : Z) : wop :=
  if j <? 0 then WNew (Z.odd p) (Z.odd (p / 2)) else WOn (Z.to_nat j) (op_of_packed p).
Definition codes (es : list entry) : list Z := map (fun e => answer_code (e_ans e)) es.

Definition wobj_ok (ob : robj) (ev : expview) : bool :=
  match_kf (r_uc ob) (map fst (r_cache ob)) (r_finals ob) ev.
Definition iobj_ok (o : iobj) (ev : expview) : bool :=
  let '(uc, _, x) := o in match_full uc (keys_of (fst x)) (s_finals (fst x)) (snd x) ev.
Definition kobj_ok (o : kobj) (ev : expview) : bool :=
  let '(uc, y) := o in match_full uc (k_keys y) (k_finals y) (k_stats y) ev.

(* one step on the three model worlds; the three booleans: wstep / istep / kstep agree with the observation *)
Definition step3 (ifs : list iface) (t : tri) (s : step_t) : (bool * bool * bool) * tri :=
  let '(j, p, nobj, ecodes, ev) := s in
  let '(w, io, ko) := t in
  let o := wop_of j p in
  let w' := wstep ifs w o in
  match o with
  | WNew hr uc =>
      match from_path hr uc with
      | Ok (uc', s0) =>
          let i1 : iobj := (uc', [], (s0, stats0)) in
          let k1 : kobj := (uc', ([], [], stats0)) in
          let okn := (Z.of_nat (List.length (w_objs w')) =? nobj) && (Z.of_nat (List.length io) + 1 =? nobj)
                     && zl_eqb ecodes [] in
          ((okn && match last_opt (w_objs w') with Some ob => wobj_ok ob ev | None => false end,
            okn && iobj_ok i1 ev, okn && kobj_ok k1 ev), (w', io ++ [i1], ko ++ [k1]))
      | Err e =>
          let okn := (Z.of_nat (List.length (w_objs w')) =? nobj) && (Z.of_nat (List.length io) =? nobj)
                     && zl_eqb ecodes [err_code e] in
          ((okn, okn, okn), (w', io, ko))
      end
  | WOn jn o1 =>
      match nth_error (w_objs w) jn, nth_error io jn, nth_error ko jn with
      | Some ob, Some (uc, tr, x), Some (uck, y) =>
          let okn := Z.of_nat (List.length (w_objs w')) =? nobj in
          let okw := match nth_error (w_objs w') jn with
                     | Some ob' => zl_eqb (codes (skipn (List.length (r_trace ob)) (r_trace ob'))) ecodes
                                   && wobj_ok ob' ev
                     | None => false
                     end in
          let (es, x1) := istep ifs uc tr x o1 in
          let y1 := kstep ifs uck y o1 in
          ((okn && okw, okn && zl_eqb (codes es) ecodes && iobj_ok (uc, tr ++ es, x1) ev, okn && kobj_ok (uck, y1) ev),
           (w', upd io jn (uc, tr ++ es, x1), upd ko jn (uck, y1)))
      | None, None, None =>
          let okn := (Z.of_nat (List.length (w_objs w')) =? nobj) && zl_eqb ecodes [-1] in
          ((okn, okn, okn), (w', io, ko))
      | _, _, _ => ((false, false, false), (w', io, ko))
      end
  end.

Definition tri0 : tri := (world0, [], []).

Fixpoint steps_ok (ifs : list iface) (t : tri) (ss : list step_t) : bool :=
  match ss with
  | [] => true
  | s :: ss => let '((a, b, c), t1) := step3 ifs t s in a && b && c && steps_ok ifs t1 ss
  end.

(* the top-level functions wrun / irun / krun on the whole world (the histories of the objects are the projections
   recorded by the model itself in r_hist) *)
Definition final3 (ifs : list iface) (wops : list wop) (fin : list Z * list expview) : bool * bool * bool :=
  let w := wrun ifs wops in
  let okn := zl_eqb (map err_code (w_errors w)) (fst fin)
             && (List.length (w_objs w) =? List.length (snd fin))%nat in
  (okn && forallb (fun oe : robj * expview => wobj_ok (fst oe) (snd oe)) (combine (w_objs w) (snd fin)),
   okn && forallb (fun oe : robj * expview =>
                     let ob := fst oe in
                     iobj_ok (r_uc ob, [], snd (irun ifs (r_uc ob) (r_hist ob))) (snd oe))
                  (combine (w_objs w) (snd fin)),
   okn && forallb (fun oe : robj * expview =>
                     let ob := fst oe in kobj_ok (r_uc ob, krun ifs (r_uc ob) (r_hist ob)) (snd oe))
                  (combine (w_objs w) (snd fin))).

Definition wops_of (ss : list step_t) : list wop :=
  map (fun s : step_t => let '(j, p, _, _, _) := s in wop_of j p) ss.

Definition check_world (c : case_t) : bool :=
  let '(fl, ss, fin) := c in
  let ifs := ifs_of_packed fl in
  steps_ok ifs tri0 ss && (let '(a, b, c) := final3 ifs (wops_of ss) fin in a && b && c).

(* ---- diagnostics: index of the first step on which a model disagrees, which model, and the model's views ---- *)
Definition b2z (b : bool) : Z := if b then 1 else 0.
Definition mview (uc : bool) (keys finals : list key) (st : stats) :=
  (map kc (rev keys), map kc finals,
   [st_hits st; st_misses st; st_ignored st; st_warn st; st_prewarn st; b2z uc], map kc (st_counter st)).
Definition views_at (t : tri) (j : Z) :=
  let '(w, io, ko) := t in
  let jn := Z.to_nat (if j <? 0 then Z.of_nat (List.length io) - 1 else j) in
  (match nth_error (w_objs w) jn with
   | Some ob => (codes (r_trace ob), mview (r_uc ob) (map fst (r_cache ob)) (r_finals ob) stats0)
   | None => ([], mview false [] [] stats0) end,
   match nth_error io jn with
   | Some (uc, tr, x) => (codes tr, mview uc (keys_of (fst x)) (s_finals (fst x)) (snd x))
   | None => ([], mview false [] [] stats0) end,
   match nth_error ko jn with
   | Some (uc, y) => mview uc (k_keys y) (k_finals y) (k_stats y)
   | None => mview false [] [] stats0 end).

Fixpoint first_bad (ifs : list iface) (t : tri) (ss : list step_t) (i : Z) :=
  match ss with
  | [] => None
  | s :: ss =>
      let '((a, b, c), t1) := step3 ifs t s in
      if a && b && c then first_bad ifs t1 ss (i + 1)
      else Some (i, (b2z a, b2z b, b2z c), views_at t1 (let '(j, _, _, _, _) := s in j))
  end.

Definition diag_world (c : case_t) :=
  let '(fl, ss, fin) := c in
  let ifs := ifs_of_packed fl in
  (first_bad ifs tri0 ss 0,
   let '(a, b, c) := final3 ifs (wops_of ss) fin in (b2z a, b2z b, b2z c),
   let w := wrun ifs (wops_of ss) in
   (map err_code (w_errors w),
    map (fun ob => (mview (r_uc ob) (map fst (r_cache ob)) (r_finals ob) stats0,
                    let x := snd (irun ifs (r_uc ob) (r_hist ob)) in
                    mview (r_uc ob) (keys_of (fst x)) (s_finals (fst x)) (snd x),
                    let y := krun ifs (r_uc ob) (r_hist ob) in
                    mview (r_uc ob) (k_keys y) (k_finals y) (k_stats y))) (w_objs w))).

(* ---- the call graph itself ---- *)
(* (tag, flags, args, expected list, string)
   0 key      args [m; a]                      string = the real key          key_string
   1 callees  args [m; a; raised; depth]       expected = direct callees      callees, raises, rank
   2 client   args [c; completed]              expected = top-level queries   client_queries
   3 sweep    args []                          expected = keys after a sweep  all_keys, raises *)
Definition gcase_t := (Z * list Z * list Z * list Z * string)%type.

Fixpoint prefix_eqb (a b : list Z) : bool :=
  match a, b with
  | [], _ => true
  | x :: a, y :: b => (x =? y) && prefix_eqb a b
  | _ :: _, [] => false
  end.

Definition check_graph (c : gcase_t) : bool :=
  let '(tag, fl, args, exp, s) := c in
  let ifs := ifs_of_packed fl in
  let arg := fun i => nth i args 0 in
  if tag =? 0 then String.eqb (key_string (meth_of_Z (arg 0%nat), arg 1%nat)) s
  else if tag =? 1 then
    let m := meth_of_Z (arg 0%nat) in
    let a := arg 1%nat in
    let r := Z.of_nat (rank m) in
    let full := (0 <? a) && (a <? numif ifs - 1) && negb (raises ifs m a) in
    zl_eqb (map kc (callees ifs m a)) exp
    && Bool.eqb (raises ifs m a) (negb (arg 2%nat =? 0))
    && (arg 3%nat <=? r) && (if full then arg 3%nat =? r else true)
  else if tag =? 2 then
    let qs := map (fun q : meth * Z => kc (fst q, match resolved ifs (snd q) with Some a => a | None => -1 end))
                  (client_queries ifs (arg 0%nat)) in
    if arg 1%nat =? 0 then prefix_eqb exp qs else zl_eqb exp qs
  else
    set_eqb (map kc (filter (fun k => negb (raises ifs (fst k) (snd k))) (all_keys ifs))) exp.

Definition diag_graph (c : gcase_t) :=
  let '(tag, fl, args, exp, s) := c in
  let ifs := ifs_of_packed fl in
  let arg := fun i => nth i args 0 in
  let m := meth_of_Z (arg 0%nat) in
  (key_string (m, arg 1%nat), map kc (callees ifs m (arg 1%nat)), b2z (raises ifs m (arg 1%nat)), Z.of_nat (rank m),
   map (fun q : meth * Z => kc (fst q, match resolved ifs (snd q) with Some a => a | None => -1 end))
       (client_queries ifs (arg 0%nat)),
   map kc (filter (fun k => negb (raises ifs (fst k) (snd k))) (all_keys ifs))).
"""


def ecode(e):
    if isinstance(e, IndexError):
        return 2
    if isinstance(e, ValueError):
        return 3
    if isinstance(e, (TypeError, AttributeError)):
        return 8
    return 9


# ---------------------------------------------------------------------------
# packed encodings of Model/Cache.v (op_of_packed, ifs_of_packed)
# ---------------------------------------------------------------------------
def pq(m, raw, f):
    assert 0 <= m < 32 and -16 <= raw < 16
    return m + 32 * (raw + 16) + 1024 * (1 if f else 0)


def pop(op):
    k = op[0]
    if k == 0:
        return 0 + 8 * pq(op[1], op[2], op[3])
    if k in (1, 2):
        return k
    if k in (3, 4):
        return k + 8 * op[1]
    qs = op[1]
    assert len(qs) <= 3
    r = 0
    for (m, raw, f) in reversed(qs):
        r = r * 2048 + pq(m, raw, f)
    return 5 + 8 * (len(qs) + 4 * r)


def pflags(flags):
    enc = lambda v: 2 if v is None else (1 if v else 0)  # noqa: E731
    return clist([cZ(enc(a) + 3 * enc(b)) for a, b in flags])


def describe(op):
    k = op[0]
    if k == 0:
        sp = {0: "positional index", 1: "interface_idx=, is_final= keywords", 2: "is_final= keyword",
              3: "positional is_final", 4: "numpy.int64 index"}[op[4]]
        return f"{METHS[op[1]]}({op[2]}, is_final={bool(op[3])})  [{sp}]"
    if k == 1:
        return "clear_intermediate_results()"
    if k == 2:
        return "clear_all_results()"
    if k == 5:
        return "with precompute(): " + "; ".join(f"{METHS[m]}({r}, is_final={bool(f)})" for (m, r, f) in op[1])
    if k == 3:
        return CLIENTS[op[1]] + "(rg)"
    return f"write into the answer of entry {op[1]} of this object"


def describe_w(wop):
    if wop[0] == "new":
        return (f"RayGeometry.from_path(path{'' if wop[1] else '_without_rays'}, use_cache={wop[2]})"
                + ("  [use_cache left to its default]" if wop[3] == 0 else ""))
    return f"object {wop[1]}: " + describe(wop[2])


# ---------------------------------------------------------------------------
def run(chk, arim, rng, quick):
    import arim.ray
    import arim.model
    import arim.geometry as g
    import arim.helpers
    import arim.core as core

    t_start = time.time()
    RG = arim.ray.RayGeometry
    Cache, NoCache = arim.helpers.Cache, arim.helpers.NoCache
    couplant = arim.Material(longitudinal_vel=1480.0, density=1000.0, state_of_matter="liquid")
    block = arim.Material(longitudinal_vel=6320.0, transverse_vel=3130.0, density=2700.0, state_of_matter="solid")

    ktab = {}        # real key string -> position

    def kid(k):
        k = k if isinstance(k, str) else repr(k)
        return ktab.setdefault(k, len(ktab))

    # -- real objects ----------------------------------------------------
    class Geom:
        def __init__(self, flags, grng):
            N = len(flags)
            self.N, self.flags = N, list(flags)
            sizes = [int(grng.integers(1, 4)) for _ in range(N)]
            interfaces = []
            for k in range(N):
                xyz = grng.integers(-16, 17, size=(sizes[k], 3)).astype(float) * 2.0 ** -4
                xyz[:, 2] += 5.0 * k * (1 if k < 3 else -0.5)
                pts = g.Points(xyz, name=f"I{k}")
                ori = g.default_orientations(pts)
                kw = {}
                if 0 < k < N - 1:
                    if k == 1:
                        kw = dict(kind="fluid_solid", transmission_reflection="transmission")
                    else:
                        kw = dict(kind="solid_fluid", transmission_reflection="reflection", reflection_against=couplant)
                interfaces.append(arim.Interface(pts, ori, are_normals_on_inc_rays_side=flags[k][0],
                                                 are_normals_on_out_rays_side=flags[k][1], **kw))
            materials = [couplant] + [block] * (N - 2)
            modes = [core.Mode.L] + [core.Mode.L if grng.random() < 0.5 else core.Mode.T for _ in range(N - 2)]
            self.path = arim.Path(interfaces, materials, modes, name="synthetic")
            shape = (sizes[0], sizes[-1])
            interior = np.zeros((N - 2, *shape), arim.settings.INT)
            for k in range(1, N - 1):
                interior[k - 1] = grng.integers(0, sizes[k], size=shape)
            self.path.rays = arim.ray.Rays(np.full(shape, np.nan), interior, self.path.to_fermat_path())
            # the same path before ray tracing: from_path must refuse it
            self.path_norays = arim.Path(interfaces, materials, modes, name="synthetic-without-rays")

        def call_client(self, c, rgo):
            f = getattr(arim.model, CLIENTS[c])
            return f(rgo) if c < 2 else f(self.path, rgo)

    class Obj:
        def __init__(self, rgo):
            self.rg = rgo
            self.codes = []     # outcome code of every entry this object produced
            self.answers = []   # the answered python objects (kept alive), parallel to codes
            self.nwarn = 0      # "Reassigning a cached value" warnings so far
            self.nprewarn = 0   # "Caching is not enabled" warnings so far

        def view(self):
            c = self.rg._cache
            cls = 1 if type(c) is Cache else (0 if type(c) is NoCache else 2)
            return ([kid(k) for k in c], sorted(kid(k) for k in self.rg._final_keys),
                    [int(c.hits), int(c.misses), int(getattr(c, "ignored", 0)), self.nwarn, self.nprewarn, cls],
                    sorted((kid(k), int(n)) for k, n in c.counter.items() if n))

    def entry(o, code, ans=None):
        o.codes.append(code)
        o.answers.append(ans)

    def do_query(o, m, raw, final, style):
        """returns True if it raised"""
        f = getattr(o.rg, METHS[m])
        idx = np.int64(raw) if style == 4 else raw
        final = bool(final)
        try:
            if style == 0 and final:
                r = f(idx)
            elif style == 1:
                r = f(interface_idx=idx, is_final=final)
            elif style == 3:
                r = f(idx, final)
            else:
                r = f(idx, is_final=final)
        except Exception as e:  # noqa: BLE001
            entry(o, ecode(e))
            return True
        entry(o, 0 if r is None else 1, r)
        return False

    class _Abort(Exception):
        pass

    def do_op(geom, o, op):
        kind = op[0]
        if kind == 0:
            do_query(o, op[1], op[2], op[3], op[4])
        elif kind == 1:
            o.rg.clear_intermediate_results()
            entry(o, 4)
        elif kind == 2:
            o.rg.clear_all_results()
            entry(o, 4)
        elif kind == 5:
            try:
                with o.rg.precompute():
                    for (m, raw, final) in op[1]:
                        if do_query(o, m, raw, final, 2):
                            raise _Abort()     # the exception really goes through the context manager
            except _Abort:
                pass
            else:
                entry(o, 4)
        elif kind == 3:
            try:
                geom.call_client(op[1], o.rg)
            except Exception as e:  # noqa: BLE001
                entry(o, ecode(e))
            else:
                entry(o, 7)
        elif kind == 4:
            i = op[1]
            if i < len(o.codes) and o.codes[i] == 1:
                x = o.answers[i]
                a = x.coords if isinstance(x, g.Points) else x
                try:
                    a[...] = 0
                except (ValueError, TypeError):
                    entry(o, 5)
                else:
                    entry(o, 4)
            else:
                entry(o, 6)

    def run_world(geom, wops):
        """executes the world on real objects; returns (steps, final) where steps[i] = (j, packed, nobj, codes, view)"""
        objs, errors, steps = [], [], []
        for wop in wops:
            if wop[0] == "new":
                _, has_rays, uc, sp = wop
                path = geom.path if has_rays else geom.path_norays
                try:
                    if sp == 0 and uc:
                        rgo = RG.from_path(path)
                    elif sp == 2:
                        rgo = RG.from_path(path, uc)
                    else:
                        rgo = RG.from_path(path, use_cache=uc)
                except Exception as e:  # noqa: BLE001
                    errors.append(ecode(e))
                    steps.append((-1, int(has_rays) + 2 * int(uc), len(objs), [ecode(e)], ([], [], [0] * 6, [])))
                else:
                    objs.append(Obj(rgo))
                    steps.append((-1, int(has_rays) + 2 * int(uc), len(objs), [], objs[-1].view()))
                continue
            _, j, op = wop
            if j >= len(objs):
                steps.append((j, pop(op), len(objs), [-1], ([], [], [0] * 6, [])))
                continue
            o = objs[j]
            n0 = len(o.codes)
            with warnings.catch_warnings(record=True) as wlist:
                warnings.simplefilter("always")
                do_op(geom, o, op)
            for x in wlist:
                if issubclass(x.category, arim.exceptions.ArimWarning):
                    if "Reassigning a cached value" in str(x.message):
                        o.nwarn += 1
                    elif "Caching is not enabled" in str(x.message):
                        o.nprewarn += 1
            steps.append((j, pop(op), len(objs), o.codes[n0:], o.view()))
        return steps, (errors, [o.view() for o in objs])

    def cview(v):
        keys, finals, stats, counter = v
        return cpair(clist([cZ(k) for k in keys]), clist([cZ(k) for k in finals]), clist([cZ(s) for s in stats]),
                     clist([cpair(cZ(k), cZ(n)) for k, n in counter]))

    def cworld(geom, steps, fin):
        ss = clist([cpair(cZ(j), cZ(p), cZ(n), clist([cZ(c) for c in codes]), cview(v))
                    for (j, p, n, codes, v) in steps], sep=";\n ")
        return cpair(pflags(geom.flags), ss, cpair(clist([cZ(e) for e in fin[0]]), clist([cview(v) for v in fin[1]])))

    # -- generators --------------------------------------------------------
    def q(name, raw, final=True, style=2):
        return (0, MCODE[name], raw, final, style)

    def single(uc, ops, sp=1):
        return [("new", True, uc, sp)] + [("on", 0, o) for o in ops]

    EX_FLAGS = [(None, True), (False, None), (True, None)]
    FLAGS4 = [(None, True), (True, True), (False, False), (True, None)]
    ex_history = [q("inc_angle", 1, True, 0), q("signed_inc_angle", -2, False), (1,), q("conventional_inc_angle", 2),
                  q("conventional_out_angle", 1), (3, 0), (5, [(MCODE["out_angle"], 0, True), (MCODE["leg_points"], 7, True)]),
                  q("inc_leg_polar", -2, False)]
    hist_c = [(3, 0), (3, 1), (1,), (3, 2), q("inc_leg_size", -1, False), (2,),
              (5, [(MCODE["signed_out_angle"], 1, True), (MCODE["out_leg_azimuth"], -3, False)])]
    ex_world = [("new", True, True, 0), ("new", False, True, 1), ("new", True, True, 1),
                ("on", 0, q("inc_angle", 1)), ("on", 1, q("out_angle", 0, False)), ("new", True, False, 1),
                ("on", 0, (1,)), ("on", 2, (5, [(MCODE["inc_angle"], 1, True)])), ("on", 1, q("inc_angle", -2)),
                ("on", 0, (4, 0)), ("on", 5, (2,)), ("on", 2, (3, 0))]
    fixed = []
    for uc in (True, False):
        fixed += [(EX_FLAGS, single(uc, [q("signed_inc_angle", 1)])),
                  (EX_FLAGS, single(uc, [q("signed_inc_angle", 1), q("signed_inc_angle", -2, False), q("inc_leg_cartesian", 1)])),
                  (EX_FLAGS, single(uc, ex_history)),
                  (FLAGS4, single(uc, hist_c)),
                  (EX_FLAGS, single(uc, [q("leg_points", 3)])),
                  (EX_FLAGS, single(uc, [q("conventional_out_angle", 1)])),
                  (EX_FLAGS, single(uc, [q("conventional_out_angle", -3)]))]
    fixed.append((EX_FLAGS, ex_world))

    def random_flags(N):
        u = rng.random()
        if u < 0.3:       # everything set: no ValueError branch
            return [tuple(bool(rng.integers(0, 2)) for _ in range(2)) for _ in range(N)]
        return [tuple((None, True, False)[int(rng.integers(0, 3))] for _ in range(2)) for _ in range(N)]

    def random_query(N, hot, p_out):
        if hot and rng.random() < 0.5:
            m, raw = hot[int(rng.integers(0, len(hot)))]
            if rng.random() < 0.5:           # the other spelling of the same interface
                raw = raw - N if raw >= 0 else raw + N
            if rng.random() < 0.3:
                m = int(rng.integers(0, 17))
        else:
            m = int(rng.integers(0, 17))
            raw = int(rng.integers(-N, N))
        if rng.random() < p_out:              # IndexError stream
            raw = int(rng.choice([-N - 2, -N - 1, N, N + 1]))
        return m, raw, bool(rng.random() < 0.55)

    def random_op(N, hot, nent, p_out):
        u = rng.random()
        if u < 0.60:
            m, raw, f = random_query(N, hot, p_out)
            hot.append((m, raw))
            return (0, m, raw, f, int(rng.choice([0, 1, 2, 3, 4], p=[0.3, 0.2, 0.3, 0.1, 0.1]))), 1
        if u < 0.69:
            return (1,), 1
        if u < 0.74:
            return (2,), 1
        if u < 0.83:
            qs = []
            for _ in range(int(rng.integers(0, 4))):
                m, raw, f = random_query(N, hot, p_out * 2)
                hot.append((m, raw))
                qs.append((m, raw, f))
            return (5, qs), len(qs) + 1
        if u < 0.93:
            return (3, int(rng.integers(0, 4))), 1
        return (4, int(rng.integers(0, max(1, nent) + 1))), 1

    def random_world(N, kind):
        """kind: 'one' a single object; 'multi' 2..4 objects interleaved; 'errors' many failing calls"""
        p_out = 0.25 if kind == "errors" else 0.06
        nobj_max = 1 if kind == "one" else int(rng.integers(2, 5))
        L = int(rng.integers(1, 22 if kind == "one" else 36))
        wops, hots, nents = [], [], []

        def new():
            has_rays = not (rng.random() < (0.3 if kind == "errors" else 0.08))
            uc = bool(rng.random() < 0.65)
            wops.append(("new", has_rays, uc, int(rng.integers(0, 3))))
            if has_rays:
                hots.append([]); nents.append(0)

        new()
        if kind == "one" and not hots:
            new()
        for _ in range(L):
            if len(hots) < nobj_max and (not hots or rng.random() < 0.15):
                new()
                continue
            if rng.random() < (0.08 if kind == "errors" else 0.01):
                j = len(hots) + int(rng.integers(0, 3))          # no such object
                op, _n = random_op(N, [], 0, p_out)
                wops.append(("on", j, op))
                continue
            j = int(rng.integers(0, len(hots)))
            op, n = random_op(N, hots[j], nents[j], p_out)
            nents[j] += n
            wops.append(("on", j, op))
        return wops

    # -- 1. worlds ---------------------------------------------------------
    n_worlds = 400 if quick else 4000
    n_geoms = 24 if quick else 160
    geoms = [Geom(random_flags((2, 3, 4, 5, 3, 4, 6, 3)[k % 8]), rng) for k in range(n_geoms)]
    fixed_geoms = {}
    worlds = []   # (geom, wops, steps, fin)
    for flags, wops in fixed:
        geom = fixed_geoms.setdefault(repr(flags), Geom(flags, np.random.default_rng(len(fixed_geoms))))
        worlds.append((geom, wops) + run_world(geom, wops))
        chk.count(tie_C14="world:fixed-example")
    for k in range(n_worlds):
        geom = geoms[k % n_geoms]
        kind = ("one", "multi", "multi", "errors", "one")[k % 5]
        wops = random_world(geom.N, kind)
        worlds.append((geom, wops) + run_world(geom, wops))
        chk.count(tie_C14=f"world:{kind}:N={geom.N}")
    n_steps = sum(len(w[2]) for w in worlds)
    for (_g, _w, steps, _f) in worlds:
        for (j, p, n, codes, v) in steps:
            for c in codes:
                chk.count(tie_C14_outcome=CODES.get(c, c))
            if j >= 0 and codes != [-1]:
                chk.count(tie_C14_cache=("Cache" if v[2][5] == 1 else "NoCache"))

    # -- 2. the call graph: keys, callees, raises, rank, client_queries, all_keys -----------
    class LogCache(Cache):
        """helpers.Cache that also records its accesses"""
        def __init__(self):
            super().__init__()
            self.log = []

        def __getitem__(self, key):
            try:
                v = super().__getitem__(key)
            except KeyError:
                self.log.append(("miss", key))
                raise
            self.log.append(("hit", key))
            return v

        def __setitem__(self, key, value):
            self.log.append(("set", key))
            super().__setitem__(key, value)

    class LogNoCache(NoCache):
        """helpers.NoCache that also records its accesses"""
        def __init__(self):
            super().__init__()
            self.log = []

        def __getitem__(self, key):
            try:
                v = super().__getitem__(key)
            except KeyError:
                self.log.append(("miss", key))
                raise
            self.log.append(("hit", key))
            return v

        def __setitem__(self, key, value):
            self.log.append(("set", key))
            super().__setitem__(key, value)

    def calltree(log):
        """[(depth, key)] of the wrapped calls recorded in log"""
        out, depth = [], 0
        for ev, key in log:
            if ev == "set":
                depth -= 1
            else:
                out.append((depth, key))
                if ev == "miss":
                    depth += 1
        return out

    gcases = []    # (literal, info)

    def gcase(tag, flags, args, exp, s, info):
        gcases.append((cpair(cZ(tag), pflags(flags), clist([cZ(a) for a in args]), clist([cZ(e) for e in exp]), cstr(s)),
                       info))

    # 2a. key strings with two-digit indices
    gbig = Geom(random_flags(13), rng)
    for m in range(17):
        for a in range(gbig.N):
            raw = a if rng.random() < 0.5 else a - gbig.N
            rgo = RG.from_path(gbig.path, use_cache=True)
            try:
                getattr(rgo, METHS[m])(raw)
            except ValueError:
                continue
            own = (list(rgo._cache) or ["(nothing stored)"])[-1]      # the key of the method itself is the one stored last
            own = own if isinstance(own, str) else repr(own)
            gcase(0, [], [m, a], [], own, {"stream": "key_string", "method": METHS[m], "index": raw, "numinterfaces": gbig.N,
                                           "arim_key": own, "correspondence": "key_string vs the f-string key of "
                                           "ray._cache_ray_geometry.wrapper"})
            chk.count(tie_C14="graph:key_string")

    # 2b. direct callees / raises / rank ; 2c. clients ; 2d. sweep
    graph_geoms = [Geom(EX_FLAGS, np.random.default_rng(7)), Geom(FLAGS4, np.random.default_rng(8))]
    graph_geoms += geoms[: (6 if quick else 40)]
    for geom in graph_geoms:
        N = geom.N
        for m in range(17):
            for a in range(N):
                raw = a if rng.random() < 0.5 else a - N
                rgo = RG.from_path(geom.path, use_cache=True)
                rgo._cache = LogCache()
                raised = 0
                try:
                    getattr(rgo, METHS[m])(raw)
                except ValueError:
                    raised = 1
                tree = calltree(rgo._cache.log)
                direct = [kid(k) for d, k in tree if d == 1]
                # nesting depth of the calls when nothing is retained (every call runs its body)
                rgn = RG.from_path(geom.path, use_cache=False)
                rgn._cache = LogNoCache()
                try:
                    getattr(rgn, METHS[m])(raw)
                except ValueError:
                    pass
                depth = max([d for d, _ in calltree(rgn._cache.log)] or [-1])
                gcase(1, geom.flags, [m, a, raised, depth], direct, "",
                      {"stream": "callees", "method": METHS[m], "index": raw, "flags_inc_out": geom.flags,
                       "arim_direct_callees": [k for d, k in tree if d == 1], "arim_raised_ValueError": bool(raised),
                       "arim_call_depth": depth,
                       "correspondence": "callees / raises / rank vs the calls made by the body of RayGeometry." + METHS[m]})
                chk.count(tie_C14="graph:callees")
        for c in range(4):
            rgo = RG.from_path(geom.path, use_cache=True)
            rgo._cache = LogCache()
            try:
                geom.call_client(c, rgo)
                done = 1
            except Exception:  # noqa: BLE001
                done = 0
            top = [k for d, k in calltree(rgo._cache.log) if d == 0]
            gcase(2, geom.flags, [c, done], [kid(k) for k in top], "",
                  {"stream": "client_queries", "client": CLIENTS[c], "flags_inc_out": geom.flags, "arim_queries": top,
                   "completed": bool(done), "correspondence": "client_queries vs arim.model." + CLIENTS[c]})
            chk.count(tie_C14="graph:client_queries")
        rgo = RG.from_path(geom.path, use_cache=True)
        for m in range(17):
            for a in range(N):
                try:
                    getattr(rgo, METHS[m])(a if (m + a) % 2 else a - N, is_final=bool((m + a) % 3))
                except ValueError:
                    pass
        gcase(3, geom.flags, [], sorted(kid(k) for k in rgo._cache), "",
              {"stream": "all_keys", "flags_inc_out": geom.flags, "arim_keys": sorted(map(str, rgo._cache)),
               "correspondence": "all_keys minus the raising ones vs the keys of _cache after querying every method at "
               "every interface"})
        chk.count(tie_C14="graph:all_keys")

    t_impl = time.time() - t_start

    # -- 3. the model, in coqc ------------------------------------------------
    names = sorted(ktab, key=ktab.get)
    legend = {i: s for i, s in enumerate(names)}
    safe = [s if all(32 <= ord(ch) < 127 for ch in s) else "?" + s.encode("ascii", "replace").decode() for s in names]
    prelude = PRELUDE.replace("__KTAB__", clist([cstr(s) for s in safe], sep=";\n  "))

    def unk(lst):
        return [legend.get(i, i) for i in lst]

    def uview(v):
        return {"list(_cache)": unk(v[0]), "sorted(_final_keys)": unk(v[1]),
                "hits,misses,ignored,reassign-warnings,precompute-warnings,is-Cache": v[2],
                "counter": {legend.get(k, k): n for k, n in v[3]}}

    def mview_decode(t):
        keys, finals, stats, counter = t
        cnt = {}
        for k in counter:
            cnt[legend.get(k, k)] = cnt.get(legend.get(k, k), 0) + 1
        return {"list(_cache)": unk(keys), "_final_keys": sorted(map(str, unk(finals))),
                "hits,misses,ignored,reassign-warnings,precompute-warnings,is-Cache": list(stats), "counter": cnt}

    def decode_diag_world(text):
        """the printed value of diag_world as python data with the key strings put back (None if unparsable)"""
        import ast
        try:
            body = text[text.index("=") + 1: text.rindex(": option")]
            val = ast.literal_eval(body.replace(";", ",").replace("Some ", ""))
            first, fin_flags, (errs, objs) = val
            out = {"agreement_of(wrun,irun,krun)_at_the_end": list(fin_flags),
                   "from_path_errors": [CODES.get(c, c) for c in errs],
                   "final_objects": [{"wrun(keys,finals only)": mview_decode(o[0:4]), "irun": mview_decode(o[4]),
                                      "krun": mview_decode(o[5])} for o in objs]}
            if first is not None:
                i, flags, (wcodes, wmv, iv, kv) = first      # Coq prints left-nested pairs flat
                wv = (wcodes, wmv)
                out["first_disagreeing_step"] = {
                    "step": i, "agreement_of(wstep,istep,kstep)": list(flags),
                    "wstep": {"outcomes_so_far": [CODES.get(c, c) for c in wv[0]], **mview_decode(wv[1])},
                    "istep": {"outcomes_so_far": [CODES.get(c, c) for c in iv[0]], **mview_decode(iv[1])},
                    "kstep": mview_decode(kv)}
            return out
        except Exception as e:  # noqa: BLE001
            return f"(not decoded: {type(e).__name__}: {e})"

    lits = [cworld(geom, steps, fin) for (geom, _w, steps, fin) in worlds]
    bad = chk.coq_failing("tie_C14_world", prelude, "case_t", lits, "check_world", shard=(40 if quick else 120), jobs=8)
    for n_rep, i in enumerate(bad):
        if n_rep >= 3:
            break
        geom, wops, steps, fin = worlds[i]
        try:
            diag = chk.coq_values("tie_C14_world_diag", prelude, [f"diag_world ({lits[i]})"])
            diag = re.sub(r"\s+", " ", diag)[:6000]
        except Exception as e:  # noqa: BLE001
            diag = repr(e)
        m_ = re.search(r"Some\s*\(\s*(\d+)", diag)
        first = int(m_.group(1)) if m_ else None
        rep = {"numinterfaces": geom.N, "flags_inc_out": geom.flags,
               "world": [describe_w(w) for w in wops],
               "first_disagreeing_step": first,
               "arim_after_that_step": (None if first is None else
                                        {"operation": describe_w(wops[first]),
                                         "outcomes": [CODES.get(c, c) for c in steps[first][3]],
                                         "objects_alive": steps[first][2], **uview(steps[first][4])}),
               "arim_final": {"from_path_errors": [CODES.get(c, c) for c in fin[0]], "objects": [uview(v) for v in fin[1]]},
               "model": ("diag_world = (first disagreeing step with (wstep, istep, kstep agree?) and the views "
                         "(codes, (keys, finals, stats, counter)) of the W / I / K models after it, "
                         "(wrun, irun, krun agree at the end?), final model views); keys are positions in key_table"),
               "model_decoded": decode_diag_world(diag), "model_diag_world": diag, "key_table": legend,
               "correspondence": "wstep/wrun/from_path, istep/irun (icall, iwrapper, stat_*), kstep/krun (kcall, callees, "
                                 "raises, client_queries), key_string vs RayGeometry.from_path + the 17 cached methods, "
                                 "clear_intermediate_results, clear_all_results, precompute, arim.model clients, "
                                 "helpers.Cache/NoCache"}
        chk.violation("tie:cache-state", "the observable cache state (keys of _cache in dictionary order, _final_keys, hits, "
                      "misses, ignored, counter, warnings, outcome kinds) of real RayGeometry objects differs from "
                      "Model/CacheGraph.v", rep, failing_input_found=False)

    glits = [c[0] for c in gcases]
    gbad = chk.coq_failing("tie_C14_graph", prelude, "gcase_t", glits, "check_graph", shard=400, jobs=8)
    seen = set()
    for i in gbad:
        info = dict(gcases[i][1])
        if info["stream"] in seen:
            continue
        seen.add(info["stream"])
        try:
            diag = re.sub(r"\s+", " ", chk.coq_values("tie_C14_graph_diag", prelude, [f"diag_graph ({glits[i]})"]))[:3000]
        except Exception as e:  # noqa: BLE001
            diag = repr(e)
        info["model"] = ("diag_graph = (key_string, callees, raises, rank, client_queries, all_keys without the raising "
                         "ones); keys are positions in key_table")
        info["model_diag_graph"] = diag
        info["key_table"] = legend
        chk.violation("tie:" + info["stream"], f"the {info['stream']} of Model/CacheGraph.v differs from the real call graph",
                      info, failing_input_found=False)

    chk.cov["tie_C14"] = {"worlds": len(worlds), "world_steps": n_steps, "graph_cases": len(gcases),
                          "distinct_real_keys": len(ktab), "disagreeing_worlds": len(bad), "disagreeing_graph_cases": len(gbad),
                          "impl_wall_s": round(t_impl, 1), "wall_s": round(time.time() - t_start, 1)}
    return n_steps + len(worlds) + len(gcases)
