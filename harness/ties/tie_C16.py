"""Tie of the new C16 model (coq/theories/Model/ProbeOps.v) to the real library, evaluated on every run of the check.

    run(chk, arim, rng, quick) -> number of comparisons

Every case = one concrete input, run on the REAL arim objects through the public API, and the model's answer computed by
`vm_compute` inside coqc on the very same input (binary64 instance NumF; all inputs dyadic, so every operation of both sides is
exact or a single correctly rounded operation in the same place: floats are compared with PrimFloat.eqb, i.e. bit for bit up
to the sign of zero).  Discrete things (keys and their order, element order, error / no error and the step at which it
happens, booleans, counts) are compared exactly.

Ties (model function vs arim call):
  slice_indices                      vs  range(*slice(a, b, c).indices(n)) and numpy `arange(n)[a:b:c]`
  init_probe (init_arg)              vs  arim.Probe(locations, frequency, dimensions, orientations, shapes, dead_elements,
                                         bandwidth, pcs, metadata)
  make_matrix_probe_x / matrix_metadata (dict_get / dict_set / dict_unset / dict_default)
                                     vs  arim.Probe.make_matrix_probe(numx, pitch_x, numy, pitch_y, frequency, ...)
  subprobe / np_take / take_opt      vs  Probe.subprobe(elements_idx, save_metadata)
  set_element_dimensions             vs  Probe.set_element_dimensions
  run_ops_x / apply_op_x / with_core vs  Probe.rotate / translate / translate_to_point_O / set_reference_element /
                                         reset_position on the whole object (frame condition on the other slots)
  cs_to_gcs                          vs  CoordinateSystem.convert_to_gcs
  cs_from_gcs_pairwise               vs  CoordinateSystem.convert_from_gcs_pairwise
  cs_copy                            vs  CoordinateSystem.copy
  cs_isclose / vclose / close1 / atol_default
                                     vs  CoordinateSystem.isclose(other, atol=, rtol=)
  apply_probe_location / deg2rad     vs  arim.io.native.probe_from_conf(conf, apply_probe_location)
  place_over_surface                 vs  arim.measurement.move_probe_over_flat_surface(frame, distances, full_output=True)
                                         (gate `pcs.isclose(GCS)` and the final rotate / translate; theta and z_o are READ
                                         from the library's answer: the regression belongs to C19)

Angles.  NumF has no libm.  For the two ties with an angle the model runs on the instance `NumA rad c s` defined in the generated
file: NumF whose sin / cos answer `s` / `c` at the argument `rad` and nan anywhere else (so the model's own deg2rad must
produce `rad` bit for bit), and whose pi is the binary64 pi.  rad, c, s are computed by Python's math module, not by arim.
With angle absent or 0 every operation is exact (tolerance 0 = bit for bit); with a generic angle the 3-term sums of the
rotation are rounded in an order numpy does not promise, and the comparison uses the tolerance 2^-40 x extent, computed in Coq.

Boolean masks.  numpy accepts a boolean array of the length of the axis and ALSO an EMPTY boolean array on an axis of any
length (nothing selected); np_take follows that rule (mask_fits).  Both are generated: the valid stream draws the empty
boolean array on non-empty probes too ("sub:mask-empty"), the error stream masks of every other length.
"""
import json
import math

import numpy as np

from common import cZ, cfloat, clist, cpair, cbool, copt, cstr

CORR = {
    "slice": "slice_indices vs range(*slice(start, stop, step).indices(n)) / numpy arange(n)[start:stop:step]",
    "prog": "init_probe | make_matrix_probe_x, then subprobe / set_element_dimensions / run_ops_x vs arim.Probe(...) | "
            "Probe.make_matrix_probe(...), then Probe.subprobe / set_element_dimensions / rotate, translate, "
            "translate_to_point_O, set_reference_element, reset_position",
    "togcs": "cs_to_gcs vs CoordinateSystem.convert_to_gcs",
    "pair": "cs_from_gcs_pairwise vs CoordinateSystem.convert_from_gcs_pairwise",
    "copy": "cs_copy vs CoordinateSystem.copy",
    "close": "cs_isclose (atol_default) vs CoordinateSystem.isclose",
    "loc": "apply_probe_location (on Model.Probe.make_matrix_probe) vs arim.io.native.probe_from_conf",
    "place": "place_over_surface vs arim.measurement.move_probe_over_flat_surface (gate and final rotate / translate)",
}

PREAMBLE = r"""
From Coq Require Import ZArith List Bool String PrimFloat.
From Arim Require Import Base.Num Base.NumF Base.ListX Model.Vec3 Model.Probe Model.ProbeOps.
Import ListNotations.
Open Scope bool_scope.

(* NumF whose sin / cos are known at ONE argument (nan elsewhere) and whose pi is the binary64 pi *)
Definition NumA (rad c s : float) : Num float := {|
  n0 := n0 NumF; n1 := n1 NumF; nadd := nadd NumF; nsub := nsub NumF; nmul := nmul NumF; ndiv := ndiv NumF;
  nopp := nopp NumF; nsqrt := nsqrt NumF;
  nsin := fun x => if PrimFloat.eqb x rad then s else nan;
  ncos := fun x => if PrimFloat.eqb x rad then c else nan;
  nasin := nasin NumF; nacos := nacos NumF; natan2 := natan2 NumF; nexp := nexp NumF; nln := nln NumF;
  npi := 0x1.921fb54442d18p+1%float;
  nltb := nltb NumF; nleb := nleb NumF; neqb := neqb NumF; nofZ := nofZ NumF;
  nfloor := nfloor NumF; ntrunc := ntrunc NumF; nround := nround NumF |}.

Definition fz : float := PrimFloat.zero.
(* |a - b| <= tol; tol = 0: IEEE equality (false on nan) *)
Definition ftol (tol a b : float) : bool := PrimFloat.leb (PrimFloat.abs (PrimFloat.sub a b)) tol.
Definition veq (tol : float) (a b : vec3 float) : bool :=
  ftol tol (vx a) (vx b) && ftol tol (vy a) (vy b) && ftol tol (vz a) (vz b).
Definition cseq (tol : float) (a b : csys (T:=float)) : bool :=
  veq tol (cs_o a) (cs_o b) && veq tol (cs_i a) (cs_i b) && veq tol (cs_j a) (cs_j b).
Definition coreeq (tol : float) (a b : probe (T:=float)) : bool :=
  list_eqb (veq tol) (p_locs a) (p_locs b) && option_eqb (list_eqb (veq tol)) (p_oris a) (p_oris b) &&
  cseq tol (p_pcs a) (p_pcs b).
Definition mveq (a b : mval float) : bool :=
  match a, b with
  | MNone, MNone => true
  | MStr s, MStr t => String.eqb s t
  | MInt x, MInt y => Z.eqb x y
  | MNum x, MNum y => PrimFloat.eqb x y
  | MNan, MNan => true
  | _, _ => false
  end.
Definition metaeq (a b : dict float) : bool := list_eqb (pair_eqb String.eqb mveq) a b.
Definition pxeq (a b : probe_x (T:=float)) : bool :=
  coreeq fz (x_core a) (x_core b) && option_eqb (list_eqb (veq fz)) (x_dims a) (x_dims b) &&
  option_eqb (list_eqb Z.eqb) (x_shapes a) (x_shapes b) && list_eqb Bool.eqb (x_dead a) (x_dead b) &&
  option_eqb PrimFloat.eqb (x_freq a) (x_freq b) && option_eqb PrimFloat.eqb (x_bw a) (x_bw b) &&
  metaeq (x_meta a) (x_meta b) && Z.eqb (x_numel a) (x_numel b).

(* a constructor call followed by a few method calls on the whole object *)
Inductive ctor : Type :=
| CtInit (locs : list (vec3 float)) (freq : option float) (dims oris : arg1 (vec3 float)) (shapes : arg1 Z)
         (dead : arg1 bool) (bw : option float) (pcs : option (csys (T:=float))) (meta : option (dict float))
| CtMatrix (numx : Z) (px : float) (numy : Z) (py : float) (freq : option float) (dims oris : arg1 (vec3 float))
         (shapes : arg1 Z) (dead : arg1 bool) (bw : option float) (pcs : option (csys (T:=float)))
         (meta : option (dict float)).
Inductive step : Type :=
| SOps (ops : list (op (T:=float)))
| SSub (idx : np_idx) (save : bool)
| SDims (sx sy sz : float).
Definition run_ctor (c : ctor) : option (probe_x (T:=float)) :=
  match c with
  | CtInit l f d o s dd b p m => init_probe NumF l f d o s dd b p m
  | CtMatrix nx px ny py f d o s dd b p m => make_matrix_probe_x NumF nx px ny py f d o s dd b p m
  end.
Definition run_step (s : step) (p : probe_x (T:=float)) : option (probe_x (T:=float)) :=
  match s with
  | SOps ops => run_ops_x NumF ops p
  | SSub idx sv => subprobe NumF idx sv p
  | SDims a b c => Some (set_element_dimensions NumF a b c p)
  end.
(* inl final object | inr index of the call that raises (-1: the constructor) *)
Fixpoint run_steps (k : Z) (ss : list step) (p : probe_x (T:=float)) : probe_x (T:=float) + Z :=
  match ss with
  | [] => inl p
  | s :: r => match run_step s p with None => inr k | Some q => run_steps (k + 1)%Z r q end
  end.
Definition run_prog (c : ctor) (ss : list step) : probe_x (T:=float) + Z :=
  match run_ctor c with None => inr (-1)%Z | Some p => run_steps 0%Z ss p end.
Definition progeq (a b : probe_x (T:=float) + Z) : bool :=
  match a, b with inl x, inl y => pxeq x y | inr x, inr y => Z.eqb x y | _, _ => false end.

Definition m_loc (nx : Z) (px : float) (ny : Z) (py : float) (ori : ori_arg (T:=float)) (ref : option refelt)
    (ang so : option float) (rad c s : float) : option (probe (T:=float)) :=
  let N := NumA rad c s in
  match make_matrix_probe N nx px ny py ori with
  | None => None
  | Some p => apply_probe_location N ref ang so p
  end.
Definition m_place (nx : Z) (px : float) (ny : Z) (py : float) (ori : ori_arg (T:=float)) (ops : list (op (T:=float)))
    (th zo c s : float) : option (probe (T:=float)) :=
  let N := NumA th c s in
  match make_matrix_probe N nx px ny py ori with
  | None => None
  | Some p => match run_ops N ops p with None => None | Some q => place_over_surface N th zo q end
  end.
Definition m_close (c other : csys (T:=float)) (atol rtol : option float) : bool :=
  cs_isclose NumF c other (match atol with None => atol_default NumF | Some a => a end)
             (match rtol with None => fz | Some r => r end).
Definition lleq (a b : list (list float)) : bool := list_eqb (list_eqb PrimFloat.eqb) a b.

Inductive tcase : Type :=
| TSlice (n : Z) (s e st : option Z) (want : option (list Z))
| TProg (c : ctor) (ss : list step) (want : probe_x (T:=float) + Z)
| TToGcs (c : csys (T:=float)) (pts want : list (vec3 float))
| TPair (c : csys (T:=float)) (pts origins : list (vec3 float)) (wx wy wz : list (list float))
| TCopy (c : csys (T:=float)) (want : option (csys (T:=float)))
| TClose (c other : csys (T:=float)) (atol rtol : option float) (want : bool)
| TLoc (nx : Z) (px : float) (ny : Z) (py : float) (ori : ori_arg (T:=float)) (ref : option refelt)
       (ang so : option float) (rad c s tol : float) (want : option (probe (T:=float)))
| TPlace (nx : Z) (px : float) (ny : Z) (py : float) (ori : ori_arg (T:=float)) (ops : list (op (T:=float)))
       (th zo c s tol : float) (want : option (probe (T:=float))).

Definition check_case (t : tcase) : bool :=
  match t with
  | TSlice n s e st want => option_eqb (list_eqb Z.eqb) (slice_indices n s e st) want
  | TProg c ss want => progeq (run_prog c ss) want
  | TToGcs c pts want => list_eqb (veq fz) (map (cs_to_gcs NumF c) pts) want
  | TPair c pts os wx wy wz =>
      match cs_from_gcs_pairwise NumF c pts os with (x, y, z) => lleq x wx && lleq y wy && lleq z wz end
  | TCopy c want => option_eqb (cseq fz) (cs_copy NumF c) want
  | TClose c o a r want => Bool.eqb (m_close c o a r) want
  | TLoc nx px ny py ori ref ang so rad c s tol want =>
      option_eqb (coreeq tol) (m_loc nx px ny py ori ref ang so rad c s) want
  | TPlace nx px ny py ori ops th zo c s tol want =>
      option_eqb (coreeq tol) (m_place nx px ny py ori ops th zo c s) want
  end.
"""

ERRORS = (ValueError, IndexError, TypeError, AssertionError, NotImplementedError, RuntimeError, KeyError,
          AttributeError, ZeroDivisionError)


# ---------------------------------------------------------------------------------------------------------------
# Coq literals
# ---------------------------------------------------------------------------------------------------------------
def cv(v):
    return cpair(*[cfloat(x) for x in v])


def cvl(vs):
    return clist([cv(v) for v in vs])


def cmat(m):
    m = np.asarray(m, float).reshape(3, 3)
    return cpair(*[cv(r) for r in m])


def ccs(cs):
    return f"(mkCS {cv(cs[0])} {cv(cs[1])} {cv(cs[2])})"


def carg(a, conv):
    if a is None:
        return "ArgNone"
    if a[0] == "one":
        return f"(ArgOne {conv(a[1])})"
    return f"(ArgEach {clist([conv(x) for x in a[1]])})"


def cmval(v):
    if v is None:
        return "MNone"
    if isinstance(v, str):
        return f"(MStr {cstr(v)})"
    if isinstance(v, (bool, np.bool_)):
        raise TypeError("a boolean metadata value has no counterpart in the model")
    if isinstance(v, (int, np.integer)):
        return f"(MInt {cZ(v)})"
    if isinstance(v, (float, np.floating)):
        return "MNan" if math.isnan(v) else f"(MNum {cfloat(v)})"
    raise TypeError(f"metadata value {v!r} of type {type(v).__name__} has no counterpart in the model")


def cmeta(items):
    return clist([cpair(cstr(k), cmval(v)) for k, v in items])


def cref(r):
    if isinstance(r, str):
        return {"first": "RefFirst", "last": "RefLast", "mean": "RefMean"}[r]
    return f"(RefIdx {cZ(r)})"


def cop(op):
    k = op[0]
    if k == "R":
        return f"(OpRotate {cmat(op[1])} {copt(op[2], cv)})"
    if k == "T":
        return f"(OpTranslate {cv(op[1])})"
    if k == "O":
        return "OpToO"
    if k == "Z":
        return "OpReset"
    if k == "S":
        return f"(OpSetRef {cref(op[1])})"
    raise KeyError(k)


def cori(o):
    if o is None:
        return "OriNone"
    if o[0] == "one":
        return f"(OriOne {cv(o[1])})"
    return f"(OriEach {cvl(o[1])})"


def cidx(ix):
    k = ix[0]
    if k == "int":
        return f"(IdxInt {cZ(ix[1])})"
    if k == "list":
        return f"(IdxList {clist([cZ(x) for x in ix[1]])})"
    if k == "slice":
        return f"(IdxSlice {copt(ix[1], cZ)} {copt(ix[2], cZ)} {copt(ix[3], cZ)})"
    return f"(IdxMask {clist([cbool(b) for b in ix[1]])})"


def cstep(s):
    if s[0] == "ops":
        return f"(SOps {clist([cop(o) for o in s[1]])})"
    if s[0] == "sub":
        return f"(SSub {cidx(s[1])} {cbool(s[2])})"
    return f"(SDims {cfloat(s[1])} {cfloat(s[2])} {cfloat(s[3])})"


def cctor(c):
    tail = " ".join([copt(c["freq"], cfloat), carg(c["dims"], cv), carg(c["oris"], cv), carg(c["shapes"], cZ),
                     carg(c["dead"], cbool), copt(c["bw"], cfloat), copt(c["pcs"], ccs),
                     copt(c["meta"], cmeta)])
    if c["ctor"] == "init":
        return f"(CtInit {cvl(c['locs'])} {tail})"
    return f"(CtMatrix {cZ(int(c['numx']))} {cfloat(c['px'])} {cZ(int(c['numy']))} {cfloat(c['py'])} {tail})"


def ccore(o):
    return (f"(mkProbe {cvl(o['locs'])} {copt(o['oris'], cvl)} {ccs(o['pcs'])})")


def cpx(o):
    return (f"(mkPX {ccore(o)} {copt(o['dims'], cvl)} {copt(o['shapes'], lambda l: clist([cZ(x) for x in l]))} "
            f"{clist([cbool(b) for b in o['dead']])} {copt(o['freq'], cfloat)} {copt(o['bw'], cfloat)} "
            f"{cmeta(o['meta'])} {cZ(o['numel'])})")


# ---------------------------------------------------------------------------------------------------------------
# observation of real objects
# ---------------------------------------------------------------------------------------------------------------
def rows(a):
    a = np.asarray(a, float)
    assert a.ndim == 2 and a.shape[1] == 3, a.shape
    return [[float(x) for x in r] for r in a]


def obs_cs(cs):
    o, i, j = (np.asarray(v, float) for v in (cs.origin, cs.i_hat, cs.j_hat))
    assert o.shape == i.shape == j.shape == (3,)
    return [[float(x) for x in o], [float(x) for x in i], [float(x) for x in j]]


def obs_core(p):
    return {"locs": rows(p.locations.coords),
            "oris": None if p.orientations is None else rows(p.orientations.coords),
            "pcs": obs_cs(p.pcs)}


def obs_probe(p):
    d = obs_core(p)
    d["dims"] = None if p.dimensions is None else rows(p.dimensions.coords)
    if p.shapes is None:
        d["shapes"] = None
    else:
        assert np.ndim(p.shapes) == 1
        d["shapes"] = [int(v) for v in p.shapes]
    dead = np.asarray(p.dead_elements)
    assert dead.ndim == 1 and dead.dtype == bool, (dead.shape, dead.dtype)
    d["dead"] = [bool(b) for b in dead]
    d["freq"] = None if p.frequency is None else float(p.frequency)
    d["bw"] = None if p.bandwidth is None else float(p.bandwidth)
    d["meta"] = [[k, v] for k, v in p.metadata.items()]
    for k, v in d["meta"]:
        assert isinstance(k, str)
        cmval(v)
    d["numel"] = int(p.numelements)
    return d


def js(x):
    """JSON-able copy (floats kept as numbers; nan allowed by json.dump)"""
    if isinstance(x, dict):
        return {k: js(v) for k, v in x.items()}
    if isinstance(x, (list, tuple)):
        return [js(v) for v in x]
    if isinstance(x, np.ndarray):
        return js(x.tolist())
    if isinstance(x, (np.integer,)):
        return int(x)
    if isinstance(x, (np.floating,)):
        return float(x)
    if isinstance(x, (np.bool_,)):
        return bool(x)
    return x


# ---------------------------------------------------------------------------------------------------------------
# generators of numbers
# ---------------------------------------------------------------------------------------------------------------
def dy(rng, bits=4, span=8):
    return float(rng.integers(-span * 2 ** bits, span * 2 ** bits + 1)) / 2 ** bits


def dyv(rng, bits=4, span=8):
    return [dy(rng, bits, span) for _ in range(3)]


def nz(f):
    while True:
        x = f()
        if x != 0:
            return x


CUBE = []
for _perm in ((0, 1, 2), (0, 2, 1), (1, 0, 2), (1, 2, 0), (2, 0, 1), (2, 1, 0)):
    for _sx in (1, -1):
        for _sy in (1, -1):
            for _sz in (1, -1):
                _M = np.zeros((3, 3))
                for _r, (_c, _s) in enumerate(zip(_perm, (_sx, _sy, _sz))):
                    _M[_r, _c] = _s
                if round(np.linalg.det(_M)) == 1:
                    CUBE.append(_M)
AXES = [[1.0, 0.0, 0.0], [0.0, 1.0, 0.0], [0.0, 0.0, 1.0], [-1.0, 0.0, 0.0], [0.0, -1.0, 0.0], [0.0, 0.0, -1.0]]
META_KEYS = ["probe_type", "numx", "numy", "pitch_x", "pitch_y", "name", "serial", "id", "note"]
META_VALS = [None, None, "", "x", "linear", "matrix", "custom probe", 0, 3, -1, 128, 0.0, 2.5, -0.125, float("nan")]


def gen_meta(rng):
    r = rng.random()
    if r < 0.3:
        return None
    if r < 0.4:
        return []
    keys = [k for k in META_KEYS if rng.random() < 0.45]
    rng.shuffle(keys)
    return [[k, META_VALS[int(rng.integers(len(META_VALS)))]] for k in keys]


def gen_pcs(rng):
    if rng.random() < 0.45:
        return None
    R = CUBE[int(rng.integers(24))]
    return [dyv(rng), [float(x) for x in R[:, 0]], [float(x) for x in R[:, 1]]]


def gen_arg(rng, n, one, p_none=0.3, p_one=0.3, wrong=False):
    """None | ["one", v] | ["each", [v]*n]; wrong: a per-element list of another length"""
    if wrong:
        m = int(rng.choice([k for k in (0, n - 1, n + 1, n + 3, 2 * n) if k >= 0 and k != n]))
        return ["each", [one() for _ in range(m)]]
    r = rng.random()
    if r < p_none:
        return None
    if r < p_none + p_one:
        return ["one", one()]
    return ["each", [one() for _ in range(n)]]


def gen_ctor(rng, err=None):
    """err: None | 'dims' | 'oris' | 'shapes' | 'dead' | 'numx'"""
    c = {"sp": int(rng.integers(0, 1 << 16))}
    if rng.random() < 0.6 or err == "numx":
        c["ctor"] = "matrix"
        shape = rng.choice(["lin_x", "lin_y", "matrix", "single"], p=[0.35, 0.15, 0.42, 0.08])
        nx, ny = {"lin_x": (int(rng.integers(2, 11)), 1), "lin_y": (1, int(rng.integers(2, 9))),
                  "matrix": (int(rng.integers(2, 6)), int(rng.integers(2, 5))), "single": (1, 1)}[str(shape)]
        if err == "numx":
            nx, ny = [(0, ny), (nx, 0), (-1, 2), (0, 0), (3, -2)][int(rng.integers(5))]
        c.update(numx=nx, numy=ny, px=nz(lambda: dy(rng, 4, 4)), py=nz(lambda: dy(rng, 4, 4)))
        n = max(nx, 0) * max(ny, 0)
    else:
        c["ctor"] = "init"
        n = int(rng.choice([0, 1, 1, 2, 3, 4, 5, 6, 7, 9, 12]))
        c["locs"] = [dyv(rng) for _ in range(n)]
    c["freq"] = [None, 1e6, 5e6, 2.0, 0.5][int(rng.integers(5))]
    c["bw"] = [None, None, 3.0, 2.5e6][int(rng.integers(4))]
    c["dims"] = gen_arg(rng, n, lambda: [abs(x) + 0.125 for x in dyv(rng, 3, 2)], wrong=err == "dims")
    c["oris"] = gen_arg(rng, n, lambda: AXES[int(rng.integers(6))], wrong=err == "oris")
    c["shapes"] = gen_arg(rng, n, lambda: int(rng.integers(0, 3)), wrong=err == "shapes")
    c["dead"] = gen_arg(rng, n, lambda: bool(rng.random() < 0.3), wrong=err == "dead")
    c["pcs"] = gen_pcs(rng)
    c["meta"] = gen_meta(rng)
    return c


def gen_idx(rng, n, err=None):
    """an `elements_idx` for an axis of n elements; err: None | 'int' | 'range' | 'mask' | 'step0'"""
    if err == "int":
        return ["int", int(rng.integers(-n - 2, n + 2))]
    if err == "range":
        ks = [int(rng.integers(-n, n)) for _ in range(int(rng.integers(0, 4)))] if n else []
        ks.insert(int(rng.integers(0, len(ks) + 1)), int(rng.choice([n, n + 2, -n - 1, -n - 4])))
        return ["list", ks]
    if err == "mask":
        m = int(rng.choice([k for k in (1, n - 1, n + 1, 2 * n, n + 5) if k > 0 and k != n]))
        return ["mask", [bool(rng.random() < 0.5) for _ in range(m)]]
    if err == "step0":
        return ["slice", None if rng.random() < 0.5 else int(rng.integers(-n - 1, n + 2)),
                None if rng.random() < 0.5 else int(rng.integers(-n - 1, n + 2)), 0]
    k = rng.choice(["list", "slice", "mask"], p=[0.4, 0.4, 0.2])
    if k == "list":
        if n == 0:
            return ["list", []]
        m = int(rng.choice([0, 1, 2, 3, 4, n, n + 2], p=[0.06, 0.2, 0.2, 0.2, 0.14, 0.14, 0.06]))
        return ["list", [int(rng.integers(-n, n)) for _ in range(m)]]
    if k == "slice":
        def bound():
            r = rng.random()
            if r < 0.3:
                return None
            if r < 0.9:
                return int(rng.integers(-n - 3, n + 4))
            return int(rng.choice([-10 ** 6, 10 ** 6, -n, n, -n - 1, n - 1]))
        st = [None, None, 1, 2, 3, -1, -2, -3, 7, -7, n + 1, -(n + 1)][int(rng.integers(12))]
        return ["slice", bound(), bound(), st]
    if n == 0 or rng.random() < 0.2:
        return ["mask", []]          # the EMPTY boolean array: accepted on an axis of any length, selects nothing
    p = [0.5, 0.1, 0.9, 0.0, 1.0][int(rng.integers(5))]
    mask = [bool(rng.random() < p) for _ in range(n)]
    return ["mask", mask]


def gen_ops(rng, n, state, err=False):
    """1..3 motions; state["mean"]: a 'mean' reference was already used (afterwards the coordinates are no longer dyadic:
    only single-rounding operations follow, a second mean would sum rounded numbers in an order numpy does not promise)"""
    ops = []
    for _ in range(int(rng.integers(1, 4))):
        k = rng.choice(["rot", "tr", "toO", "ref", "reset"], p=[0.3, 0.25, 0.1, 0.25, 0.1])
        if k == "rot":
            ops.append(["R", [float(x) for x in CUBE[int(rng.integers(24))].ravel()],
                        None if rng.random() < 0.4 else dyv(rng)])
        elif k == "tr":
            ops.append(["T", dyv(rng)])
        elif k == "toO":
            ops.append(["O"])
        elif k == "reset":
            ops.append(["Z"])
        else:
            r = rng.choice(["first", "last", "mean", "idx", "negidx"])
            if n == 0 or (r == "mean" and state["mean"]):
                continue
            if r == "mean":
                state["mean"] = True
            ops.append(["S", int(rng.integers(0, n)) if r == "idx" else -int(rng.integers(1, n + 1)) if r == "negidx"
                        else str(r)])
    if err:
        ops.append(["S", int(rng.choice([n, n + 3, -n - 1, -n - 5]))])
    if not ops:
        ops.append(["T", dyv(rng)])
    return ops


# ---------------------------------------------------------------------------------------------------------------
# spelling of arguments for the real library (deterministic in the selector)
# ---------------------------------------------------------------------------------------------------------------
def sp_vec(v, sel):
    if all(float(x).is_integer() for x in v) and sel % 2:
        v = [int(x) for x in v]
    return [list(v), tuple(v), np.array(v)][(sel // 2) % 3]


def sp_vecs(vs, sel, g):
    a = np.array(vs, float).reshape(-1, 3)
    if len(vs) == 0:
        return [a, g.Points(a)][sel % 2]
    return [a, [list(v) for v in vs], g.Points(a), tuple(tuple(v) for v in vs)][sel % 4]


def sp_arg(a, sel, g, kind, arim):
    if a is None:
        return None
    if kind == "vec":
        return sp_vec(a[1], sel) if a[0] == "one" else sp_vecs(a[1], sel, g)
    if kind == "shape":
        conv = (lambda z: arim.ElementShape(z)) if sel % 2 else (lambda z: int(z))
        if a[0] == "one":
            return conv(a[1])
        l = [conv(z) for z in a[1]]
        return [l, tuple(l), np.array(l, dtype=object)][(sel // 2) % 3]
    if a[0] == "one":
        return [bool(a[1]), np.bool_(a[1]), int(a[1])][sel % 3]
    return [list(a[1]), np.array(a[1], dtype=bool), tuple(a[1]), [int(b) for b in a[1]]][sel % 4]


def sp_num(x, sel):
    """a number as float, or as int when integral"""
    if x is not None and float(x).is_integer() and abs(x) < 2 ** 40 and sel % 3 == 0:
        return int(x)
    return x


def make_cs(cs, g):
    return g.CoordinateSystem(np.array(cs[0], float), np.array(cs[1], float), np.array(cs[2], float))


def build_probe(c, arim, g):
    sel = c["sp"]
    kw = {}
    if c["dims"] is not None or sel % 5 == 0:
        kw["dimensions"] = sp_arg(c["dims"], sel >> 1, g, "vec", arim)
    if c["oris"] is not None or sel % 7 == 0:
        kw["orientations"] = sp_arg(c["oris"], sel >> 2, g, "vec", arim)
    if c["shapes"] is not None or sel % 3 == 0:
        kw["shapes"] = sp_arg(c["shapes"], sel >> 3, g, "shape", arim)
    if c["dead"] is not None or sel % 11 == 0:
        kw["dead_elements"] = sp_arg(c["dead"], sel >> 4, g, "dead", arim)
    if c["bw"] is not None or sel % 2 == 0:
        kw["bandwidth"] = sp_num(c["bw"], sel >> 5)
    if c["pcs"] is not None or sel % 13 == 0:
        kw["pcs"] = None if c["pcs"] is None else make_cs(c["pcs"], g)
    if c["meta"] is not None or sel % 17 == 0:
        kw["metadata"] = None if c["meta"] is None else {k: v for k, v in c["meta"]}
    freq = sp_num(c["freq"], sel >> 6)
    positional = (sel >> 7) % 4 == 0
    if positional:       # everything by position, in the order of Probe.__init__
        tail = [kw.get(k) for k in ("dimensions", "orientations", "shapes", "dead_elements", "bandwidth", "pcs", "metadata")]
        kw = {}
    else:
        tail = []
    if c["ctor"] == "init":
        return arim.Probe(sp_vecs(c["locs"], sel >> 8, g), freq, *tail, **kw)
    nx, ny = c["numx"], c["numy"]
    nx = [nx, float(nx), np.int64(nx), nx][(sel >> 9) % 4]
    ny = [ny, np.int32(ny), float(ny), ny][(sel >> 11) % 4]
    return arim.Probe.make_matrix_probe(nx, sp_num(c["px"], sel >> 13), ny, sp_num(c["py"], sel >> 14), freq, *tail, **kw)


def sp_idx(ix, sel):
    k = ix[0]
    if k == "int":
        return [int(ix[1]), np.int64(ix[1])][sel % 2]
    if k == "list":
        return [list(ix[1]), np.array(ix[1], dtype=np.int64), np.array(ix[1], dtype=np.int32), list(ix[1])][sel % 4]
    if k == "slice":
        return slice(ix[1], ix[2], ix[3]) if sel % 2 else np.s_[ix[1]:ix[2]:ix[3]]
    if sel % 2 or len(ix[1]) == 0:
        return np.array(ix[1], dtype=bool)
    return [bool(b) for b in ix[1]]


def apply_op(p, op, sel):
    k = op[0]
    if k == "R":
        R = np.array(op[1], float).reshape(3, 3)
        c = None if op[2] is None else sp_vec(op[2], sel)
        p.rotate(R, c) if c is not None or sel % 2 else p.rotate(R)
    elif k == "T":
        p.translate(sp_vec(op[1], sel))
    elif k == "O":
        p.translate_to_point_O()
    elif k == "Z":
        p.reset_position()
    elif k == "S":
        r = op[1]
        if r == "first" and sel % 3 == 0:
            p.set_reference_element()        # the default
        else:
            p.set_reference_element(r if isinstance(r, str) else [int(r), np.int64(r)][sel % 2])
    else:
        raise KeyError(k)


def apply_step(p, s, sel):
    """-> the probe object after the call"""
    if s[0] == "ops":
        for i, op in enumerate(s[1]):
            apply_op(p, op, sel + i)
        return p
    if s[0] == "sub":
        if s[2] is False and sel % 2:
            return p.subprobe(sp_idx(s[1], sel >> 1))          # save_metadata defaults to False
        return p.subprobe(sp_idx(s[1], sel >> 1), save_metadata=s[2]) if sel % 3 else p.subprobe(sp_idx(s[1], sel >> 1), s[2])
    ret = p.set_element_dimensions(sp_num(s[1], sel), sp_num(s[2], sel >> 1), sp_num(s[3], sel >> 2))
    assert ret is p
    return p


# ---------------------------------------------------------------------------------------------------------------
class Tie:
    def __init__(self, chk, arim, rng, quick):
        import arim.geometry as g
        import arim.io.native as native
        import arim.measurement as meas
        self.chk, self.arim, self.rng, self.quick = chk, arim, rng, quick
        self.g, self.native, self.meas = g, native, meas
        self.cases = []      # (kind, literal, replay dict, model expression)
        self.direct = 0      # comparisons decided on the Python side (error kinds)
        self.reported = {}   # violations per key: the first three are written out, the others only counted

    def add(self, kind, sub, lit, replay, model):
        self.chk.count(tie_C16=f"{kind}:{sub}")
        self.cases.append((kind, lit, replay, model))

    def bad(self, key, what, replay, kind):
        self.reported[key] = self.reported.get(key, 0) + 1
        self.chk.count(tie_C16_disagreement=key)
        if self.reported[key] > 3:
            return
        replay = dict(js(replay), correspondence=CORR[kind])
        self.chk.violation("tie:" + key, what, replay, failing_input_found=False)

    # -- slice_indices ---------------------------------------------------------------------------------------------
    def slice_case(self, n, s, e, st, sub):
        try:
            want = list(range(*slice(s, e, st).indices(n)))
            via_numpy = [int(x) for x in np.arange(n)[s:e:st]]
            assert via_numpy == want, (via_numpy, want)
        except ValueError:
            want = None
        lit = (f"TSlice {cZ(n)} {copt(s, cZ)} {copt(e, cZ)} {copt(st, cZ)} "
               f"{copt(want, lambda l: clist([cZ(x) for x in l]))}")
        self.add("slice", sub, lit, {"n": n, "start": s, "stop": e, "step": st, "python": want},
                 f"slice_indices {cZ(n)} {copt(s, cZ)} {copt(e, cZ)} {copt(st, cZ)}")

    # -- constructor + method calls on the whole object --------------------------------------------------------------
    def prog_case(self, c, steps, sub, expect_error=None):
        """c: constructor spec; steps: list of step specs, or a callable (probe, k) -> step | None that generates the next
        step from the real object.  expect_error: set of exception names allowed for the call that raises."""
        arim, g = self.arim, self.g
        done = []
        outcome = None
        err = None
        try:
            p = build_probe(c, arim, g)
        except ERRORS as e:
            outcome, err = ("raise", -1), e
            p = None
        k = 0
        while outcome is None:
            s = (steps[k] if k < len(steps) else None) if isinstance(steps, list) else steps(p, k)
            if s is None:
                break
            done.append(s)
            self.chk.count(tie_C16_call=s[0] + (":" + s[1][0] if s[0] == "sub" else ""))
            if s[0] == "sub" and s[1][0] == "mask" and len(s[1][1]) == 0:
                self.chk.count(tie_C16_call="sub:mask-empty on %s probe" % ("an empty" if p.numelements == 0 else "a non-empty"))
            try:
                p = apply_step(p, s, (c["sp"] >> 3) + 5 * k)
            except ERRORS as e:
                outcome, err = ("raise", k), e
            k += 1
        replay = {"constructor": c, "steps": done}
        if outcome is None:
            try:
                o = obs_probe(p)
            except (AssertionError, TypeError, ValueError) as e:
                self.bad("prog-unobservable", f"the probe object left by the calls has no counterpart in the model: {e}",
                         replay, "prog")
                self.direct += 1
                return
            want = f"(inl {cpx(o)})"
            replay["library"] = o
        else:
            want = f"(inr {cZ(outcome[1])})"
            replay["library"] = {"raises": type(err).__name__, "message": str(err)[:200], "at_call": outcome[1]}
            self.direct += 1
            if expect_error is None or type(err).__name__ not in expect_error:
                self.bad("prog-error-kind", f"unexpected exception {type(err).__name__} (expected "
                         f"{sorted(expect_error) if expect_error else 'no exception'}) at call {outcome[1]}", replay, "prog")
        lit = f"TProg {cctor(c)} {clist([cstep(s) for s in done])} {want}"
        self.add("prog", sub, lit, replay, f"run_prog {cctor(c)} {clist([cstep(s) for s in done])}")

    def random_prog(self, err=None):
        rng = self.rng
        ctor_err = err if err in ("dims", "oris", "shapes", "dead", "numx") else None
        c = gen_ctor(rng, ctor_err)
        if ctor_err:
            self.prog_case(c, [], "error:ctor:" + ctor_err,
                           expect_error={"ValueError"} if ctor_err == "numx" else {"AssertionError", "ValueError"})
            return
        nsteps = int(rng.integers(1, 5))
        err_at = int(rng.integers(0, nsteps)) if err else None
        state = {"mean": False}
        kinds = []

        def nxt(p, k):
            if k >= nsteps or (err_at is not None and k > err_at):
                return None
            n = p.numelements
            if err_at == k:
                if err == "setref":
                    kinds.append("ops")
                    return ["ops", gen_ops(rng, n, state, err=True)]
                if err == "mask" and n == 0:
                    return ["sub", ["mask", [True]], bool(rng.random() < 0.5)]
                return ["sub", gen_idx(rng, n, err), bool(rng.random() < 0.5)]
            kd = rng.choice(["sub", "ops", "dims"], p=[0.5, 0.3, 0.2])
            kinds.append(str(kd))
            if kd == "sub":
                return ["sub", gen_idx(rng, n), bool(rng.random() < 0.5)]
            if kd == "ops":
                return ["ops", gen_ops(rng, n, state)]
            return ["dims"] + [abs(dy(rng, 3, 4)) + 0.125 for _ in range(3)]

        expect = {None: None, "int": {"TypeError", "IndexError"}, "range": {"IndexError"}, "mask": {"IndexError"},
                  "step0": {"ValueError"}, "setref": {"IndexError"}}[err]
        self.prog_case(c, nxt, ("error:" + err) if err else "valid:" + c["ctor"], expect_error=expect)

    # -- CoordinateSystem ------------------------------------------------------------------------------------------------
    def gen_cs(self, orthogonal=True):
        rng = self.rng
        R = CUBE[int(rng.integers(24))]
        i, j = [float(x) for x in R[:, 0]], [float(x) for x in R[:, 1]]
        if not orthogonal:          # the constructor does not ask for orthogonal axes
            j = [i, [-x for x in i], AXES[int(rng.integers(6))]][int(rng.integers(3))]
        return [dyv(rng), i, j]

    def togcs_case(self, cs, pts, sub, single=False):
        g = self.g
        c = make_cs(cs, g)
        if single:
            out = np.asarray(c.convert_to_gcs(g.Points(np.array(pts[0], float))).coords, float).reshape(1, 3)
        else:
            out = np.asarray(c.convert_to_gcs(g.Points(np.array(pts, float).reshape(-1, 3))).coords, float)
        want = rows(out)
        self.add("togcs", sub, f"TToGcs {ccs(cs)} {cvl(pts)} {cvl(want)}", {"cs": cs, "points": pts, "library": want},
                 f"map (cs_to_gcs NumF {ccs(cs)}) {cvl(pts)}")

    def pair_case(self, cs, pts, origins, sub):
        g = self.g
        c = make_cs(cs, g)
        x, y, z = c.convert_from_gcs_pairwise(g.Points(np.array(pts, float).reshape(-1, 3)),
                                              g.Points(np.array(origins, float).reshape(-1, 3)))
        want = []
        for a in (x, y, z):
            a = np.asarray(a, float)
            assert a.shape == (len(pts), len(origins)), a.shape
            want.append([[float(v) for v in r] for r in a])
        cll = lambda m: clist([clist([cfloat(v) for v in r]) for r in m])
        self.add("pair", sub, f"TPair {ccs(cs)} {cvl(pts)} {cvl(origins)} {cll(want[0])} {cll(want[1])} {cll(want[2])}",
                 {"cs": cs, "points": pts, "origins": origins, "library": want},
                 f"cs_from_gcs_pairwise NumF {ccs(cs)} {cvl(pts)} {cvl(origins)}")

    def copy_case(self, cs, sub):
        """cs may hold non-unit axes: then the object is assembled past the validating setters (as the attributes of an
        existing object can be after in-place edits of the arrays) and copy() must refuse it"""
        g = self.g
        try:
            c = make_cs(cs, g)
        except ValueError:
            c = make_cs([cs[0], AXES[0], AXES[1]], g)
            c._i_hat = np.array(cs[1], float)
            c._j_hat = np.array(cs[2], float)
        try:
            d = c.copy()
            want = obs_cs(d)
        except ValueError:
            want = None
        self.add("copy", sub, f"TCopy {ccs(cs)} {copt(want, ccs)}", {"cs": cs, "library": want}, f"cs_copy NumF {ccs(cs)}")

    def close_case(self, a, b, atol, rtol, sub, other_is_gcs=False):
        g = self.g
        ca = make_cs(a, g)
        cb = g.GCS if other_is_gcs else make_cs(b, g)
        kw = {}
        if atol is not None:
            kw["atol"] = atol
        if rtol is not None:
            kw["rtol"] = rtol
        want = ca.isclose(cb, **kw)
        assert isinstance(want, (bool, np.bool_)), type(want)
        self.add("close", sub, f"TClose {ccs(a)} {ccs(b)} {copt(atol, cfloat)} {copt(rtol, cfloat)} {cbool(bool(want))}",
                 {"cs": a, "other": b, "atol": atol, "rtol": rtol, "library": bool(want)},
                 f"m_close {ccs(a)} {ccs(b)} {copt(atol, cfloat)} {copt(rtol, cfloat)}")

    def random_cs_cases(self):
        rng = self.rng
        r = rng.random()
        if r < 0.25:
            n = int(rng.choice([0, 1, 2, 3, 5, 8]))
            single = n == 1 and rng.random() < 0.5
            self.togcs_case(self.gen_cs(rng.random() < 0.8), [dyv(rng) for _ in range(n)],
                            "single point" if single else f"n={n}", single=single)
        elif r < 0.5:
            n, m = int(rng.integers(0, 6)), int(rng.integers(0, 5))
            self.pair_case(self.gen_cs(rng.random() < 0.8), [dyv(rng) for _ in range(n)], [dyv(rng) for _ in range(m)],
                           f"{n}x{m}" if n * m else "empty")
        elif r < 0.65:
            cs = self.gen_cs(rng.random() < 0.8)
            kind = rng.choice(["valid", "scaled", "threshold"], p=[0.4, 0.3, 0.3])
            if kind != "valid":
                which = 1 + int(rng.integers(2))
                if kind == "scaled":
                    f = float(rng.choice([0.0, 0.5, 2.0, 1.5, -2.0]))
                else:     # |norm - 1| against 1e-8 + 1e-5: 2^-17 = 7.6e-6 passes, 2^-16 = 1.5e-5 does not
                    f = 1.0 + float(rng.choice([-1, 1])) * 2.0 ** float(rng.choice([-16, -17, -18, -15, -30]))
                cs[which] = [x * f for x in cs[which]]
            self.copy_case(cs, str(kind))
        else:
            a = self.gen_cs()
            gcs = rng.random() < 0.35
            if gcs:
                a = [[0.0, 0.0, 0.0], AXES[0], AXES[1]] if rng.random() < 0.8 else a
            b = [list(v) for v in ([[0.0, 0.0, 0.0], AXES[0], AXES[1]] if gcs else a)]
            a = [list(v) for v in a]
            tgt = a if gcs else b
            for _ in range(int(rng.integers(0, 3))):
                which = int(rng.integers(3))
                d = float(rng.choice([-1, 1])) * float(rng.choice([2.0 ** -27, 2.0 ** -26, 2.0 ** -20, 2.0 ** -12, 2.0 ** -28,
                                                                   1.0 if which == 0 else 2.0 ** -11]))
                comp = int(rng.integers(3))
                if which and abs(tgt[which][comp]) > 0.5 and abs(d) > 2.0 ** -18:
                    comp = (comp + 1) % 3          # keep the axis unit within the setter's tolerance
                    if abs(tgt[which][comp]) > 0.5:
                        comp = (comp + 1) % 3
                tgt[which][comp] += d
            atol = [None, None, 0.0, 2.0 ** -27, 2.0 ** -26, 2.0 ** -20, 1e-8, 1e-3][int(rng.integers(8))]
            rtol = [None, None, 0.0, 2.0 ** -3, 2.0 ** -30, 1e-9][int(rng.integers(6))]
            self.close_case(a, b, atol, rtol, "vs GCS" if gcs else "vs perturbed copy", other_is_gcs=gcs)

    # -- io.native.probe_from_conf -----------------------------------------------------------------------------------------
    def loc_case(self, spec, sub):
        """spec: numx, px, numy, py, ori, loc = ordered list of [key, value] of conf['probe_location'], apply (bool), sp"""
        arim, rng = self.arim, self.rng
        sel = spec["sp"]
        probe_kw = [["numx", spec["numx"]], ["pitch_x", sp_num(spec["px"], sel)], ["numy", spec["numy"]],
                    ["pitch_y", sp_num(spec["py"], sel >> 1)], ["frequency", 1e6]]
        if spec["ori"] is not None:
            o = spec["ori"]
            probe_kw.append(["orientations", sp_vec(o[1], sel >> 2) if o[0] == "one" else sp_vecs(o[1], sel >> 2, self.g)])
        order = np.argsort([(sel * (k + 3) * 7919) % 101 for k in range(len(probe_kw))])
        conf_items = [["probe", {probe_kw[k][0]: probe_kw[k][1] for k in order}],
                      ["probe_location", {k: v for k, v in spec["loc"]}], ["frame", {"datafile": "x.mat"}]]
        conf = {k: v for k, v in (conf_items if sel % 2 else conf_items[::-1])}
        loc = dict(spec["loc"]) if spec["apply"] else {}
        err = None
        try:
            if spec["apply"] and sel % 3:
                p = self.native.probe_from_conf(conf)
            else:
                p = self.native.probe_from_conf(conf, spec["apply"]) if sel % 5 else \
                    self.native.probe_from_conf(conf, apply_probe_location=spec["apply"])
            o = obs_core(p)
        except ERRORS as e:
            err, o = e, None
        replay = {"conf": {"probe": dict(numx=spec["numx"], pitch_x=spec["px"], numy=spec["numy"], pitch_y=spec["py"],
                                         frequency=1e6, orientations=spec["ori"]),
                           "probe_location": spec["loc"]}, "apply_probe_location": spec["apply"],
                  "library": o if err is None else {"raises": type(err).__name__, "message": str(err)[:200]}}
        if err is not None:
            self.direct += 1
            if not (spec.get("expect_error") and type(err).__name__ == "IndexError"):
                self.bad("loc-error-kind", f"probe_from_conf raised {type(err).__name__}: {err}", replay, "loc")
        ang = loc.get("angle_deg")
        so = loc.get("standoff")
        ref = loc.get("ref_element")
        rad = 0.0 if ang is None else float(ang) * (math.pi / 180)
        c_, s_ = math.cos(rad), math.sin(rad)
        exact = ang is None or float(ang) == 0.0
        extent = max([1.0, abs(float(so or 0.0)), abs(spec["px"]) * spec["numx"], abs(spec["py"]) * spec["numy"]])
        tol = 0.0 if exact else extent * 2.0 ** -40
        head = (f"{cZ(spec['numx'])} {cfloat(spec['px'])} {cZ(spec['numy'])} {cfloat(spec['py'])} {cori(spec['ori'])} "
                f"{copt(ref, cref)} {copt(ang, cfloat)} {copt(so, cfloat)} {cfloat(rad)} {cfloat(c_)} {cfloat(s_)}")
        replay["model_inputs"] = {"rad": rad, "cos": c_, "sin": s_, "tolerance": tol}
        self.add("loc", sub, f"TLoc {head} {cfloat(tol)} {copt(o, ccore)}", replay, f"m_loc {head}")

    def random_loc(self, err=False, fixed_angle=None):
        rng = self.rng
        nx = int(rng.integers(1, 9))
        ny = 1 if rng.random() < 0.7 else int(rng.integers(2, 4))
        if rng.random() < 0.1:
            nx, ny = ny, nx
        n = nx * ny
        r = rng.random()
        ori = None if r < 0.3 else ["one", AXES[int(rng.integers(6))]] if r < 0.7 else \
            ["each", [AXES[int(rng.integers(6))] for _ in range(n)]]
        loc = []
        if err or rng.random() < 0.7:
            kinds = ["first", "last", "mean", "idx", "negidx"]
            rr = "bad" if err else str(rng.choice(kinds))
            loc.append(["ref_element", {"idx": int(rng.integers(0, n)), "negidx": -int(rng.integers(1, n + 1)),
                                        "bad": int(rng.choice([n, n + 2, -n - 1, -n - 3]))}.get(rr, rr)])
        exact = rng.random() < 0.5 if fixed_angle is None else False
        if rng.random() < 0.75 or fixed_angle is not None:
            if fixed_angle is not None:
                a = fixed_angle
            elif exact:
                a = [0.0, 0, -0.0][int(rng.integers(3))]
            elif rng.random() < 0.25:
                a = [90.0, -90.0, 180.0, 45, 30, 360.0, -180, 1e-3, 12.5][int(rng.integers(9))]
            else:
                a = float(rng.uniform(-180, 180))
            loc.append(["angle_deg", a])
        if rng.random() < 0.7:
            loc.append(["standoff", sp_num(dy(rng, 6, 2), int(rng.integers(3)))])
        rng.shuffle(loc)
        spec = {"numx": nx, "px": nz(lambda: dy(rng, 4, 4)), "numy": ny, "py": nz(lambda: dy(rng, 4, 4)), "ori": ori,
                "loc": [list(kv) for kv in loc], "apply": bool(rng.random() > 0.08) or err, "sp": int(rng.integers(0, 1 << 16))}
        if err:
            spec["expect_error"] = True
        keys = "+".join(sorted(k for k, _ in loc)) or "no key"
        turned = spec["apply"] and any(k == "angle_deg" and float(v) != 0 for k, v in loc)
        self.loc_case(spec, ("error:ref_element" if err else "not applied" if not spec["apply"] else keys) +
                      (" (tolerance)" if turned else " (exact)"))

    # -- measurement.move_probe_over_flat_surface -----------------------------------------------------------------------------
    def place_case(self, spec, sub):
        """spec: numx, px, ori, ops (motions before the call), slope, height, dead (indices), fmc (bool)"""
        arim, g = self.arim, self.g
        kw = {}
        if spec["ori"] is not None:
            kw["orientations"] = np.array(spec["ori"][1], float)
        p = arim.Probe.make_matrix_probe(spec["numx"], spec["px"], 1, 1.0, 1e6, **kw)
        for i, op in enumerate(spec["ops"]):
            apply_op(p, op, i)
        n = p.numelements
        for k in spec["dead"]:
            p.dead_elements[k] = True
        if spec["fmc"]:
            tx, rx = (a.ravel() for a in np.meshgrid(np.arange(n), np.arange(n), indexing="ij"))
        else:
            tx = rx = np.arange(n)
        frame = arim.Frame(np.zeros((len(tx), 4)), arim.Time(0.0, 1e-7, 4), tx, rx, p, None)
        x = np.asarray(p.locations_pcs.x, float)
        lin = spec["slope"] * (x[tx] + x[rx]) / 2
        dist = spec["height"] + lin - min(0.0, float(lin.min()))          # a plane below every element: distances > 0
        err = None
        theta = z_o = 0.0
        try:
            frame2, iso = self.meas.move_probe_over_flat_surface(frame, dist, full_output=True)
            assert frame2.probe is p
            theta, z_o = float(iso.theta), float(iso.z_o)
            o = obs_core(frame2.probe)
        except ERRORS as e:
            err, o = e, None
        replay = {"probe": {"numx": spec["numx"], "pitch_x": spec["px"], "orientations": spec["ori"]},
                  "motions_before": spec["ops"], "distances": dist, "tx": tx, "rx": rx, "dead": spec["dead"],
                  "library": o if err is None else {"raises": type(err).__name__, "message": str(err)[:200]},
                  "theta_z_o_read_from_library": [theta, z_o]}
        if err is not None:
            self.direct += 1
            if not (type(err) is ValueError and "PCS and the GCS" in str(err)):
                # any other refusal is outside place_over_surface (regression part, C19): the generator avoids them
                self.bad("place-error-kind", f"move_probe_over_flat_surface raised {type(err).__name__}: {err} "
                         "(only the PCS = GCS gate is expected to refuse these frames)", replay, "place")
                return
        c_, s_ = math.cos(theta), math.sin(theta)
        extent = max(1.0, abs(z_o), abs(spec["px"]) * spec["numx"])
        tol = 0.0 if theta == 0.0 else extent * 2.0 ** -40
        ori = None if spec["ori"] is None else ["one", spec["ori"][1]]
        head = (f"{cZ(spec['numx'])} {cfloat(spec['px'])} 1%Z {cfloat(1.0)} {cori(ori)} {clist([cop(op) for op in spec['ops']])} "
                f"{cfloat(theta)} {cfloat(z_o)} {cfloat(c_)} {cfloat(s_)}")
        replay["model_inputs"] = {"cos": c_, "sin": s_, "tolerance": tol}
        self.add("place", sub, f"TPlace {head} {cfloat(tol)} {copt(o, ccore)}", replay, f"m_place {head}")

    def random_place(self):
        rng = self.rng
        nx = int(rng.choice([2, 4, 6, 8, 16]))       # even: no element at x = 0 (the on-axis test of the function is relative)
        spec = {"numx": nx, "px": nz(lambda: dy(rng, 4, 2)), "ori": None if rng.random() < 0.4 else ["one", AXES[2]],
                "slope": float(rng.uniform(-0.5, 0.5)), "height": 0.0, "dead": [], "fmc": bool(rng.random() < 0.3)}
        spec["height"] = float(rng.uniform(0.5, 3.0))
        if nx >= 6 and rng.random() < 0.3:
            spec["dead"] = [int(rng.integers(0, nx))]
        kind = rng.choice(["gcs", "tiny", "far", "turned", "there and back"], p=[0.35, 0.25, 0.2, 0.1, 0.1])
        if kind == "gcs":
            ops = []
        elif kind == "tiny":      # atol = 1e-8 lies between 2^-27 and 2^-26
            d = float(rng.choice([-1, 1])) * float(rng.choice([2.0 ** -27, 2.0 ** -26, 2.0 ** -28, 2.0 ** -25]))
            v = [0.0, 0.0, 0.0]
            v[int(rng.choice([0, 0, 1, 2]))] = d
            ops = [["T", v]]
        elif kind == "far":
            v = [0.0, 0.0, 0.0]
            v[int(rng.integers(3))] = nz(lambda: dy(rng, 4, 4))
            ops = [["T", v]]
        elif kind == "turned":
            ops = [["R", [float(x) for x in CUBE[int(rng.integers(1, 24))].ravel()], None]]
        else:
            v = dyv(rng)
            ops = [["T", v], ["S", "first"], ["Z"]] if rng.random() < 0.5 else [["T", v], ["T", [-x for x in v]]]
        spec["ops"] = ops
        self.place_case(spec, str(kind))

    # -- fixed examples of the prover's note ---------------------------------------------------------------------------
    def fixed(self):
        px0 = {"ctor": "matrix", "numx": 3, "px": 1.0, "numy": 2, "py": -2.0, "freq": 1e6, "dims": ["one", [1.0, 2.0, 3.0]],
               "oris": ["one", [0.0, 0.0, 1.0]], "shapes": ["one", 1], "dead": ["each", [False, True, False, False, False, True]],
               "bw": None, "pcs": None, "meta": [["numx", None], ["probe_type", "x"]], "sp": 0}
        base = {"freq": None, "dims": None, "oris": None, "shapes": None, "dead": None, "bw": None, "pcs": None, "meta": None,
                "sp": 1}
        self.prog_case(px0, [], "note")
        self.prog_case(dict(base, ctor="matrix", numx=1, px=5.0, numy=1, py=7.0), [], "note")
        self.prog_case(dict(base, ctor="matrix", numx=1, px=5.0, numy=4, py=7.0, freq=2.0, bw=3.0), [], "note")
        for bad in (dict(dims=["each", [[1.0, 2.0, 3.0]] * 2]), dict(shapes=["each", [1, 2]]), dict(dead=["each", [True, False]]),
                    dict(oris=["each", [[0.0, 0.0, 1.0]] * 5])):
            self.prog_case(dict(base, ctor="matrix", numx=3, px=1.0, numy=2, py=1.0, **bad), [], "note",
                           expect_error={"AssertionError"})
        self.prog_case(dict(base, ctor="matrix", numx=0, px=1.0, numy=2, py=1.0), [], "note", expect_error={"ValueError"})
        for sp in range(4):
            self.prog_case(dict(px0, sp=sp), [["sub", ["list", [0, -1, 2, 2]], False]], "note")
            self.prog_case(dict(px0, sp=sp), [["sub", ["slice", 4, 0, -2], True]], "note")
            self.prog_case(dict(px0, sp=sp), [["sub", ["mask", [True, False, True, False, False, True]], False]], "note")
            self.prog_case(dict(px0, sp=sp), [["sub", ["slice", 5, 1, None], False]], "note")
        self.prog_case(px0, [["sub", ["int", 1], False]], "note", expect_error={"TypeError"})
        self.prog_case(px0, [["sub", ["list", [6]], False]], "note", expect_error={"IndexError"})
        self.prog_case(px0, [["sub", ["mask", [True, False]], False]], "note", expect_error={"IndexError"})
        for sp in range(4):      # the empty boolean array on a 6-element probe: the probe without elements
            self.prog_case(dict(px0, sp=sp), [["sub", ["mask", []], False]], "note:empty mask")
            self.prog_case(dict(px0, sp=sp), [["sub", ["mask", []], True], ["sub", ["mask", []], False]], "note:empty mask")
            self.prog_case(dict(px0, sp=sp), [["sub", ["mask", []], True], ["sub", ["mask", [True]], False]], "note:empty mask",
                           expect_error={"IndexError"})
        self.prog_case(px0, [["sub", ["slice", None, None, 0], False]], "note", expect_error={"ValueError"})
        self.prog_case(px0, [["sub", ["slice", 4, 0, -2], True], ["dims", 1.0, 2.0, 3.0]], "note")
        R = [float(x) for x in CUBE[7].ravel()]
        self.prog_case(px0, [["ops", [["R", R, [0.5, 0.25, -2.0]]]], ["sub", ["list", [0, -1, 2, 2]], True]], "note")
        self.prog_case(px0, [["sub", ["list", [0, -1, 2, 2]], True], ["ops", [["R", R, [0.5, 0.25, -2.0]]]]], "note")
        for s, e, st in ((None, None, 2), (4, 0, -2), (None, None, -1), (-100, 100, 4), (-2, None, None), (100, -100, -3),
                         (None, None, 0)):
            self.slice_case(6, s, e, st, "note")
        cs1 = [[1.0, 1.0, 1.0], [0.0, 1.0, 0.0], [0.0, 0.0, 1.0]]
        self.pair_case(cs1, [[1.0, 2.0, 3.0], [4.0, 5.0, 6.0]], [[1.0, 0.0, 0.0], [0.0, 1.0, 0.0], [0.0, 0.0, 1.0]], "note")
        self.togcs_case(cs1, [[1.0, 2.0, 3.0], [4.0, 5.0, 6.0]], "note")
        self.copy_case(cs1, "note")
        self.copy_case([[0.0, 0.0, 0.0], [2.0, 0.0, 0.0], [0.0, 1.0, 0.0]], "note")
        self.close_case(cs1, cs1, 1e-8, 0.0, "note")
        self.close_case(cs1, cs1, None, None, "note")
        lin = {"numx": 3, "px": 2.0, "numy": 1, "py": 7.0, "ori": ["one", [0.0, 0.0, 1.0]], "apply": True}
        self.loc_case(dict(lin, loc=[["ref_element", "last"], ["angle_deg", 0.0], ["standoff", 2.5]], sp=1), "note (exact)")
        self.loc_case(dict(lin, loc=[["ref_element", -3]], sp=2), "note (exact)")
        self.loc_case(dict(lin, loc=[["standoff", 2.5]], sp=3), "note (exact)")
        self.loc_case({"numx": 4, "px": 0.5, "numy": 1, "py": 1.0, "ori": None, "apply": True, "sp": 4,
                       "loc": [["standoff", -0.02], ["angle_deg", 30.0], ["ref_element", "first"]]}, "note")
        for ops, name in (([], "gcs"), ([["T", [1.0, 0.0, 0.0]]], "far"), ([["T", [2.0 ** -30, 0.0, 0.0]]], "tiny")):
            self.place_case({"numx": 4, "px": 2.0, "ori": None, "ops": ops, "slope": 0.0, "height": 1.5, "dead": [],
                             "fmc": False}, "note:" + name)

    # ---------------------------------------------------------------------------------------------------------------------
    def generate(self):
        rng = self.rng
        m = 1 if self.quick else 10
        self.fixed()
        for _ in range(120 * m):
            n = int(rng.integers(0, 13))

            def b():
                r = rng.random()
                return None if r < 0.25 else int(rng.integers(-n - 3, n + 4)) if r < 0.9 else int(rng.choice([-10 ** 9, 10 ** 9]))
            st = [None, 1, 2, 3, -1, -2, -3, 5, -5, 0, n, -n - 1][int(rng.integers(12))]
            self.slice_case(n, b(), b(), st, "step 0" if st == 0 else "negative step" if (st or 1) < 0 else "positive step")
        for _ in range(220 * m):
            self.random_prog()
        for err in ("dims", "oris", "shapes", "dead", "numx", "int", "range", "mask", "step0", "setref"):
            for _ in range(8 * m):
                self.random_prog(err)
        for _ in range(200 * m):
            self.random_cs_cases()
        for _ in range(130 * m):
            self.random_loc()
        for _ in range(12 * m):
            self.random_loc(err=True)
        for _ in range(60 * m):
            self.random_place()

    def evaluate(self):
        chk = self.chk
        lits = ["(" + c[1] + ")" for c in self.cases]
        bad = chk.coq_failing("tie_C16", PREAMBLE, "tcase", lits, "check_case", shard=150)
        shown = 0
        per_kind = {}
        for b in bad:
            per_kind[self.cases[b][0]] = per_kind.get(self.cases[b][0], 0) + 1
        for b in bad:
            kind, lit, replay, model = self.cases[b]
            chk.count(tie_C16_disagreement=kind)
            self.reported[kind] = self.reported.get(kind, 0) + 1
            if self.reported[kind] > 3:
                continue
            replay = dict(js(replay), correspondence=CORR[kind], disagreeing_cases_of_this_kind=per_kind[kind],
                          cases_of_this_kind=sum(1 for c in self.cases if c[0] == kind))
            if shown < 4:        # what the model answers (diagnostics; computed by Coq)
                shown += 1
                try:
                    out = chk.coq_values(f"tie_C16_diag_{shown}", PREAMBLE, [model])
                    replay["model_answer_vm_compute"] = out.strip()[-3000:]
                except Exception as e:  # noqa: BLE001
                    replay["model_answer_vm_compute"] = f"(not printed: {e})"[:300]
            replay["model_expression"] = model[:3000]
            chk.violation(f"tie:{kind}", f"the model ({CORR[kind].split(' vs ')[0]}) and the library disagree on a generated input",
                          replay, failing_input_found=False)
        return len(lits)


def run(chk, arim, rng, quick):
    t = Tie(chk, arim, rng, quick)
    t.generate()
    n = t.evaluate()
    return n + t.direct
