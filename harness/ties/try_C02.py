"""Development runner of the C02 tie alone (see /tmp/tie_brief.md):
  cd /verif && VERIF_ARIM_SRC=/repo/src PYTHONPATH=/verif/harness /venv/bin/python harness/ties/try_C02.py --tier quick --no-proofs
"""
import json
import time

from common import Check

chk = Check("C02", design_ref="DESIGN.md §5 C02")
arim = chk.import_arim()
import arim.im.das as das      # noqa: E402,F401
import arim.im.tfm as tfm      # noqa: E402,F401

from ties import tie_C02  # noqa: E402

t0 = time.time()
n = tie_C02.run(chk, arim, chk.rng, chk.tier == "quick")
print(f"# tie_C02: {n} comparisons in {time.time() - t0:.1f} s; {json.dumps(chk.cov.get('tie_C02'))}", flush=True)
for k, v in sorted(chk.hist.items()):
    if k.startswith("tie_C02"):
        print("#  ", k, json.dumps(dict(sorted(v.items())))[:9000])
chk.finish(evaluations=n, distinct_nontrivial=n, rule="tie only", samples=[])
