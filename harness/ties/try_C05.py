"""Development runner of the C05 tie alone (no proofs):
   cd /verif && VERIF_ARIM_SRC=/repo/src PYTHONPATH=/verif/harness /venv/bin/python harness/ties/try_C05.py --tier quick --no-proofs
"""
import os
import time

import numpy as np  # noqa: F401
from common import Check

chk = Check("C05", design_ref="DESIGN.md §5 C05")
os.environ.setdefault("NUMBA_NUM_THREADS", "2")
arim = chk.import_arim()
import arim.ray              # noqa: E402,F401
import arim.geometry as g    # noqa: E402,F401

from ties import tie_C05  # noqa: E402

t0 = time.time()
n = tie_C05.run(chk, arim, chk.rng, chk.tier == "quick")
print(f"# tie_C05: {n} comparisons in {time.time() - t0:.1f} s", flush=True)
for k, v in sorted(chk.hist.items()):
    if k.startswith("tie_C05"):
        print("#  ", k, dict(sorted(v.items())))
chk.finish(evaluations=n, distinct_nontrivial=n, rule="tie only", samples=[])
