"""Development runner of the C19 tie alone (see /tmp/tie_brief.md):
  cd /verif && VERIF_ARIM_SRC=/repo/src PYTHONPATH=/verif/harness /venv/bin/python harness/ties/try_C19.py --tier quick --no-proofs
"""
import json
import math
import time

import numpy as np

from common import Check, cZ, cbool, cfloat, clist, copt, cpair
import arimgen
from arimgen import fhex, unhex

chk = Check("C19", design_ref="DESIGN.md §5 C19")
arim = chk.import_arim()

from ties import tie_C19

t0 = time.time()
n = tie_C19.run(chk, arim, chk.rng, chk.tier == "quick")
print(f"# tie_C19: {n} comparisons in {time.time() - t0:.1f} s; distribution: "
      f"{json.dumps({k: v for k, v in chk.hist.items() if k.startswith('tie_C19')})[:6000]}", flush=True)
chk.finish(evaluations=n, distinct_nontrivial=n, rule="tie only", samples=[])
