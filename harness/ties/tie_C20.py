"""Tie of Model/ConfLoad.v (C20, extension) to the real arim.io.native / arim.io.brain / arim.core.Time.

On every run of the check, `run(chk, arim, rng, quick)`

 1. generates configurations (the fixed examples of notes/prover_C20_TIE.md first, then random ones: mostly valid, plus one
    stream per error branch of the model; key orders shuffled, None / absent entries, int / float / str / list / bool leaves);
 2. runs the REAL library on them (native.material_attenuation_from_conf, material_from_conf, examination_object_from_conf,
    block_in_immersion_from_conf, block_in_contact_from_conf, probe_from_conf, grid_from_conf, frame_from_conf on real MAT files,
    core.Time.from_vect, brain._load_probe / _load_frame / load_expdata) with RECORDING wrappers installed for the time of the
    tie around the constructors these functions call (core.Material.__init__, geometry.Grid.__init__,
    core.BlockInImmersion/BlockInContact.__init__, geometry.points_1d_wall_z, core.material_attenuation_factory,
    Probe.make_matrix_probe, ProbeRegistry.__getitem__, the four Probe motions, geometry.rotation_matrix_y, np.deg2rad as seen
    from native, brain.load_expdata, the pooch objects of datasets.DATASETS).  A wrapper first binds the arguments to the REAL
    signature (a TypeError there is the library's own), records the call (keyword arguments IN ORDER), then calls through;
    an exception raised by the body of a constructor after a successful binding is outside the model ("Beyond") - such cases
    are compared on the recorded call (or a prefix of the calls) or excluded and counted;
 3. lets coqc evaluate (vm_compute) the model functions of Model/ConfLoad.v on the same configurations and compare exactly:
    Ok / Err kind, the recorded keyword arguments and their order, the call order of the probe motions, the attributes of the
    real Material, the axes of the real Grid (dyadic spacings: exact), the time axis of the real Frame (exact rationals),
    the BRAIN probe and frame (exact rationals / integers).

Every disagreement is reported with chk.violation("tie:<key>", ..., failing_input_found=False).

Three classes of inputs that used to be excluded are generated and compared since the repair of Model/ConfLoad.v:
 * probe_key values that are not registered in arim._probes.probes (KeyError; unhashable keys: TypeError) - the registry is the
   parameter `registered` of the model, instantiated by py_registered (the keys of the real registry are checked against it);
 * time vectors with one sample ([t0] gives Time(t0, nan, 1) = the model's StepNaN t0) and with none (IndexError = TimeRejected);
 * BRAIN arrays in which corner vectors el_x1 .. el_z2 have length 1 while the centres have n elements (numpy broadcasts the
   squeezed scalar; the model's bcast), and empty arrays (n = 0: a probe without elements).

Inputs on which the model is NOT tied (it does not describe the library there; see the final report of the tie):
 * the `metadata` mapping of conf["probe"] is filled in place by Probe.make_matrix_probe (probe_type, numx, numy, pitch_x,
   pitch_y - pitch_x = nan when numx = 1): a side effect on the configuration that the model does not describe; the calls are
   recorded with the arguments as they were when the call was made, and every other entry of the configuration is checked to be
   left untouched by the *_from_conf functions.
"""
import copy
import fractions
import inspect
import os
import shutil

import numpy as np

from common import cZ, cQ, clist, cpair, cbool, copt, cstr

CORR = {
    "att": "material_attenuation_from_conf vs arim.io.native.material_attenuation_from_conf (call reaching core.material_attenuation_factory)",
    "mat": "py_material_from_conf (material_from_conf, att_arg, sig_check material_params) vs arim.io.native.material_from_conf "
           "(keyword arguments reaching core.Material, in order)",
    "matattr": "material_of_kwargs (py_material_from_conf ..) vs the attributes of the core.Material returned by native.material_from_conf",
    "exam": "py_examination_object_from_conf / block_in_immersion_from_conf / block_in_contact_from_conf (wall_from_conf, exam_dispatch) "
            "vs arim.io.native.examination_object_from_conf / block_in_immersion_from_conf / block_in_contact_from_conf",
    "probe": "py_probe_from_conf (probe_source, registry_lookup with py_registered, probe_location_ops) vs arim.io.native.probe_from_conf "
             "(source call, probe motions in order)",
    "probe-prefix": "py_probe_from_conf / probe_source vs arim.io.native.probe_from_conf (calls made before a constructor / motion raised)",
    "grid": "py_grid_from_conf vs arim.io.native.grid_from_conf (keyword arguments reaching geometry.Grid, in order)",
    "axes": "py_grid_axes_from_conf (unpack_pixel_size, grid_axes) vs arim.io.native.grid_from_conf + geometry.Grid.__init__ (xvect, yvect, zvect)",
    "frame": "py_frame_from_conf (frame_source, get_not_none, time_of_vect, shift_time, time_samples) vs arim.io.native.frame_from_conf",
    "time": "time_of_vect (time_init; TimeAxis / StepNaN / TimeRejected) vs arim.core.Time.from_vect",
    "bprobe": "load_probe (el_dims, bcast, el_dim) vs arim.io.brain._load_probe",
    "bframe": "load_frame (view_scipy / view_hdf5, load_timetraces, load_indices, time_of_vect) vs arim.io.brain._load_frame / load_expdata",
}

PRELUDE = r"""
From Coq Require Import List String Bool ZArith Arith QArith.
From Arim Require Import Base.ListX Model.Config Model.ConfLoad.
Import ListNotations.
Local Close Scope Q_scope.
Open Scope list_scope.
Open Scope string_scope.

Fixpoint py_eqb (a b : py) : bool :=
  match a, b with
  | PyNone, PyNone => true
  | PyBool x, PyBool y => Bool.eqb x y
  | PyInt x, PyInt y => Z.eqb x y
  | PyFloat x, PyFloat y => Z.eqb x y
  | PyStr x, PyStr y => String.eqb x y
  | PyList l1, PyList l2 =>
      (fix go (l1 l2 : list py) : bool :=
         match l1, l2 with
         | [], [] => true
         | x :: l1', y :: l2' => py_eqb x y && go l1' l2'
         | _, _ => false
         end) l1 l2
  | _, _ => false
  end.

(* ORDERED comparison of configurations (the order of the keyword arguments is compared) *)
Fixpoint cfg_oeqb (a b : cfg py) : bool :=
  match a, b with
  | Leaf x, Leaf y => py_eqb x y
  | Map m1, Map m2 =>
      (fix go (m1 m2 : list (string * cfg py)) : bool :=
         match m1, m2 with
         | [], [] => true
         | kv1 :: m1', kv2 :: m2' => String.eqb (fst kv1) (fst kv2) && cfg_oeqb (snd kv1) (snd kv2) && go m1' m2'
         | _, _ => false
         end) m1 m2
  | _, _ => false
  end.

Definition items_eqb {V} (e : V -> V -> bool) : items V -> items V -> bool := list_eqb (pair_eqb String.eqb e).

Definition err_code (e : err) : Z :=
  match e with EKey => 0 | EType => 1 | EAttr => 2 | EValue => 3 | ENotImplemented => 4 | ELoad => 5 end%Z.
(* what the library did: a value, or the code of the exception class (99 = a class the model does not have) *)
Inductive ores (A : Type) : Type := OOk (a : A) | OErr (c : Z).
Arguments OOk {A} _. Arguments OErr {A} _.
Definition res_match {A B} (e : A -> B -> bool) (m : res A) (o : ores B) : bool :=
  match m, o with
  | Ok a, OOk b => e a b
  | Err x, OErr c => Z.eqb (err_code x) c
  | _, _ => false
  end.

Definition att_eqb (a b : att_call py) : bool :=
  match a, b with
  | AttConstant x, AttConstant y => py_eqb x y
  | AttFactory k1, AttFactory k2 => items_eqb cfg_oeqb k1 k2
  | _, _ => false
  end.
Definition marg_eqb (a b : marg py) : bool :=
  match a, b with
  | MCfg x, MCfg y => cfg_oeqb x y
  | MAtt x, MAtt y => option_eqb att_eqb x y
  | _, _ => false
  end.
Definition kw_eqb : items (marg py) -> items (marg py) -> bool := items_eqb marg_eqb.
Definition wall_eqb (a b : wall_call py) : bool :=
  items_eqb cfg_oeqb (w_kwargs a) (w_kwargs b) && String.eqb (w_name a) (w_name b).
Definition exam_eqb (a b : exam_obj py) : bool :=
  match a, b with
  | BlockInImmersion b1 c1 f1 k1, BlockInImmersion b2 c2 f2 k2 =>
      kw_eqb b1 b2 && kw_eqb c1 c2 && wall_eqb f1 f2 && wall_eqb k1 k2
  | BlockInContact b1 f1 k1 u1, BlockInContact b2 f2 k2 u2 =>
      kw_eqb b1 b2 && option_eqb wall_eqb f1 f2 && option_eqb wall_eqb k1 k2 && option_eqb kw_eqb u1 u2
  | _, _ => false
  end.
Definition src_eqb (a b : probe_src py) : bool :=
  match a, b with
  | SrcLibrary x, SrcLibrary y => cfg_oeqb x y
  | SrcMatrix x, SrcMatrix y => items_eqb cfg_oeqb x y
  | _, _ => false
  end.
Definition op_eqb (a b : probe_op py) : bool :=
  match a, b with
  | OpSetRef x, OpSetRef y => cfg_oeqb x y
  | OpToO, OpToO => true
  | OpRotY x, OpRotY y => cfg_oeqb x y
  | OpTranslateZ x, OpTranslateZ y => cfg_oeqb x y
  | _, _ => false
  end.
Definition plan_eqb (a b : probe_plan py) : bool :=
  src_eqb (pp_src a) (pp_src b) && list_eqb op_eqb (pp_ops a) (pp_ops b).
Definition fsrc_eqb (a b : frame_src py) : bool :=
  match a, b with
  | FromFile x, FromFile y => cfg_oeqb x y
  | FromDataset n1 i1, FromDataset n2 i2 => cfg_oeqb n1 n2 && cfg_oeqb i1 i2
  | _, _ => false
  end.

(* numbers: PyFloat n is n/8, PyInt z is z *)
Definition num8 (c : cfg py) : option Z :=
  match c with Leaf (PyFloat n) => Some n | Leaf (PyInt z) => Some (8 * z)%Z | _ => None end.
Definition numQ (c : cfg py) : option Q :=
  match num8 c with Some n => Some (n # 8)%Q | None => None end.
Definition marg_num (o : option (marg py)) : option Z := match o with Some (MCfg c) => num8 c | _ => None end.
Definition marg_str (o : option (marg py)) : option string :=
  match o with Some (MCfg (Leaf (PyStr s))) => Some s | _ => None end.

(* attributes of the real Material: velocities and density in eighths, state_of_matter by name, the two attenuation calls,
   metadata *)
Definition mat_obs := (option Z * option Z * option Z * option string * option (att_call py) * option (att_call py) * cfg py)%type.
Definition check_matattr (c : cfg py) (o : mat_obs) : bool :=
  let '(lv, tv, de, som, la, ta, md) := o in
  match py_material_from_conf c with
  | Ok kw =>
      match material_of_kwargs py py_is_none kw with
      | mkMaterial mlv mtv mde msom mla mta mmd =>
          option_eqb Z.eqb (marg_num mlv) lv && option_eqb Z.eqb (marg_num mtv) tv && option_eqb Z.eqb (marg_num mde) de
          && option_eqb String.eqb (marg_str msom) som
          && option_eqb att_eqb mla la && option_eqb att_eqb mta ta
          && match mmd with MCfg x => cfg_oeqb x md | _ => false end
      end
  | Err _ => false
  end.

Definition exam_model (which : Z) (conf : items (cfg py)) : res (exam_obj py) :=
  if (which =? 1)%Z then block_in_immersion_from_conf py py_is_none py_is_float conf
  else if (which =? 2)%Z then block_in_contact_from_conf py py_is_none py_is_float conf
  else py_examination_object_from_conf conf.

Fixpoint prefix_ops (a b : list (probe_op py)) : bool :=   (* a is a prefix of b *)
  match a, b with
  | [], _ => true
  | x :: a', y :: b' => op_eqb x y && prefix_ops a' b'
  | _, _ => false
  end.

(* one axis of the real Grid: first and last point (eighths), distance of the first two points when there are two *)
Definition axobs := (Z * Z * option Z)%type.
Definition ax_ok (a : axis py) (o : axobs) : bool :=
  let '(lo, hi, sp) := a in
  let '(olo, ohi, osp) := o in
  option_eqb Z.eqb (num8 lo) (Some olo) && option_eqb Z.eqb (num8 hi) (Some ohi)
  && match osp with
     | None => true
     | Some s => match sp with PxLeaf v => option_eqb Z.eqb (num8 (Leaf v)) (Some s) | PxKey _ => false end
     end.
Definition axes_ok (a : axis py * axis py * axis py) (o : axobs * axobs * axobs) : bool :=
  let '(ax, ay, az) := a in let '(ox, oy, oz) := o in ax_ok ax ox && ax_ok ay oy && ax_ok az oz.

Definition tm_eqb (a : Q * Q * nat) (b : Q * Q * Z) : bool :=
  let '(s, d, n) := a in let '(s', d', n') := b in Qeq_bool s s' && Qeq_bool d d' && Z.eqb (Z.of_nat n) n'.
Definition q3_eqb (a b : Q * Q * Q) : bool :=
  let '(x, y, z) := a in let '(x', y', z') := b in Qeq_bool x x' && Qeq_bool y y' && Qeq_bool z z'.

(* the files this run wrote: name -> time vector stored in the file *)
Definition ftab : list (string * list Q) := __FTAB__.
Definition dtab : list (string * list Q) := __DTAB__.
Definition ftime (s : frame_src py) : option (list Q) :=
  match s with
  | FromFile (Leaf (PyStr f)) => lookup f ftab
  | FromDataset (Leaf (PyStr n)) (Leaf (PyStr i)) => if String.eqb n "examples" then lookup i dtab else None
  | _ => None
  end.
Definition ld (s : frame_src py) : res unit := match ftime s with Some _ => Ok tt | None => Err ELoad end.

(* source, time axis (start, step, len), samples, probe plan (None: the probe of the file is kept), examination object *)
Definition frame_obs := (frame_src py * (Q * Q * Z) * list Q * option (probe_plan py) * option (exam_obj py))%type.
Definition time_ok (t : Q * Q * nat) (tm : Q * Q * Z) (smp : list Q) : bool :=
  tm_eqb t tm && list_eqb Qeq_bool (time_samples t) smp.
Definition frame_ok (p : frame_plan py) (o : frame_obs) : bool :=
  let '(src, tm, smp, pr, ex) := o in
  fsrc_eqb (fp_src p) src && option_eqb plan_eqb (fp_probe p) pr && option_eqb exam_eqb (fp_exam p) ex
  && match ftime src with
     | None => false
     | Some tv =>
         match time_of_vect tv with
         | TimeRejected => false
         | StepNaN _ => false
         | TimeAxis t0 =>
             match fp_delay p with
             | None => time_ok t0 tm smp
             | Some d => match numQ d with
                         | None => false
                         | Some q => match shift_time t0 q with Some t1 => time_ok t1 tm smp | None => false end
                         end
             end
         end
     end.

Definition bprobe_obs := option (list (Q * Q * Q) * list (Q * Q * Q) * Q).
Definition bframe_obs := option (list (list Z) * (Q * Q * Z) * list Z * list Z).
Definition rows_of (T : arr2 Z) : list (list Z) :=
  map (fun i => map (fun j => aget Z 0%Z T i j) (seq 0 (a_cols T))) (seq 0 (a_rows T)).

(* what Time.from_vect did: a Time with a numeric step, a Time whose step is nan (start, len, samples), an exception *)
Inductive otime := OTAxis (tm : Q * Q * Z) | OTNaN (start : Q) (n : Z) (samples : list Q) | OTNone.

Inductive tcase :=
| CAtt (c : cfg py) (o : ores (att_call py))
| CMat (c : cfg py) (o : ores (items (marg py)))
| CMatAttr (c : cfg py) (o : mat_obs)
| CExam (which : Z) (conf : items (cfg py)) (o : ores (exam_obj py))
| CProbe (conf : items (cfg py)) (apply : bool) (o : ores (probe_plan py))
| CProbeSrcB (conf : items (cfg py)) (src : probe_src py)
| CProbeOpsB (conf : items (cfg py)) (src : probe_src py) (ops : list (probe_op py))
| CGrid (conf : items (cfg py)) (o : ores (items (cfg py)))
| CAxes (conf : items (cfg py)) (o : ores (axobs * axobs * axobs))
| CFrame (conf : items (cfg py)) (up ue : bool) (o : ores frame_obs)
| CTime (t : list Q) (o : otime)
| CBProbe (v : list (list Q)) (freq : Q) (o : bprobe_obs)
| CBFrame (view rows cols : Z) (forder : bool) (mem : list Z) (time : list Q) (tx rx : list Z) (o : bframe_obs).

Definition arr_of (view rows cols : Z) (forder : bool) (mem : list Z) : arr2 Z :=
  if (view =? 1)%Z then view_scipy Z (Z.to_nat rows) (Z.to_nat cols) mem          (* rows = N timetraces, cols = S samples *)
  else if (view =? 2)%Z then view_hdf5 Z (Z.to_nat rows) (Z.to_nat cols) mem
  else mkArr (Z.to_nat rows) (Z.to_nat cols) (if forder then FOrder else COrder) mem.

Definition check_case (c : tcase) : bool :=
  match c with
  | CAtt c o => res_match att_eqb (material_attenuation_from_conf py py_is_float c) o
  | CMat c o => res_match kw_eqb (py_material_from_conf c) o
  | CMatAttr c o => check_matattr c o
  | CExam w conf o => res_match exam_eqb (exam_model w conf) o
  | CProbe conf ap o => res_match plan_eqb (py_probe_from_conf conf ap) o
  | CProbeSrcB conf src => match probe_source py py_registered conf with Ok s => src_eqb s src | Err _ => false end
  | CProbeOpsB conf src ops =>
      match py_probe_from_conf conf true with
      | Ok p => src_eqb (pp_src p) src && prefix_ops ops (pp_ops p)
      | Err _ => false
      end
  | CGrid conf o => res_match (items_eqb cfg_oeqb) (py_grid_from_conf conf) o
  | CAxes conf o => res_match axes_ok (py_grid_axes_from_conf conf) o
  | CFrame conf up ue o => res_match frame_ok (py_frame_from_conf ld conf up ue) o
  | CTime t o =>
      match time_of_vect t, o with
      | TimeRejected, OTNone => true
      | TimeAxis a, OTAxis b => tm_eqb a b
      | StepNaN s, OTNaN s' n smp => Qeq_bool s s' && Z.eqb n 1 && list_eqb Qeq_bool [s] smp
      | _, _ => false
      end
  | CBProbe v f o =>
      match v with
      | [xc; yc; zc; x1; y1; z1; x2; y2; z2] =>
          match load_probe xc yc zc x1 y1 z1 x2 y2 z2 f, o with
          | None, None => true
          | Some p, Some (loc, dim, fr) =>
              list_eqb q3_eqb (bp_locations p) loc && list_eqb q3_eqb (bp_dimensions p) dim && Qeq_bool (bp_frequency p) fr
          | _, _ => false
          end
      | _ => false
      end
  | CBFrame view r c fo mem time tx rx o =>
      match load_frame Z (arr_of view r c fo mem) time tx rx, o with
      | None, None => true
      | Some fr, Some (rws, tm, otx, orx) =>
          list_eqb (list_eqb Z.eqb) (rows_of (bf_timetraces fr)) rws && tm_eqb (bf_time fr) tm
          && list_eqb Z.eqb (bf_tx fr) otx && list_eqb Z.eqb (bf_rx fr) orx
      | _, _ => false
      end
  end.
"""


# ---------------------------------------------------------------------------------------------------------------
# Python values -> Coq terms of type `py` / `cfg py`
# ---------------------------------------------------------------------------------------------------------------
ATT_KEYS = ("longitudinal_att", "transverse_att")
ERRCODE = {"KeyError": 0, "TypeError": 1, "AttributeError": 2, "ValueError": 3, "NotImplementedError": 4, "LoadFail": 5}
ERRNAME = {0: "EKey", 1: "EType", 2: "EAttr", 3: "EValue", 4: "ENotImplemented", 5: "ELoad", 99: "(other)"}


def _sentinel(what):
    return "(PyStr " + cstr("<" + "".join(ch if 32 <= ord(ch) < 127 and ch != '"' else "?" for ch in what)[:60] + ">") + ")"


def enc_py(v):
    if v is None:
        return "PyNone"
    if isinstance(v, (bool, np.bool_)):
        return f"(PyBool {cbool(bool(v))})"
    if isinstance(v, (int, np.integer)):
        return f"(PyInt {cZ(int(v))})"
    if isinstance(v, (float, np.floating)):
        f = float(v)
        if f != f or f in (float("inf"), float("-inf")) or (f * 8.0) != int(f * 8.0):
            return _sentinel(f"float {f!r}")
        return f"(PyFloat {cZ(int(f * 8.0))})"
    if isinstance(v, str):
        if not all(32 <= ord(ch) < 127 for ch in v):
            return _sentinel("non-ascii str")
        return f"(PyStr {cstr(v)})"
    if isinstance(v, list):
        return "(PyList " + clist([enc_py(x) for x in v]) + ")"
    return _sentinel(f"{type(v).__name__}")


def enc_cfg(c):
    if isinstance(c, dict):
        return "(Map " + enc_items(c) + ")"
    return f"(Leaf {enc_py(c)})"


def enc_items(d, conv=enc_cfg):
    return clist([cpair(cstr(str(k)), conv(v)) for k, v in d.items()])


def js(x):
    """JSON-able copy of an input / observation."""
    if isinstance(x, dict):
        return {str(k): js(v) for k, v in x.items()}
    if isinstance(x, (list, tuple)):
        return [js(v) for v in x]
    if isinstance(x, np.ndarray):
        return x.tolist()
    if isinstance(x, (np.integer,)):
        return int(x)
    if isinstance(x, (np.floating,)):
        return float(x)
    if isinstance(x, fractions.Fraction):
        return f"{x.numerator}/{x.denominator}"
    if x is None or isinstance(x, (bool, int, float, str)):
        return x
    return repr(x)[:120]


# ---------------------------------------------------------------------------------------------------------------
# recording wrappers around the constructors the *_from_conf functions call
# ---------------------------------------------------------------------------------------------------------------
def snap(x):
    """copy of the containers of a recorded argument (a callee may fill a dict it was given, e.g. Probe.metadata); every
    other object is kept by reference (functions, Materials, arrays are recognised by identity)"""
    if type(x) is dict:
        return {k: snap(v) for k, v in x.items()}
    if type(x) is list:
        return [snap(v) for v in x]
    if type(x) is tuple:                      # not the namedtuples (OrientedPoints)
        return tuple(snap(v) for v in x)
    return x


def without_probe_metadata(conf):
    """Probe.make_matrix_probe( **conf["probe"]) fills the `metadata` mapping of the configuration itself (probe_type, numx ...):
    a side effect of the library on its input that Model/ConfLoad.v does not describe; the other entries must stay untouched"""
    c = copy.deepcopy(conf)
    if isinstance(c, dict) and isinstance(c.get("probe"), dict) and isinstance(c["probe"].get("metadata"), dict):
        del c["probe"]["metadata"]
    return c


class Beyond(Exception):
    """a constructor / motion raised AFTER its arguments were bound: outside Model/ConfLoad.v"""

    def __init__(self, name, exc):
        super().__init__(f"{name}: {type(exc).__name__}: {exc}")
        self.name, self.exc = name, exc


class LoadFail(Exception):
    """fetch / brain.load_expdata raised (the model's ELoad)"""


class _NpProxy:
    """`np` as seen from arim.io.native: deg2rad records which object it converted"""

    def __init__(self, real, rec):
        self.__dict__["_real"], self.__dict__["_rec"] = real, rec

    def __getattr__(self, name):
        return getattr(self._real, name)

    def deg2rad(self, x, *a, **k):
        try:
            r = self._real.deg2rad(x, *a, **k)
        except Exception as e:  # noqa: BLE001
            raise Beyond("deg2rad", e) from e
        self._rec.deg[id(r)] = x
        self._rec.keep.append(r)
        return r


class _Pooch:
    """stands for the pooch object of datasets.DATASETS[name] (no download): serves the files this run wrote"""

    def __init__(self, name, rec):
        self.name, self.rec = name, rec

    def fetch(self, item, *a, **k):
        self.rec.events.append(("fetch", self.name, item))
        try:
            path = self.rec.dataset_files[item]
        except Exception as e:  # noqa: BLE001  (unknown item, unhashable item)
            raise LoadFail(f"fetch: {type(e).__name__}") from e
        self.rec.fetched = path
        return path


class Recorder:
    def __init__(self, arim):
        import arim.core as core
        import arim.geometry as geometry
        import arim.io.native as native
        import arim.io.brain as brain
        import arim.datasets as datasets
        import arim._probes as _probes
        self.core, self.geometry, self.native, self.brain, self.datasets, self._probes = core, geometry, native, brain, datasets, _probes
        self.undo = []
        self.dataset_files = {}
        self.reset()

    def reset(self):
        self.events = []      # calls in order
        self.keep = []        # keeps the recorded objects alive (ids stay unique within a case)
        self.mat, self.fac, self.wall, self.grid, self.exam = {}, {}, {}, {}, {}
        self.psrc, self.ops = {}, {}
        self.deg, self.rot = {}, {}
        self.depth = 0
        self.loaded = None
        self.fetched = None

    # -- installation ------------------------------------------------------------------------------------------
    def _set(self, obj, name, new):
        old = obj.__dict__[name] if isinstance(obj, type) else getattr(obj, name)
        self.undo.append((obj, name, old))
        setattr(obj, name, new)

    def restore(self):
        for obj, name, old in reversed(self.undo):
            setattr(obj, name, old)
        self.undo = []

    def _wrap_init(self, cls, table, label, passthrough=()):
        orig = cls.__dict__["__init__"]
        sig = inspect.signature(orig)
        rec = self

        def __init__(self_, *a, **k):
            sig.bind(self_, *a, **k)          # TypeError here = the TypeError of the call itself
            getattr(rec, table)[id(self_)] = (snap(a), snap(k))
            rec.keep.append(self_)
            rec.events.append((label, self_))
            try:
                orig(self_, *a, **k)
            except (Beyond, LoadFail):
                raise
            except passthrough:
                raise
            except Exception as e:  # noqa: BLE001
                raise Beyond(label, e) from e
        self._set(cls, "__init__", __init__)
        return sig

    def _wrap_func(self, mod, name, table):
        orig = getattr(mod, name)
        sig = inspect.signature(orig)
        rec = self

        def w(*a, **k):
            sig.bind(*a, **k)
            a0, k0 = snap(a), snap(k)
            rec.events.append((name, a0, k0))
            try:
                r = orig(*a, **k)
            except (Beyond, LoadFail):
                raise
            except Exception as e:  # noqa: BLE001
                raise Beyond(name, e) from e
            getattr(rec, table)[id(r)] = (a0, k0)
            rec.keep.append(r)
            return r
        self._set(mod, name, w)

    def _wrap_motion(self, name):
        orig = self.core.Probe.__dict__[name]
        sig = inspect.signature(orig)
        rec = self

        def w(self_, *a, **k):
            sig.bind(self_, *a, **k)
            top = rec.depth == 0
            if top:
                rec.ops.setdefault(id(self_), []).append((name, snap(a), snap(k)))
                rec.keep.append(self_)
            rec.depth += 1
            try:
                return orig(self_, *a, **k)
            except (Beyond, LoadFail):
                raise
            except Exception as e:  # noqa: BLE001
                if top:
                    raise Beyond(name, e) from e
                raise
            finally:
                rec.depth -= 1
        self._set(self.core.Probe, name, w)

    def install(self):
        core, geometry, native, brain = self.core, self.geometry, self.native, self.brain
        rec = self
        self._wrap_init(core.Material, "mat", "Material")
        self._wrap_init(geometry.Grid, "grid", "Grid", passthrough=(ValueError,))
        self.sig_imm = self._wrap_init(core.BlockInImmersion, "exam", "BlockInImmersion")
        self.sig_con = self._wrap_init(core.BlockInContact, "exam", "BlockInContact")
        self._wrap_func(geometry, "points_1d_wall_z", "wall")
        self._wrap_func(core, "material_attenuation_factory", "fac")
        self._wrap_func(geometry, "rotation_matrix_y", "rot")
        for nm in ("set_reference_element", "translate_to_point_O", "rotate", "translate"):
            self._wrap_motion(nm)
        # Probe.make_matrix_probe( **conf["probe"]): the keywords it does not name go to Probe.__init__
        orig_cm = core.Probe.__dict__["make_matrix_probe"]
        f = orig_cm.__func__
        sig_outer = inspect.signature(f)
        sig_inner = inspect.signature(core.Probe.__dict__["__init__"])

        def make_matrix_probe(cls, *a, **k):
            b = sig_outer.bind(cls, *a, **k)
            extra_a = b.arguments.get("args", ())
            extra_k = b.arguments.get("kwargs", {})
            sig_inner.bind(None, None, None, *extra_a, **extra_k)
            a0, k0 = snap(a), snap(k)
            rec.events.append(("make_matrix_probe", a0, k0))
            rec.depth += 1
            try:
                p = f(cls, *a, **k)
            except (Beyond, LoadFail):
                raise
            except Exception as e:  # noqa: BLE001
                raise Beyond("make_matrix_probe", e) from e
            finally:
                rec.depth -= 1
            rec.psrc[id(p)] = ("matrix", a0, k0)
            rec.keep.append(p)
            return p
        self._set(core.Probe, "make_matrix_probe", classmethod(make_matrix_probe))
        regcls = type(self._probes.probes)
        orig_gi = regcls.__dict__["__getitem__"]

        def __getitem__(self_, item):
            rec.events.append(("probes[]", item))
            rec.depth += 1
            try:
                p = orig_gi(self_, item)
            finally:
                rec.depth -= 1
            rec.psrc[id(p)] = ("library", item)
            rec.keep.append(p)
            return p
        self._set(regcls, "__getitem__", __getitem__)
        self._set(native, "np", _NpProxy(native.np, self))
        orig_load = brain.load_expdata

        def load_expdata(file, *a, **k):
            rec.events.append(("load_expdata", file))
            try:
                fr = orig_load(file, *a, **k)
            except Exception as e:  # noqa: BLE001
                raise LoadFail(f"load_expdata: {type(e).__name__}: {e}") from e
            rec.loaded = (fr, fr.probe, fr.examination_object, fr.time, file)
            return fr
        self._set(brain, "load_expdata", load_expdata)
        for name in list(self.datasets.DATASETS):
            old = self.datasets.DATASETS[name]
            self.datasets.DATASETS[name] = _Pooch(name, self)
            self.undo.append((_DictItem(self.datasets.DATASETS, name), "value", old))

    # -- observations -> Coq terms ------------------------------------------------------------------------------
    def enc_att(self, call):
        a, k = call
        if len(a) == 2 and a[0] == "constant" and not k:
            return f"(AttConstant {enc_py(a[1])})"
        if not a:
            return f"(AttFactory {enc_items(k)})"
        return "(AttFactory [(\"<positional arguments>\", Leaf " + _sentinel(repr(a)) + ")])"

    def enc_marg(self, key, v):
        if id(v) in self.fac:
            return f"(MAtt (Some {self.enc_att(self.fac[id(v)])}))"
        if key in ATT_KEYS and v is None:
            return "(MAtt None)"
        return f"(MCfg {enc_cfg(v)})"

    def enc_matkw(self, m):
        if id(m) not in self.mat:
            return "[(\"<untraced Material>\", MCfg (Leaf PyNone))]"
        a, k = self.mat[id(m)]
        if a:
            return "[(\"<positional arguments>\", MCfg (Leaf " + _sentinel(repr(a)) + "))]"
        return clist([cpair(cstr(str(key)), self.enc_marg(key, v)) for key, v in k.items()])

    def enc_wall(self, w):
        if id(w) not in self.wall:
            return "(mkWall [] \"<untraced wall>\")"
        a, k = self.wall[id(w)]
        if a or not isinstance(k.get("name"), str):
            return "(mkWall [] \"<positional arguments or no name>\")"
        kw = {key: v for key, v in k.items() if key != "name"}
        return f"(mkWall {enc_items(kw)} {cstr(k['name'])})"

    def enc_exam(self, obj):
        if id(obj) not in self.exam:
            return None
        a, k = self.exam[id(obj)]
        if isinstance(obj, self.core.BlockInImmersion):
            args = dict(self.sig_imm.bind(obj, *a, **k).arguments)
            args.pop("self", None)
            if sorted(args) != ["backwall", "block_material", "couplant_material", "frontwall"]:
                return None
            return (f"(BlockInImmersion {self.enc_matkw(args['block_material'])} {self.enc_matkw(args['couplant_material'])} "
                    f"{self.enc_wall(args['frontwall'])} {self.enc_wall(args['backwall'])})")
        if isinstance(obj, self.core.BlockInContact):
            args = dict(self.sig_con.bind(obj, *a, **k).arguments)
            args.pop("self", None)
            if not set(args) <= {"block_material", "frontwall", "backwall", "under_material"} or "block_material" not in args:
                return None
            return (f"(BlockInContact {self.enc_matkw(args['block_material'])} {copt(args.get('frontwall'), self.enc_wall)} "
                    f"{copt(args.get('backwall'), self.enc_wall)} {copt(args.get('under_material'), self.enc_matkw)})")
        return None

    def enc_src(self, s):
        if s[0] == "library":
            return f"(SrcLibrary {enc_cfg(s[1])})"
        if s[1]:
            return "(SrcMatrix [(\"<positional arguments>\", Leaf " + _sentinel(repr(s[1])) + ")])"
        return f"(SrcMatrix {enc_items(s[2])})"

    def enc_op(self, op):
        name, a, k = op
        if k:
            return "(OpSetRef (Leaf " + _sentinel(f"{name} with keywords") + "))"
        if name == "set_reference_element" and len(a) == 1:
            return f"(OpSetRef {enc_cfg(a[0])})"
        if name == "translate_to_point_O" and not a:
            return "OpToO"
        if name == "rotate" and len(a) == 1:
            r = self.rot.get(id(a[0]))
            if r is not None and len(r[0]) == 1 and not r[1] and id(r[0][0]) in self.deg:
                return f"(OpRotY {enc_cfg(self.deg[id(r[0][0])])})"
            return "(OpRotY (Leaf " + _sentinel("rotation not made by rotation_matrix_y(deg2rad(.))") + "))"
        if name == "translate" and len(a) == 1:
            v = a[0]
            if isinstance(v, list) and len(v) == 3 and type(v[0]) is int and type(v[1]) is int and v[0] == 0 and v[1] == 0:
                return f"(OpTranslateZ {enc_cfg(v[2])})"
            return "(OpTranslateZ (Leaf " + _sentinel(f"translate({v!r})") + "))"
        return "(OpSetRef (Leaf " + _sentinel(f"{name}{a!r}") + "))"

    def enc_plan(self, p):
        if id(p) not in self.psrc:
            return None
        return f"(mkPlan {self.enc_src(self.psrc[id(p)])} {clist([self.enc_op(o) for o in self.ops.get(id(p), [])])})"


class _DictItem:
    """undo record of a replaced dictionary entry (restored by setattr(obj, 'value', old))"""

    def __init__(self, d, k):
        self.__dict__["d"], self.__dict__["k"] = d, k

    def __setattr__(self, name, old):
        self.d[self.k] = old


def attempt(f, *a, **k):
    """('ok', value) | ('err', code, text) | ('beyond', Beyond)"""
    try:
        return ("ok", f(*a, **k))
    except Beyond as e:
        return ("beyond", e)
    except Exception as e:  # noqa: BLE001
        return ("err", ERRCODE.get(type(e).__name__, 99), f"{type(e).__name__}: {e}"[:200])


# ---------------------------------------------------------------------------------------------------------------
# generators (every float is a multiple of 1/8)
# ---------------------------------------------------------------------------------------------------------------
def f8(rng, lo, hi):
    return float(rng.integers(int(lo * 8), int(hi * 8) + 1)) / 8.0


def num(rng, lo, hi):
    """a float or (sometimes) an int"""
    if rng.random() < 0.25:
        return int(rng.integers(int(lo), int(hi) + 1))
    return f8(rng, lo, hi)


def shuffled(rng, pairs):
    pairs = list(pairs)
    order = rng.permutation(len(pairs))
    return {pairs[i][0]: pairs[i][1] for i in order}


def pick(rng, xs):
    return xs[int(rng.integers(len(xs)))]


ABSENT = object()
BAD_LEAVES = [5, "abc", None, [1], 2.5, True, []]
# values of conf["probe_key"] that are not keys of arim._probes.probes: KeyError; the unhashable ones: TypeError
UNREGISTERED_KEYS = ["zzz", "", "IMA_50_MHZ_128_1D", "ima_50_MHz_128_1d ", "ima_50_MHz_128", "ima_50_MHz_128_1d.", 5, 0, None, 2.5, True,
                     ["ima_50_MHz_128_1d"], [], {"a": 1}, {}, {"ima_50_MHz_128_1d": 1}]
# the keys Model/ConfLoad.py_probe_keys lists (py_registered)
MODEL_PROBE_KEYS = ["ima_50_MHz_128_1d", "ima_50_MHz_64_1d", "ima_25_MHz_64_1d", "sonaxis_150_MHz_110_1d", "ima_100_MHz_128_1d"]


def gen_att(rng):
    r = rng.random()
    if r < 0.30:
        return ABSENT
    if r < 0.45:
        return None
    if r < 0.70:
        return f8(rng, 0, 40)
    if r < 0.85:
        return shuffled(rng, [("kind", "constant"), ("value", f8(rng, 0, 40))])
    return shuffled(rng, [("kind", "polynomial"), ("coeffs", [f8(rng, 0, 4) for _ in range(int(rng.integers(1, 4)))])])


def gen_material(rng, fault=None):
    if fault == "leaf":
        return copy.deepcopy(pick(rng, BAD_LEAVES))
    e = [("longitudinal_vel", num(rng, 1, 8000))]
    if rng.random() < 0.5:
        e.append(("transverse_vel", None if rng.random() < 0.2 else num(rng, 1, 4000)))
    if rng.random() < 0.4:
        e.append(("density", None if rng.random() < 0.2 else num(rng, 1, 9000)))
    if rng.random() < 0.4:
        e.append(("state_of_matter", pick(rng, ["solid", "liquid", None])))
    if rng.random() < 0.4:
        e.append(("metadata", pick(rng, [None, {}, {"long_name": "Alu"}, {"long_name": "W", "n": 3}])))
    for k in ATT_KEYS:
        a = gen_att(rng)
        if a is not ABSENT:
            e.append((k, a))
    if fault == "unknown":
        e.append((pick(rng, ["zzz", "name", "velocity", "longitudinal_velocity", "transverse_attenuation", "kind"]), num(rng, 0, 9)))
    if fault == "missing":
        e = [x for x in e if x[0] != "longitudinal_vel"]
    if fault == "att":
        k = pick(rng, ATT_KEYS)
        e = [x for x in e if x[0] != k]
        e.append((k, copy.deepcopy(pick(rng, [3, True, "3.0", [1.0], {"value": 3.0}, {}, {"coeffs": [1.0]}, False, 0]))))
    if fault == "att-unknown-kind":      # the factory raises after binding: outside the model
        k = pick(rng, ATT_KEYS)
        e = [x for x in e if x[0] != k]
        e.append((k, {"kind": "zzz", "value": 1.0}))
    return shuffled(rng, e)


def gen_wall(rng, fault=None):
    if fault == "leaf":
        return copy.deepcopy(pick(rng, [5, "abc", [1], 2.5, True, "name", []]))
    x0 = f8(rng, -40, 40)
    e = [("xmin", x0), ("xmax", x0 + f8(rng, 0, 40)), ("z", num(rng, -40, 40)), ("numpoints", int(rng.integers(1, 6)))]
    if rng.random() < 0.4:
        e.append(("y", num(rng, -8, 8)))
    if rng.random() < 0.15:
        e.append(("dtype", None))
    if fault == "name":
        e.append(("name", pick(rng, ["x", "Frontwall", None])))
    if fault == "missing":
        e.pop(int(rng.integers(4)))
    if fault == "unknown":
        e.append((pick(rng, ["zmin", "ymin", "points", "n"]), 1.0))
    return shuffled(rng, e)


def gen_probe_kw(rng, fault=None):
    if fault == "leaf":
        return copy.deepcopy(pick(rng, BAD_LEAVES))
    e = [("frequency", float(rng.integers(1, 11)) * 1e6), ("numx", int(rng.integers(1, 5))), ("pitch_x", f8(rng, 0.125, 4)),
         ("numy", int(rng.integers(1, 4))), ("pitch_y", f8(rng, 0.125, 4))]
    if rng.random() < 0.3:
        e.append(("bandwidth", f8(rng, 1, 100)))
    if rng.random() < 0.3:
        e.append(("metadata", pick(rng, [None, {"long_name": "p"}, {}])))
    if rng.random() < 0.15:
        e.append((pick(rng, ["dimensions", "orientations", "shapes", "dead_elements", "pcs"]), None))
    if fault == "missing":
        e.pop(int(rng.integers(5)))
    if fault == "unknown":
        e.append((pick(rng, ["numz", "pitch", "locations_x", "name", "freq"]), 1))
    if fault == "beyond":
        e = [x for x in e if x[0] != "numx"] + [("numx", 0)]
    return shuffled(rng, e)


def gen_location(rng, nel=None, fault=None):
    if fault == "leaf":
        return copy.deepcopy(pick(rng, ["abc", "xx standoff", "ref_element", "angle_deg!", ["standoff"], ["x"], [], 5, None, True, 2.5,
                                        ["angle_deg", "x"], "", [["standoff"]], ["ref_element", 3]]))
    e = []
    if rng.random() < 0.6:
        r = rng.random()
        if fault == "beyond-ref":
            ref = pick(rng, [999, "foo", None, 1.5])
        elif r < 0.5 and nel:
            ref = int(rng.integers(-nel, nel))
        else:
            ref = pick(rng, ["first", "last", "mean", 0, -1])
        e.append(("ref_element", ref))
    if rng.random() < 0.6:
        e.append(("angle_deg", "x" if fault == "beyond-angle" else None if fault == "beyond-angle-none" else num(rng, -90, 90)))
    if rng.random() < 0.6:
        e.append(("standoff", None if fault == "beyond-standoff" else num(rng, -64, 64)))
    if rng.random() < 0.2:
        e.append((pick(rng, ["comment", "standoff_mm", "angle"]), 1))
    return shuffled(rng, e)


def gen_exam_entries(rng, pattern, fault=None):
    """entries (key, value) of a root conf for the examination object"""
    e = []
    mf = fault if fault in ("leaf", "unknown", "missing", "att") else None
    target = None
    if pattern == "immersion":
        names = ["couplant_material", "block_material", "frontwall", "backwall"]
        if fault in ("wall-leaf", "wall-name", "wall-missing", "wall-unknown", "wall-none"):
            target = pick(rng, ["frontwall", "backwall"])
        elif mf:
            target = pick(rng, ["couplant_material", "block_material"])
        for n in names:
            if "material" in n:
                e.append((n, gen_material(rng, mf if n == target else None)))
            elif n == target:
                e.append((n, None if fault == "wall-none" else gen_wall(rng, fault[5:])))
            else:
                e.append((n, gen_wall(rng)))
        if rng.random() < 0.2:
            e.append(("under_material", gen_material(rng)))
    elif pattern == "contact":
        opts = ["frontwall", "backwall", "under_material"]
        if fault and fault.startswith("wall-"):
            target = pick(rng, ["frontwall", "backwall"])
        elif mf:
            target = pick(rng, ["block_material", "under_material"])
        e.append(("block_material", gen_material(rng, mf if target == "block_material" else None)))
        for n in opts:
            r = rng.random()
            if n == target:
                if n == "under_material":
                    e.append((n, gen_material(rng, mf)))
                else:
                    e.append((n, None if fault == "wall-none" else gen_wall(rng, fault[5:])))
            elif r < 0.35:
                continue
            elif r < 0.55:
                e.append((n, None))
            elif n == "under_material":
                e.append((n, gen_material(rng)))
            else:
                e.append((n, gen_wall(rng)))
        if rng.random() < 0.15:       # three of the four immersion keys
            e.append(("couplant_material", gen_material(rng)))
            e = [x for x in e if x[0] != pick(rng, ["frontwall", "backwall"])]
    else:                               # no block_material
        for n in ("frontwall", "backwall"):
            if rng.random() < 0.5:
                e.append((n, gen_wall(rng)))
        if rng.random() < 0.5:
            e.append(("couplant_material", gen_material(rng)))
    return e


def gen_grid(rng, mode):
    """-> (grid conf value, numerically valid?)  mode: scalar | list3 | badlen | str3 | strn | map3 | mapn | none | fault-*"""
    spac = [0.125, 0.25, 0.5, 1.0, 1.5, 2.0, 3.0]
    degenerate = mode in ("str3", "map3", "none")
    d = [pick(rng, spac) for _ in range(3)]
    if mode in ("scalar", "badlen", "strn", "mapn") or mode.startswith("fault"):
        d = [d[0]] * 3
    k = [0 if degenerate else int(rng.integers(0 if rng.random() < 0.2 else 1, 5)) for _ in range(3)]
    lo = [f8(rng, -8, 8) for _ in range(3)]
    ymode = pick(rng, ["both", "none", "ymax", "ymin"])
    if ymode == "none":
        lo[1], k[1] = 0.0, 0
    elif ymode == "ymax":
        lo[1] = 0.0
    elif ymode == "ymin":
        lo[1] = -k[1] * d[1]
    hi = [lo[i] + k[i] * d[i] for i in range(3)]
    asint = rng.random() < 0.15

    def n_(x):
        return int(x) if asint and float(x) == int(x) else x
    e = [("xmin", n_(lo[0])), ("xmax", n_(hi[0])), ("zmin", n_(lo[2])), ("zmax", n_(hi[2]))]
    if ymode in ("both", "ymin"):
        e.append(("ymin", n_(lo[1])))
    if ymode in ("both", "ymax"):
        e.append(("ymax", n_(hi[1])))
    ps = {"scalar": d[0], "list3": d, "badlen": [d[0]] * pick(rng, [0, 1, 2, 4, 5]), "str3": pick(rng, ["abc", "xyz", "1.0"]),
          "strn": pick(rng, ["", "ab", "abcd", "0.25"]), "map3": {"a": 1, "b": 2, "c": 3},
          "mapn": pick(rng, [{}, {"a": 1, "b": 2}, {"a": 1, "b": 2, "c": 3, "d": 4}]), "none": None}.get(mode, d[0])
    if mode == "scalar" and asint and float(ps) == int(ps):
        ps = int(ps)
    e.append(("pixel_size", copy.deepcopy(ps)))
    if mode == "fault-missing":
        req = [i for i, x in enumerate(e) if x[0] in ("xmin", "xmax", "zmin", "zmax", "pixel_size")]
        e.pop(pick(rng, req))
    if mode == "fault-unknown":
        e.append((pick(rng, ["foo", "dx", "pixel_size_x", "name"]), 1))
    return shuffled(rng, e)


def time_vector(rng, kind):
    """dyadic time vectors whose mean step is dyadic (so that np.mean is exact)"""
    n = int(rng.integers(2, 8))
    t0 = f8(rng, -16, 64)
    step = float(rng.integers(1, 64)) / 16.0
    if kind == "one":                  # Time(t0, nan, 1)
        return [t0]
    if kind == "empty":                # IndexError
        return []
    if kind == "linear":
        t = [t0 + i * step for i in range(n)]
    elif kind == "constant":
        t = [t0] * n
    elif kind == "decreasing":
        t = [t0 - i * step for i in range(n)]
    elif kind == "jitter-ok":          # inner points moved by < 1 % of the step; the end points (hence the mean) unchanged
        step = float(rng.integers(4, 64)) * 16.0
        t = [t0 + i * step for i in range(n)]
        for i in range(1, n - 1, 2):
            t[i] += float(rng.integers(-2, 3)) * step / 512.0
    elif kind == "boundary":           # a step exactly 1 % away from the mean (25 * 2^k: avg/100 is dyadic)
        n = max(n, 3)
        step = 25.0 * 2.0 ** int(rng.integers(0, 4))
        t = [t0 + i * step for i in range(n)]
        t[1] += pick(rng, [1.0, -1.0]) * step / 100.0 * pick(rng, [1.0, 1.0, 2.0, 0.5])
    else:                              # nonlinear
        n = max(n, 3)
        t = [t0 + i * step for i in range(n)]
        j = int(rng.integers(1, n))
        for i in range(j, n):
            t[i] += step * pick(rng, [0.5, 0.25, 1.0, -0.5])
        if n >= 3 and rng.random() < 0.3:
            t[n // 2] += step / 8.0
    return t


# ---------------------------------------------------------------------------------------------------------------
def e8(x):
    """a library number in eighths (exact) or a value that matches nothing"""
    try:
        f = float(x)
    except Exception:  # noqa: BLE001
        return 999999937
    return int(f * 8.0) if f == f and abs(f) < 1e15 and f * 8.0 == int(f * 8.0) else 999999937


def qlist(xs):
    return "[" + "; ".join(cQ(float(x)) for x in xs) + "]"


def q3list(rows):
    return clist([cpair(*[cQ(float(v)) for v in r]) for r in rows])


def zlist(xs):
    return clist([cZ(int(x)) for x in xs])


class Tie:
    def __init__(self, chk, arim, rng, quick):
        self.chk, self.arim, self.rng, self.quick = chk, arim, rng, quick
        self.R = Recorder(arim)
        self.native, self.core, self.brain = self.R.native, self.R.core, self.R.brain
        self.cases = []       # (kind, literal, replay, model expression)
        self.direct = 0
        self.reported = {}
        self.ftab, self.dtab = {}, {}
        self.dir = os.path.join(chk.work, "tie_C20")
        shutil.rmtree(self.dir, ignore_errors=True)
        os.makedirs(self.dir, exist_ok=True)
        self.keys = list(self.R._probes.probes.keys())

    # -- bookkeeping ---------------------------------------------------------------------------------------------
    def add(self, kind, sub, lit, replay, model):
        self.chk.count(tie_C20=f"{kind}:{sub}")
        import re
        m = re.search(r"\(OErr (\d+)", lit)
        outcome = (("raised " + ERRNAME.get(int(m.group(1)), "?")) if m else "rejected" if lit.endswith((" None", " OTNone"))
                   else "accepted with step nan" if "(OTNaN " in lit else "accepted")
        self.chk.count(tie_C20_library_outcome=f"{kind}:{outcome}")
        self.cases.append((kind, lit, replay, model))

    def skip(self, kind, sub, why):
        self.chk.count(tie_C20_outside_model=f"{kind}:{sub}:{why}")

    def bad(self, key, what, replay, kind):
        """a disagreement decided on the Python side (the library's answer cannot even be expressed in the model's terms)"""
        self.direct += 1
        self.reported[key] = self.reported.get(key, 0) + 1
        self.chk.count(tie_C20_disagreement=key)
        if self.reported[key] > 3:
            return
        self.chk.violation("tie:" + key, what, dict(js(replay), correspondence=CORR[kind]), failing_input_found=False)

    def unchanged(self, kind, conf, c0, fn):
        self.direct += 1
        if kind in ("probe", "frame"):
            conf, c0 = without_probe_metadata(conf), without_probe_metadata(c0)
        if conf != c0:
            self.bad(f"{kind}-input-mutated", f"{fn} modified the configuration it was given (the model reads it only)",
                     {"input": c0, "after": conf, "fn": fn}, kind)

    @staticmethod
    def ores(out, ok_lit):
        return f"(OOk {ok_lit})" if out[0] == "ok" else f"(OErr {cZ(out[1])})"

    @staticmethod
    def lib_answer(out, shown=None):
        if out[0] == "ok":
            return {"outcome": "returned", "observed": shown}
        if out[0] == "err":
            return {"outcome": "raised", "kind": ERRNAME.get(out[1], "?"), "exception": out[2]}
        return {"outcome": "raised after binding (outside the model)", "exception": str(out[1])[:200], "observed": shown}

    # -- material attenuation ----------------------------------------------------------------------------------------
    def att_case(self, c, sub):
        R = self.R
        R.reset()
        c0 = copy.deepcopy(c)
        out = attempt(self.native.material_attenuation_from_conf, c)
        calls = [e for e in R.events if e[0] == "material_attenuation_factory"]
        if out[0] == "err":
            lit = f"(OErr {cZ(out[1])})"
        elif calls:                       # the call that was made (whatever the factory then did with it)
            lit = f"(OOk {R.enc_att((calls[-1][1], calls[-1][2]))})"
        else:
            return self.bad("att-untraced", "material_attenuation_from_conf returned without calling core.material_attenuation_factory",
                            {"input": c0, "fn": "material_attenuation_from_conf"}, "att")
        self.add("att", sub, f"CAtt {enc_cfg(c0)} {lit}",
                 {"fn": "native.material_attenuation_from_conf", "input": c0, "library_answer": self.lib_answer(out, lit)},
                 f"material_attenuation_from_conf py py_is_float {enc_cfg(c0)}")

    # -- material ----------------------------------------------------------------------------------------------------
    def mat_case(self, conf, sub):
        R = self.R
        R.reset()
        c0 = copy.deepcopy(conf)
        out = attempt(self.native.material_from_conf, conf)
        self.unchanged("mat", conf, c0, "native.material_from_conf")
        repl = {"fn": "native.material_from_conf", "input": c0}
        model = f"py_material_from_conf {enc_cfg(c0)}"
        if out[0] == "beyond":
            if out[1].name != "Material":
                return self.skip("mat", sub, out[1].name)
            m = [e for e in R.events if e[0] == "Material"][-1][1]
            lit = f"(OOk {R.enc_matkw(m)})"
        elif out[0] == "ok":
            m = out[1]
            if id(m) not in R.mat:
                return self.bad("mat-untraced", "material_from_conf returned an object that core.Material.__init__ did not build",
                                repl, "mat")
            lit = f"(OOk {R.enc_matkw(m)})"
        else:
            lit = f"(OErr {cZ(out[1])})"
        self.add("mat", sub, f"CMat {enc_cfg(c0)} {lit}", dict(repl, library_answer=self.lib_answer(out, lit)), model)
        if out[0] == "ok":
            def att(f):
                if f is None:
                    return "None"
                return f"(Some {R.enc_att(R.fac[id(f)])})" if id(f) in R.fac else "(Some (AttFactory [(\"<untraced function>\", Leaf PyNone)]))"

            def o8(x):
                return "None" if x is None else f"(Some {cZ(e8(x))})"
            som = m.state_of_matter
            obs = cpair(o8(m.longitudinal_vel), o8(m.transverse_vel), o8(m.density),
                        "None" if som is None else f"(Some {cstr(str(getattr(som, 'name', som)))})",
                        att(m.longitudinal_att), att(m.transverse_att), enc_cfg(m.metadata))
            self.add("matattr", sub, f"CMatAttr {enc_cfg(c0)} {obs}",
                     dict(repl, library_answer={"longitudinal_vel": m.longitudinal_vel, "transverse_vel": m.transverse_vel,
                                                "density": m.density, "state_of_matter": str(som), "metadata": m.metadata,
                                                "observed": obs}),
                     f"material_of_kwargs py py_is_none (match {model} with Ok kw => kw | Err _ => [] end)")

    # -- examination object -------------------------------------------------------------------------------------------
    def exam_case(self, which, conf, sub):
        R = self.R
        R.reset()
        c0 = copy.deepcopy(conf)
        fn = ["examination_object_from_conf", "block_in_immersion_from_conf", "block_in_contact_from_conf"][which]
        out = attempt(getattr(self.native, fn), conf)
        self.unchanged("exam", conf, c0, "native." + fn)
        repl = {"fn": "native." + fn, "input": c0}
        if out[0] == "beyond":
            return self.skip("exam", sub, out[1].name)
        lit = None
        if out[0] == "ok":
            lit = R.enc_exam(out[1])
            if lit is None:
                return self.bad("exam-untraced", f"{fn} returned an object that was not built by core.BlockInImmersion / "
                                "core.BlockInContact with the expected arguments", dict(repl, returned=repr(out[1])), "exam")
        self.add("exam", sub, f"CExam {cZ(which)} {enc_items(c0)} {self.ores(out, lit)}",
                 dict(repl, library_answer=self.lib_answer(out, lit)), f"exam_model {cZ(which)} {enc_items(c0)}")

    # -- probe -------------------------------------------------------------------------------------------------------
    def probe_case(self, conf, apply, sub, spelling="positional"):
        R = self.R
        R.reset()
        c0 = copy.deepcopy(conf)
        if spelling == "default" and apply:
            out = attempt(self.native.probe_from_conf, conf)
        elif spelling == "keyword":
            out = attempt(self.native.probe_from_conf, conf, apply_probe_location=apply)
        else:
            out = attempt(self.native.probe_from_conf, conf, apply)
        self.unchanged("probe", conf, c0, "native.probe_from_conf")
        repl = {"fn": "native.probe_from_conf", "input": c0, "apply_probe_location": apply, "call_spelling": spelling}
        ci = enc_items(c0)
        if out[0] == "beyond":
            name = out[1].name
            if name == "make_matrix_probe":
                ev = [e for e in R.events if e[0] == "make_matrix_probe"][-1]
                src = R.enc_src(("matrix", ev[1], ev[2]))
                return self.add("probe-prefix", sub + ":source raised", f"CProbeSrcB {ci} {src}",
                                dict(repl, library_answer=self.lib_answer(out, src)), f"probe_source py py_registered {ci}")
            if len(R.psrc) != 1 or not apply:
                return self.skip("probe", sub, name)
            pid = list(R.psrc)[-1]
            src = R.enc_src(R.psrc[pid])
            ops = clist([R.enc_op(o) for o in R.ops.get(pid, [])])
            return self.add("probe-prefix", sub + ":motion raised", f"CProbeOpsB {ci} {src} {ops}",
                            dict(repl, library_answer=self.lib_answer(out, f"{src} {ops}")), f"py_probe_from_conf {ci} true")
        lit = None
        if out[0] == "ok":
            lit = R.enc_plan(out[1])
            if lit is None:
                return self.bad("probe-untraced", "probe_from_conf returned a probe that came neither from the registry nor from "
                                "Probe.make_matrix_probe", repl, "probe")
        self.add("probe", sub, f"CProbe {ci} {cbool(apply)} {self.ores(out, lit)}",
                 dict(repl, library_answer=self.lib_answer(out, lit)), f"py_probe_from_conf {ci} {cbool(apply)}")

    # -- grid --------------------------------------------------------------------------------------------------------
    def grid_case(self, conf, sub, axes=True):
        R = self.R
        R.reset()
        c0 = copy.deepcopy(conf)
        out = attempt(self.native.grid_from_conf, conf)
        self.unchanged("grid", conf, c0, "native.grid_from_conf")
        repl = {"fn": "native.grid_from_conf", "input": c0}
        ci = enc_items(c0)
        entered = [e for e in R.events if e[0] == "Grid"]
        if entered:
            a, k = R.grid[id(entered[-1][1])]
            lit = "(OOk " + (enc_items(k) if not a else "[(\"<positional arguments>\", Leaf PyNone)]") + ")"
        elif out[0] == "err":
            lit = f"(OErr {cZ(out[1])})"
        else:
            return self.bad("grid-untraced", "grid_from_conf finished without calling geometry.Grid", repl, "grid")
        self.add("grid", sub, f"CGrid {ci} {lit}", dict(repl, library_answer=self.lib_answer(out, lit)), f"py_grid_from_conf {ci}")
        if not axes:
            return
        if out[0] == "beyond":
            return self.skip("axes", sub, out[1].name)
        if out[0] == "ok":
            g = out[1]
            obs = []
            for v in (g.xvect, g.yvect, g.zvect):
                v = np.asarray(v)
                obs.append(cpair(cZ(e8(v[0])), cZ(e8(v[-1])), "None" if len(v) < 2 else f"(Some {cZ(e8(v[1] - v[0]))})"))
            alit = "(OOk " + cpair(*obs) + ")"
            shown = {"xvect": g.xvect, "yvect": g.yvect, "zvect": g.zvect}
        else:
            alit, shown = f"(OErr {cZ(out[1])})", None
        self.add("axes", sub, f"CAxes {ci} {alit}", dict(repl, library_answer=self.lib_answer(out, shown or alit)),
                 f"py_grid_axes_from_conf {ci}")

    # -- Time.from_vect ------------------------------------------------------------------------------------------------
    def time_case(self, t, sub):
        out = attempt(self.core.Time.from_vect, np.array(t, dtype=float))
        if out[0] == "ok":
            tm = out[1]
            if float(tm.step) != float(tm.step):      # Time(start, nan, num)
                obs = f"(OTNaN {cQ(float(tm.start))} {cZ(len(tm))} {qlist(np.asarray(tm.samples).tolist())})"
            else:
                obs = "(OTAxis " + cpair(cQ(float(tm.start)), cQ(float(tm.step)), cZ(len(tm))) + ")"
        else:
            obs = "OTNone"
        self.add("time", sub, f"CTime {qlist(t)} {obs}",
                 {"fn": "core.Time.from_vect", "input": t, "library_answer": self.lib_answer(out, obs)}, f"time_of_vect {qlist(t)}")

    # -- MAT files ---------------------------------------------------------------------------------------------------
    def write_mat(self, name, N, S, mem, time, tx, rx, vecs=None, freq=5e6, idx_dtype=np.float64, transposed=True):
        """exp_data file as BRAIN saves it: time_data of shape (S, N) (one timetrace per column), row vectors"""
        import scipy.io as sio
        path = os.path.join(self.dir, name)
        td = np.array(mem, dtype=float).reshape(N, S)
        if vecs is None:
            xc = np.arange(2) * 1.0
            vecs = [xc, xc * 0, xc * 0, xc - 0.25, xc * 0 - 4, xc * 0, xc + 0.5, xc * 0 + 2, xc * 0]
        names = ["el_xc", "el_yc", "el_zc", "el_x1", "el_y1", "el_z1", "el_x2", "el_y2", "el_z2"]
        arr = {n: np.array(v, dtype=float)[None, :] for n, v in zip(names, vecs)}
        arr["centre_freq"] = np.array([[float(freq)]])
        exp = {"array": arr, "tx": np.array(tx).astype(idx_dtype)[None, :], "rx": np.array(rx).astype(idx_dtype)[None, :],
               "time_data": td.T.copy() if transposed else td.copy(), "time": np.array(time, dtype=float).reshape(-1, 1),
               "material": {"vel_spherical_harmonic_coeffs": np.array([[6300.0]])}}
        sio.savemat(path, {"exp_data": exp})
        return path

    def make_files(self):
        rng = self.rng
        specs = [(5.0, 0.5, 3)] + [(f8(rng, 0, 32), float(rng.integers(1, 16)) / 8.0, int(rng.integers(2, 7))) for _ in range(4)]
        for i, (t0, dt, S) in enumerate(specs):
            t = [t0 + j * dt for j in range(S)]
            p = self.write_mat(f"f{i}.mat", 4, S, list(range(4 * S)), t, [1, 1, 2, 2], [1, 2, 1, 2])
            if i < 3:
                self.ftab[p] = t
            else:                                       # served by the stand-in of datasets.DATASETS["examples"]
                self.dtab[f"item{i}.mat"] = t
                self.R.dataset_files[f"item{i}.mat"] = p
        import scipy.io as sio
        self.corrupt = os.path.join(self.dir, "corrupt.mat")
        sio.savemat(self.corrupt, {"something_else": np.arange(3.0)})
        self.missing = os.path.join(self.dir, "nonexistent.mat")

    # -- frame_from_conf ---------------------------------------------------------------------------------------------
    def frame_case(self, conf, up, ue, sub, spelling="positional"):
        R = self.R
        R.reset()
        c0 = copy.deepcopy(conf)
        if spelling == "default" and up and ue:
            out = attempt(self.native.frame_from_conf, conf)
        elif spelling == "keyword":
            out = attempt(self.native.frame_from_conf, conf, use_examination_object_from_conf=ue, use_probe_from_conf=up)
        else:
            out = attempt(self.native.frame_from_conf, conf, up, ue)
        self.unchanged("frame", conf, c0, "native.frame_from_conf")
        repl = {"fn": "native.frame_from_conf", "input": c0, "use_probe_from_conf": up, "use_examination_object_from_conf": ue,
                "call_spelling": spelling}
        if out[0] == "beyond":
            return self.skip("frame", sub, out[1].name)
        lit, shown = None, None
        if out[0] == "ok":
            fr = out[1]
            fe = [e for e in R.events if e[0] == "fetch"]
            le = [e for e in R.events if e[0] == "load_expdata"]
            if R.loaded is None or not le or R.loaded[0] is not fr:
                return self.bad("frame-untraced", "frame_from_conf returned a frame that brain.load_expdata did not load", repl, "frame")
            if fe:
                if le[-1][1] != R.fetched:
                    return self.bad("frame-fetch", "the file given to brain.load_expdata is not the one fetch() returned", repl, "frame")
                src = f"(FromDataset (Leaf (PyStr {cstr(fe[-1][1])})) {enc_cfg(fe[-1][2])})"
            else:
                src = f"(FromFile {enc_cfg(le[-1][1])})"
            if fr.probe is R.loaded[1]:
                pr = "None"
            else:
                pl = R.enc_plan(fr.probe)
                if pl is None:
                    return self.bad("frame-probe-untraced", "frame.probe is neither the probe of the file nor a probe built by "
                                    "probe_from_conf", repl, "frame")
                pr = f"(Some {pl})"
            if fr.examination_object is R.loaded[2]:
                ex = "None"
            else:
                el = R.enc_exam(fr.examination_object)
                if el is None:
                    return self.bad("frame-exam-untraced", "frame.examination_object is neither the one of the file nor one built "
                                    "by examination_object_from_conf", repl, "frame")
                ex = f"(Some {el})"
            tm = cpair(cQ(float(fr.time.start)), cQ(float(fr.time.step)), cZ(len(fr.time)))
            lit = cpair(src, tm, qlist(fr.time.samples), pr, ex)
            shown = {"time": [float(fr.time.start), float(fr.time.step), len(fr.time)], "observed": lit}
        ci = enc_items(c0)
        self.add("frame", sub, f"CFrame {ci} {cbool(up)} {cbool(ue)} {self.ores(out, lit)}",
                 dict(repl, library_answer=self.lib_answer(out, shown)), f"py_frame_from_conf ld {ci} {cbool(up)} {cbool(ue)}")

    # -- BRAIN probe ---------------------------------------------------------------------------------------------------
    def bprobe_case(self, vecs, freq, reader, sub):
        names = ["el_xc", "el_yc", "el_zc", "el_x1", "el_y1", "el_z1", "el_x2", "el_y2", "el_z2"]
        if reader == "file":
            n = len(vecs[0])
            N = 4
            path = self.write_mat(f"p{len(self.cases)}.mat", N, 2, list(range(N * 2)), [1.0, 2.0], [1, 1, 2, 2], [1, 2, 1, 2], vecs=vecs, freq=freq)
            try:
                _, array, _ = self.brain._load_from_scipy(path)
            finally:
                os.remove(path)
        else:       # what h5py gives for a MAT 7.3 file: column vectors
            array = {nm: np.array(v, dtype=float)[:, None] for nm, v in zip(names, vecs)}
            array["centre_freq"] = np.array([[float(freq)]])
        out = attempt(self.brain._load_probe, array)
        if out[0] == "ok":
            p = out[1]
            obs = "(Some " + cpair(q3list(p.locations.coords.tolist()), q3list(p.dimensions.coords.tolist()), cQ(float(p.frequency))) + ")"
        else:
            obs = "None"
        vl = clist([qlist(v) for v in vecs])
        self.add("bprobe", sub, f"CBProbe {vl} {cQ(float(freq))} {obs}",
                 {"fn": "brain._load_probe", "reader": reader, "el_xc,yc,zc,x1,y1,z1,x2,y2,z2": vecs, "centre_freq": freq,
                  "library_answer": self.lib_answer(out if out[0] != "beyond" else ("err", 99, str(out[1])), obs)},
                 "load_probe " + " ".join(qlist(v) for v in vecs) + " " + cQ(float(freq)))

    # -- BRAIN frame ---------------------------------------------------------------------------------------------------
    def bframe_case(self, view, rows, cols, forder, mem, time, tx, rx, sub, idx_dtype=np.float64):
        """view 1: a real MAT file with N = rows timetraces of S = cols samples read by brain.load_expdata (scipy);
        view 2: the same through the h5py layout (shape (N, S), C order) given to brain._load_frame;
        view 0: any 2-D array (rows x cols, C or Fortran order) given to brain._load_frame"""
        R = self.R
        R.reset()
        xc = np.arange(2) * 1.0
        if view == 1:
            path = self.write_mat(f"b{len(self.cases)}.mat", rows, cols, mem, time, tx, rx, idx_dtype=idx_dtype)
            try:
                out = attempt(self.brain.load_expdata, path)
            finally:
                os.remove(path)
            fn = "brain.load_expdata (MAT v7 file)"
        else:
            if view == 2:
                td = np.ascontiguousarray(np.array(mem, dtype=float).reshape(rows, cols))
                col = lambda v: np.array(v)[:, None]  # noqa: E731
            else:
                td = np.array(mem, dtype=float).reshape((rows, cols), order="F" if forder else "C")
                col = lambda v: np.array(v)[None, :]  # noqa: E731
            exp = {"time_data": td, "tx": col(np.array(tx).astype(idx_dtype)), "rx": col(np.array(rx).astype(idx_dtype)),
                   "time": col(np.array(time, dtype=float)), "material": {"vel_spherical_harmonic_coeffs": np.array([[6300.0]])}}
            probe = self.core.Probe.make_matrix_probe(2, 1.0, 1, np.nan, 5e6)
            out = attempt(self.brain._load_frame, exp, probe)
            fn = "brain._load_frame"
        if out[0] == "ok":
            fr = out[1]
            tt = np.asarray(fr.timetraces)
            if tt.ndim != 2 or not np.array_equal(tt, np.round(tt)):
                return self.bad("bframe-shape", "the loaded timetraces are not a 2-D array of the stored integers", {"fn": fn}, "bframe")
            obs = "(Some " + cpair(clist([zlist(r) for r in tt.tolist()]),
                                   cpair(cQ(float(fr.time.start)), cQ(float(fr.time.step)), cZ(len(fr.time))),
                                   zlist(np.asarray(fr.tx).tolist()), zlist(np.asarray(fr.rx).tolist())) + ")"
        else:
            obs = "None"
        args = f"{cZ(view)} {cZ(rows)} {cZ(cols)} {cbool(forder)} {zlist(mem)} {qlist(time)} {zlist(tx)} {zlist(rx)}"
        self.add("bframe", sub, f"CBFrame {args} {obs}",
                 {"fn": fn, "view": {0: "generic array", 1: "scipy", 2: "hdf5 layout"}[view], "rows": rows, "cols": cols,
                  "fortran_order": forder, "buffer": mem, "time": time, "stored_tx": tx, "stored_rx": rx,
                  "index_dtype": np.dtype(idx_dtype).name,
                  "library_answer": self.lib_answer(out if out[0] != "beyond" else ("err", 99, str(out[1])), obs)},
                 f"load_frame Z (arr_of {cZ(view)} {cZ(rows)} {cZ(cols)} {cbool(forder)} {zlist(mem)}) {qlist(time)} {zlist(tx)} {zlist(rx)}")

    # -- the fixed examples of notes/prover_C20_TIE.md -------------------------------------------------------------------
    def fixed(self):
        F = lambda n: n / 8.0  # noqa: E731
        M = {"longitudinal_vel": F(8)}
        W = {"xmin": F(0), "xmax": F(8), "z": F(16), "numpoints": 3}
        W2 = {"numpoints": 5, "z": F(40), "y": F(4), "xmax": F(24), "xmin": F(-8)}
        PR = {"frequency": F(8000000), "numx": 3, "pitch_x": F(8), "numy": 1, "pitch_y": F(8)}
        c = copy.deepcopy
        for m in ({"longitudinal_vel": F(50400), "transverse_att": F(24), "longitudinal_att": None, "metadata": None},
                  {"longitudinal_vel": F(8), "zzz": 1}, {"transverse_vel": F(8)}, {"longitudinal_vel": F(8), "transverse_att": 3},
                  {"longitudinal_vel": F(8), "transverse_att": {"value": F(24)}}, 5,
                  {"longitudinal_vel": 6300.0, "longitudinal_att": {"kind": "polynomial", "coeffs": [1.0, 2.0]},
                   "transverse_att": {"kind": "constant", "value": 5.0}, "density": 2700}):
            self.mat_case(c(m), "fixed")
        for a in (3.0, 3, {"kind": "constant", "value": 2.0}, {"value": 2.0}, None, "x", True, {}):
            self.att_case(c(a), "fixed")
        for e in ({"frontwall": W, "backwall": W2, "couplant_material": M, "block_material": {"longitudinal_vel": F(16), "transverse_vel": F(8)}},
                  {"block_material": M, "frontwall": None, "under_material": None, "backwall": W}, {"frontwall": W},
                  {"block_material": M, "frontwall": None, "backwall": W, "couplant_material": M}, {"block_material": M, "frontwall": 5},
                  {"block_material": M, "frontwall": dict(W, name="x")}, {"block_material": M, "frontwall": {"xmin": F(0)}},
                  {"block_material": 5}):
            for which in (0, 1, 2):
                self.exam_case(which, c(e), "fixed")
        for p, ap in (({"probe": PR, "probe_location": {"standoff": F(-16), "angle_deg": F(0), "ref_element": 0}}, True),
                      ({"probe": PR}, True), ({"probe": PR}, False), ({"probe": PR, "probe_location": "abc"}, True),
                      ({"probe": PR, "probe_location": "xx standoff"}, True), ({"probe": PR, "probe_location": 5}, True),
                      ({"probe": PR, "probe_location": ["standoff"]}, True), ({"probe": PR, "probe_location": {"standoff": None}}, True),
                      ({"probe": PR, "probe_key": "ima_50_MHz_128_1d"}, False), ({"probe": PR, "probe_key": "ima_50_MHz_128_1d"}, True),
                      ({"probe_key": "ima_50_MHz_128_1d", "probe_location": {"ref_element": "mean"}}, True),
                      ({"probe": {"numx": 1}, "probe_location": {}}, True), ({"probe": 5, "probe_location": {}}, True),
                      ({"probe_location": {}}, True),
                      ({"probe_key": "zzz"}, False), ({"probe_key": 5}, False), ({"probe_key": None, "probe_location": {}}, True),
                      ({"probe_key": ["ima_50_MHz_128_1d"]}, False), ({"probe_key": {"a": 1}}, False), ({"probe_key": "zzz", "probe": PR}, False),
                      ({"probe_key": "sonaxis_150_MHz_110_1d"}, False), ({"probe_key": "zzz", "probe_location": {"standoff": 1.0}}, True)):
            for sp in ("positional", "keyword", "default"):
                self.probe_case(c(p), ap, "fixed", sp)
        G = {"xmin": F(0), "xmax": F(16), "zmin": F(0), "zmax": F(32)}
        D = {"xmin": 1.0, "xmax": 1.0, "zmin": 2.0, "zmax": 2.0}
        for g in ({"grid": dict(G, ymax=F(48), pixel_size=[F(8), F(24), F(16)])}, {"grid": dict(G, pixel_size=F(8))},
                  {"grid": dict(G, pixel_size=[F(8), F(24)])}, {"grid": 5}, {"grid": {"xmin": F(0)}}, {"grid": dict(G, foo=1, pixel_size=F(8))},
                  {}, {"grid": dict(D, pixel_size={"a": 1, "b": 2})}, {"grid": dict(D, pixel_size="abc")},
                  {"grid": dict(D, pixel_size={"a": 1, "b": 2, "c": 3})}, {"grid": dict(D, pixel_size=None)}):
            self.grid_case(c(g), "fixed")
        p0 = list(self.ftab)[0]
        fr = {"datafile": p0, "instrument_delay": F(16), "dataset_name": "zz"}
        for conf, up, ue in (({"frame": fr, "probe": PR, "probe_location": {}, "block_material": M}, True, True),
                             ({"block_material": M, "probe_location": {}, "probe": PR, "frame": fr}, True, True),
                             ({"frame": {"datafile": p0, "instrument_delay": None}}, False, False),
                             ({"frame": {"datafile": p0}}, True, False), ({"frame": {"datafile": p0}}, False, True),
                             ({"frame": {"datafile": self.missing}}, False, False), ({"frame": {"datafile": self.corrupt}}, False, False),
                             ({"frame": {"dataset_name": "zz", "dataset_item": "a"}}, False, False),
                             ({"frame": {"dataset_item": "a"}}, False, False), ({"frame": "a datafile b"}, False, False), ({}, False, False),
                             ({"frame": {"dataset_name": "examples", "dataset_item": list(self.dtab)[0], "instrument_delay": 2}}, False, False),
                             ({"frame": {"dataset_name": "examples", "dataset_item": "unknown.mat"}}, False, False),
                             ({"frame": {"dataset_name": "examples"}}, False, False)):
            self.frame_case(c(conf), up, ue, "fixed")
        for t in ([3.0, 2.0, 1.0], [3.0, 3.0, 3.0], [5.0, 5.5, 6.0], [1.0, 2.0], [0.0, 1.0, 2.0, 3.5], [3.0], [-2.5], [0.0], []):
            self.time_case(t, "fixed")
        v = [[0.0, 1.0], [0.0, 0.0], [0.0, 0.0], [-0.25, 0.75], [-4.0, -4.0], [0.0, 0.0], [0.5, 1.5], [2.0, 2.0], [0.0, 0.0]]
        x3, o3 = [0.0, 1.0, 2.0], [0.0, 0.0, 0.0]
        for rd in ("file", "hdf5"):
            self.bprobe_case(v, 5e6, rd, "fixed")
            self.bprobe_case([[x[0]] for x in v], 5e6, rd, "fixed one element")
            # a corner vector of one value is broadcast; empty arrays; a centre vector of one value; a corner vector of two among three
            self.bprobe_case([x3, o3, o3, [0.5], [-4.0] * 3, o3, [0.5, 1.5, 2.5], [2.0] * 3, o3], 5e6, rd, "fixed broadcast")
            self.bprobe_case([x3, o3, o3, [0.5], [-4.0], [0.0], [1.0], [2.0], [0.0]], 5e6, rd, "fixed broadcast")
            self.bprobe_case([[], [], [], [], [1.0], [], [], [], [2.0]], 5e6, rd, "fixed empty")
            self.bprobe_case([x3, [0.0], o3, x3, o3, o3, x3, o3, o3], 1e6, rd, "fixed one centre")
            self.bprobe_case([x3, o3, o3, [0.0, 1.0], o3, o3, x3, o3, o3], 1e6, rd, "fixed length")
        mem = list(range(12))
        for view in (1, 2):
            self.bframe_case(view, 4, 3, False, mem, [5.0, 5.5, 6.0], [1, 1, 2, 2], [1, 2, 1, 2], "fixed")
            self.bframe_case(view, 4, 3, False, mem, [5.0, 5.5, 6.0], [0, 1, 2, 2], [1, 2, 1, 2], "fixed wrap")
            self.bframe_case(view, 4, 3, False, mem, [5.0, 5.5, 6.0], [1, 1, 2, 1], [1, 2, 1, 2], "fixed duplicate")
            self.bframe_case(view, 4, 3, False, mem, [5.0, 5.5, 6.0], [1, 1, 2], [1, 2, 1], "fixed short tx")
            self.bframe_case(view, 4, 3, False, mem, [3.0, 2.0, 1.0], [1, 1, 2, 2], [1, 2, 1, 2], "fixed decreasing")
            self.bframe_case(view, 4, 3, False, mem, [3.0, 2.0, 1.0, 0.0], [1, 1, 2, 2], [1, 2, 1, 2], "fixed time length")
            self.bframe_case(view, 1, 3, False, [0, 1, 2], [5.0, 5.5, 6.0], [1], [1], "fixed one timetrace")

    # -- random streams ------------------------------------------------------------------------------------------------
    def root_noise(self, e):
        rng = self.rng
        if rng.random() < 0.3:
            e.append((pick(rng, ["comment", "result_dir", "k9"]), pick(rng, ["s", 1, None, {"a": 1}])))
        return e

    def random_exam(self, fault=None):
        rng = self.rng
        pattern = pick(rng, ["immersion", "immersion", "contact", "contact", "none"]) if fault is None else pick(rng, ["immersion", "contact"])
        e = self.root_noise(gen_exam_entries(rng, pattern, fault))
        which = 0 if rng.random() < 0.6 else int(rng.integers(1, 3))
        self.exam_case(which, shuffled(rng, e), f"{pattern}:{fault or 'valid'}:{['dispatch', 'immersion', 'contact'][which]}")

    def probe_entries(self, fault=None):
        """root entries for a probe: (entries, number of elements or None)"""
        rng = self.rng
        e, nel = [], None
        if fault == "both":
            key = pick(rng, self.keys) if rng.random() < 0.7 else copy.deepcopy(pick(rng, UNREGISTERED_KEYS))
            e += [("probe", gen_probe_kw(rng)), ("probe_key", key)]
        elif fault == "neither":
            pass
        elif fault in ("leaf", "missing", "unknown", "beyond"):
            e.append(("probe", gen_probe_kw(rng, fault)))
        elif fault == "unregistered" or rng.random() < 0.07:
            e.append(("probe_key", copy.deepcopy(pick(rng, UNREGISTERED_KEYS))))
        elif rng.random() < 0.25:
            e.append(("probe_key", pick(rng, self.keys)))
            nel = 32
        else:
            kw = gen_probe_kw(rng)
            e.append(("probe", kw))
            nel = kw["numx"] * kw["numy"]
        return e, nel

    def random_probe(self, fault=None):
        rng = self.rng
        srcf = fault if fault in ("both", "neither", "leaf", "missing", "unknown", "beyond", "unregistered") else None
        e, nel = self.probe_entries(srcf)
        if fault == "no-location":
            pass
        elif fault == "location-leaf":
            e.append(("probe_location", gen_location(rng, nel, "leaf")))
        elif fault and fault.startswith("beyond-"):
            e.append(("probe_location", gen_location(rng, nel, fault)))
        elif rng.random() < 0.9:
            e.append(("probe_location", gen_location(rng, nel)))
        apply = True if fault in ("no-location", "location-leaf") or (fault or "").startswith("beyond-") else bool(rng.random() < 0.8)
        self.probe_case(shuffled(rng, self.root_noise(e)), apply, fault or "valid", pick(rng, ["positional", "keyword", "default"]))

    def random_grid(self, mode):
        rng = self.rng
        if mode == "fault-leaf":
            conf = {"grid": copy.deepcopy(pick(rng, [5, None, "abc", "ymin ymax", [1], 2.5, True, ["ymin", "ymax"]]))}
        elif mode == "fault-nogrid":
            conf = {}
        else:
            conf = {"grid": gen_grid(rng, mode)}
        self.grid_case(shuffled(rng, self.root_noise(list(conf.items()))), mode)

    def random_frame(self, fault=None):
        rng = self.rng
        good = list(self.ftab)
        f = []
        delay = pick(rng, [ABSENT, ABSENT, None, f8(rng, -8, 8), int(rng.integers(-3, 4)), 0.0])
        src = "file" if rng.random() < 0.7 else "dataset"
        if fault == "frame-leaf":
            frame = copy.deepcopy(pick(rng, ["a datafile b", "abc", 5, None, ["datafile"], [], True, "dataset_name"]))
        else:
            if fault == "badfile":
                f.append(("datafile", copy.deepcopy(pick(rng, [self.missing, self.corrupt, 5, None, "", ["x"]]))))
            elif fault == "dataset-unknown":
                f.append(("dataset_name", copy.deepcopy(pick(rng, ["zz", "Examples", None, ["examples"], {"a": 1}, 5, ""]))))
                if rng.random() < 0.7:
                    f.append(("dataset_item", list(self.dtab)[0]))
            elif fault == "dataset-noname":
                f.append(("dataset_item", list(self.dtab)[0]))
            elif fault == "dataset-noitem":
                f.append(("dataset_name", "examples"))
            elif fault == "dataset-baditem":
                f += [("dataset_name", "examples"), ("dataset_item", copy.deepcopy(pick(rng, ["unknown.mat", 5, None, ["x"]])))]
            elif src == "file":
                f.append(("datafile", pick(rng, good)))
                if rng.random() < 0.3:
                    f.append(("dataset_name", pick(rng, ["examples", "zz", None])))
                if rng.random() < 0.3:
                    f.append(("dataset_item", pick(rng, list(self.dtab) + ["unknown.mat"])))
            else:
                f += [("dataset_name", "examples"), ("dataset_item", pick(rng, list(self.dtab)))]
            if delay is not ABSENT:
                f.append(("instrument_delay", delay))
            if rng.random() < 0.2:
                f.append(("comment", "x"))
            frame = shuffled(rng, f)
        e = [] if fault == "noframe" else [("frame", frame)]
        up, ue = bool(rng.random() < 0.6), bool(rng.random() < 0.6)
        pf = pick(rng, ["both", "neither", "leaf", "missing", "unknown", "unregistered"]) if fault == "probe-fault" else None
        pe, nel = self.probe_entries(pf)
        if rng.random() < 0.85 or fault == "probe-fault":
            e += pe
            if fault == "no-location":
                up = True
            elif rng.random() < 0.9:
                e.append(("probe_location", gen_location(rng, nel, "leaf" if fault == "location-leaf" else None)))
        if fault in ("probe-fault", "location-leaf"):
            up = True
        xf = pick(rng, ["leaf", "unknown", "missing", "att", "wall-leaf", "wall-name", "wall-missing", "wall-none"]) if fault == "exam-fault" else None
        if fault == "exam-none":
            ue = True
            e += gen_exam_entries(rng, "none")
        elif rng.random() < 0.85 or xf:
            e += gen_exam_entries(rng, pick(rng, ["immersion", "contact"]), xf)
            if xf:
                ue = True
        self.frame_case(shuffled(rng, self.root_noise(e)), up, ue, fault or f"valid:{src}", pick(rng, ["positional", "keyword", "default"]))

    def random_bprobe(self, fault=None):
        rng = self.rng
        n = 1 if fault == "one" else 0 if fault == "empty" else int(rng.integers(2, 7))
        pitch = f8(rng, 0.25, 4)
        xc = [(i - (n - 1) / 2.0) * pitch for i in range(n)] if rng.random() < 0.7 else [f8(rng, -16, 16) for _ in range(n)]
        yc = [f8(rng, -4, 4)] * n if rng.random() < 0.7 else [f8(rng, -4, 4) for _ in range(n)]
        zc = [0.0] * n if rng.random() < 0.7 else [f8(rng, -2, 2) for _ in range(n)]

        def corner(c):       # either corner may be the farther one, on either side
            return [x + pick(rng, [-1.0, 1.0]) * f8(rng, 0, 4) for x in c]
        vecs = [xc, yc, zc, corner(xc), corner(yc), corner(zc), corner(xc), corner(yc), corner(zc)]
        if fault == "length":           # any vector, any other length (a CORNER vector of length 1 is broadcast: accepted)
            j = int(rng.integers(0, 9))
            m = pick(rng, [k for k in (0, 1, 2, 3, 4, 5, 6, 7) if k != n])
            vecs[j] = [f8(rng, -4, 4) for _ in range(m)]
            fault = "length:" + ("centre" if j < 3 else "corner") + (":1" if m == 1 else ":0" if m == 0 else "")
        elif fault in ("broadcast", "empty"):   # 1 .. 6 corner vectors of ONE value
            for j in rng.permutation(6)[:int(rng.integers(1 if fault == "broadcast" else 0, 7))]:
                vecs[3 + int(j)] = [f8(rng, -4, 4)]
        elif fault == "broadcast-centre":       # a centre vector of ONE value: rejected
            vecs[int(rng.integers(0, 3))] = [f8(rng, -4, 4)]
            for j in rng.permutation(6)[:int(rng.integers(0, 4))]:
                vecs[3 + int(j)] = [f8(rng, -4, 4)]
        self.bprobe_case(vecs, float(rng.integers(1, 21)) * 0.5e6, pick(rng, ["file", "hdf5"]), fault or "valid")

    def capture(self, N):
        """N stored (tx, rx) pairs (1-based), distinct"""
        rng = self.rng
        nel = 2
        while nel * nel < N:
            nel += 1
        nel += int(rng.integers(0, 2))
        pairs = [(i, j) for i in range(1, nel + 1) for j in range(1, nel + 1)]
        if rng.random() < 0.5:
            idx = sorted(rng.permutation(len(pairs))[:N].tolist())
        else:
            idx = rng.permutation(len(pairs))[:N].tolist()
        return [pairs[i][0] for i in idx], [pairs[i][1] for i in idx]

    def random_bframe(self, fault=None):
        rng = self.rng
        N, S = int(rng.integers(2, 7)), int(rng.integers(2, 6))
        view = int(rng.integers(0, 3))
        forder = bool(rng.integers(0, 2))
        rows, cols = N, S
        if fault == "single":
            if rng.random() < 0.5:
                N = rows = 1
            else:
                S = cols = 1
        if view == 0 and not forder and fault != "layout":
            pass                                    # C order (N, S): one timetrace per row
        elif view == 0 and fault != "layout":
            rows, cols = S, N                       # Fortran order (S, N): what scipy returns
        if fault == "layout":                       # one timetrace per MATLAB row: rejected unless square
            view = 0
            rows, cols = (N, S) if forder else (S, N)
        mem = [int(x) for x in rng.integers(-99, 100, size=N * S)]
        tx, rx = self.capture(N)
        t0, dt = f8(rng, 0, 32), float(rng.integers(1, 16)) / 8.0
        time = [t0 + j * dt for j in range(S)]
        dtype = pick(rng, [np.float64, np.float64, np.uint8, np.uint16, np.int32, np.float32])
        if fault == "duplicate" and N >= 2:
            i, j = rng.permutation(N)[:2]
            tx[i], rx[i] = tx[j], rx[j]
        elif fault == "wrap":
            tx[int(rng.integers(N))] = 0
            if rng.random() < 0.5:
                rx[int(rng.integers(N))] = 0
        elif fault == "txlen":
            if rng.random() < 0.5:
                tx = tx[:-1]
                rx = rx[:-1] if rng.random() < 0.5 else rx
            else:
                rx = rx + [1]
        elif fault == "timelen":
            time = time[:-1] if rng.random() < 0.5 and S > 2 else time + [time[-1] + dt]
        elif fault == "time":
            time = time_vector(rng, pick(rng, ["decreasing", "nonlinear", "constant"]))
            time = (time + [2 * time[-1] - time[-2]] * S)[:S] if len(time) < S else time[:S]
        self.bframe_case(view, rows, cols, forder, mem, time, tx, rx, fault or "valid", dtype)

    def generate(self):
        rng = self.rng
        m = 1 if self.quick else 10
        self.make_files()
        self.fixed()
        for _ in range(70 * m):
            self.mat_case(gen_material(rng), "valid")
        for fault in ("leaf", "unknown", "missing", "att", "att-unknown-kind"):
            for _ in range(10 * m):
                self.mat_case(gen_material(rng, fault), fault)
        for _ in range(30 * m):
            a = gen_att(rng)
            self.att_case(None if a is ABSENT else a, "valid")
        for _ in range(20 * m):
            self.att_case(copy.deepcopy(pick(rng, [3, True, "3.0", [1.0], {"value": 3.0}, {}, {"coeffs": [1.0]}, {"kind": "zzz"},
                                                   {"kind": "constant"}, {"kind": "constant", "value": 1.0, "extra": 2}, None, 0.0])), "fault")
        for _ in range(110 * m):
            self.random_exam()
        for fault in ("leaf", "unknown", "missing", "att", "wall-leaf", "wall-name", "wall-missing", "wall-unknown", "wall-none"):
            for _ in range(9 * m):
                self.random_exam(fault)
        for _ in range(110 * m):
            self.random_probe()
        for fault in ("both", "neither", "leaf", "missing", "unknown", "beyond", "unregistered", "no-location", "location-leaf", "beyond-ref",
                      "beyond-angle", "beyond-angle-none", "beyond-standoff"):
            for _ in range(8 * m):
                self.random_probe(fault)
        for mode, k in (("scalar", 30), ("list3", 40), ("badlen", 12), ("str3", 6), ("strn", 8), ("map3", 6), ("mapn", 8), ("none", 5),
                        ("fault-missing", 10), ("fault-unknown", 10), ("fault-leaf", 10), ("fault-nogrid", 3)):
            for _ in range(k * m):
                self.random_grid(mode)
        for _ in range(130 * m):
            self.random_frame()
        for fault in ("frame-leaf", "badfile", "dataset-unknown", "dataset-noname", "dataset-noitem", "dataset-baditem", "noframe",
                      "probe-fault", "no-location", "location-leaf", "exam-fault", "exam-none"):
            for _ in range(7 * m):
                self.random_frame(fault)
        for kind, k in (("linear", 25), ("constant", 5), ("decreasing", 10), ("jitter-ok", 15), ("boundary", 15), ("nonlinear", 20),
                        ("one", 8), ("empty", 2)):
            for _ in range(k * m):
                self.time_case(time_vector(rng, kind), kind)
        for _ in range(25 * m):
            self.random_bprobe()
        for fault, k in (("one", 8), ("length", 16), ("broadcast", 16), ("broadcast-centre", 6), ("empty", 4)):
            for _ in range(k * m):
                self.random_bprobe(fault)
        for _ in range(50 * m):
            self.random_bframe()
        for fault in ("single", "layout", "duplicate", "wrap", "txlen", "timelen", "time"):
            for _ in range(8 * m):
                self.random_bframe(fault)

    def prelude(self):
        def tab(d):
            return clist([cpair(cstr(k), qlist(v)) for k, v in d.items()])
        return PRELUDE.replace("__FTAB__", tab(self.ftab)).replace("__DTAB__", tab(self.dtab))

    def evaluate(self):
        chk = self.chk
        pre = self.prelude()
        lits = ["(" + c[1] + ")" for c in self.cases]
        bad = chk.coq_failing("tie_C20", pre, "tcase", lits, "check_case", shard=250)
        per_kind = {}
        for b in bad:
            per_kind[self.cases[b][0]] = per_kind.get(self.cases[b][0], 0) + 1
        shown = 0
        for b in bad:
            kind, lit, replay, model = self.cases[b]
            chk.count(tie_C20_disagreement=kind)
            self.reported[kind] = self.reported.get(kind, 0) + 1
            if self.reported[kind] > 3:
                continue
            replay = dict(js(replay), correspondence=CORR[kind], disagreeing_cases_of_this_kind=per_kind[kind],
                          cases_of_this_kind=sum(1 for c in self.cases if c[0] == kind))
            if shown < 5:       # what the model answers (computed by Coq; diagnostics only)
                shown += 1
                try:
                    out = chk.coq_values(f"tie_C20_diag_{shown}", pre, [model])
                    replay["model_answer_vm_compute"] = out.strip()[-3000:]
                except Exception as e:  # noqa: BLE001
                    replay["model_answer_vm_compute"] = f"(not printed: {e})"[:300]
            replay["model_expression"] = model[:3000]
            chk.violation(f"tie:{kind}", f"the model ({CORR[kind].split(' vs ')[0]}) and the library disagree on a generated input",
                          replay, failing_input_found=False)
        return len(lits)


def run(chk, arim, rng, quick):
    import logging
    import warnings
    t = Tie(chk, arim, rng, quick)
    prev = logging.root.manager.disable
    logging.disable(logging.CRITICAL)             # frame_from_conf logs "ignoring frame.dataset_name"
    try:
        with warnings.catch_warnings():
            warnings.simplefilter("ignore")
            with np.errstate(all="ignore"):
                expected = {"examples"}
                if set(t.R.datasets.DATASETS) != expected:
                    t.bad("datasets-keys", "arim.datasets.DATASETS no longer has the single key 'examples' (py_known_dataset)",
                          {"keys": list(t.R.datasets.DATASETS)}, "frame")
                if list(t.keys) != MODEL_PROBE_KEYS:
                    t.bad("probes-keys", "the keys of arim._probes.probes are no longer the ones listed in Model/ConfLoad.py_probe_keys "
                          "(py_registered)", {"keys": list(t.keys), "model": MODEL_PROBE_KEYS}, "probe")
                t.R.install()
                try:
                    t.generate()
                finally:
                    t.R.restore()
        n = t.evaluate()
    finally:
        logging.disable(prev)
        shutil.rmtree(t.dir, ignore_errors=True)
    chk.cov["tie_C20"] = {"cases_evaluated_in_coq": n, "python_side_checks": t.direct,
                          "per_kind": {k: sum(1 for c in t.cases if c[0] == k) for k in CORR}}
    return n + t.direct
