"""Tie of Model/FermatGlue.v (C01, the glue of arim.ray around the Fermat solver) to the real library, evaluated on
every run of the check.  The model side is computed by coqc (vm_compute) during the run (see notes/prover_C01_TIE.md):

  fp_new / fp_reverse / fp_split_head / fp_split_queue / fp_points / fp_velocities / fp_num_points_sets /
  fp_len_largest_interface                  vs  arim.ray.FermatPath(seq) and its methods / properties on ANY sequence
                                                (Points or numbers at any position, inf / nan, list or tuple, every length)
  fp_from_path                              vs  FermatPath.from_path(obj) (objects with interfaces / materials / modes of any
                                                lengths) and core.Path.to_fermat_path()
  solver_init + solver_solve_times k        vs  the dictionary of k calls of FermatSolver(paths).solve() (list / tuple / set /
                                                iterator / generator; duplicates, equal tuples built separately, reversed
                                                paths, shared prefixes): keys in order, times bit for bit, all of `indices`;
                                                both caches empty afterwards
  solve_seq on unparse(key)                 vs  the same dictionary values (stand-alone `_solve` on the tuple)
  solve_dt b + make_indices_z b             vs  FermatSolver([p], dtype_indices=int8/int16/int64).solve()[p] (interior sets of
                                                more than 128 points: the stored minimiser wraps, numba negative indexing)
  ray_tracing_for_paths                     vs  arim.ray.ray_tracing_for_paths(iterable, convert_to_fortran_order): the list
                                                of writes `path.rays = ...` in program order (objects whose `rays` setter logs),
                                                values and memory order of every Rays written
  ray_tracing / last_write / dedup_ids      vs  arim.ray.ray_tracing(views) on real core.Path / core.View objects (`enum` = the
                                                iteration order of the very same set expression)
  make_indices_z / make_indices_order       vs  Rays.make_indices(interior, order) (int8..int64, C / F layout, degenerate
                                                shapes, overflow of the first / last layer)
  wrap                                      vs  the numpy cast int64 -> int8/16/32/64
  rays_init / make_rays_two_interfaces / rays_obj_reverse / rays_obj_to_fortran / gone_through_extreme_points /
  get_coordinates                           vs  Rays(...), Rays.make_rays_two_interfaces, .reverse('f'/'c'), .to_fortran_order(),
                                                .gone_through_extreme_points(), next(.get_coordinates(k)) on Rays objects
                                                built directly (any interior values incl. negative / out of range ones)

Discrete observables are compared exactly; times bit for bit (binary64, NumF) on clouds where every leg distance is
exactly representable (points on a line with dyadic coordinates, 3-4-5 layers; measured, not assumed) and velocities are
powers of two.  Memory order: the model's order must be among the contiguity flags numpy reports (exact for every
non-degenerate shape, where numpy reports exactly one flag).
Error kinds: 0 none, 1 ValueError raised by arim, 2 AssertionError, 3 IndexError, 4 ZeroDivisionError, 5 KeyError,
6 anything else (the ValueError / TypeError numpy raises inside np.isfinite, len() of a number).
"""
import gc
import time
from fractions import Fraction

import numpy as np

from common import cZ, cbool, cfloat, clist, cpair

PRELUDE = r"""From Coq Require Import Arith List Bool ZArith PrimFloat.
From Arim Require Import Base.ListX Base.Num Base.NumF Model.MinPlus Model.Fermat Model.FermatGlue.
Import ListNotations.
Local Open Scope nat_scope.
Definition PSt := pset (T:=float).
Definition feqx (a b : float) : bool :=
  (PrimFloat.eqb a b && PrimFloat.eqb (PrimFloat.div 1%float a) (PrimFloat.div 1%float b))
  || (PrimFloat.is_nan a && PrimFloat.is_nan b).
Definition fin (v : float) : bool := PrimFloat.is_finite v.
Definition zitem := (Z * float)%type.
Definition mk_item (sets : fsets) (z : zitem) : item float PSt :=
  if (fst z <? 0)%Z then IV (snd z) else IP (find_ps sets (fst z)).
Definition un_item (x : item float PSt) : zitem :=
  match x with IP P => (fst P, 0%float) | IV v => ((-1)%Z, v) end.
Definition zitem_eqb (a b : zitem) : bool := Z.eqb (fst a) (fst b) && feqx (snd a) (snd b).
Definition items_eqb (s : list (item float PSt)) (g : list zitem) : bool := list_eqb zitem_eqb (map un_item s) g.
Definition items2_eqb (s : list (item float PSt) * list (item float PSt)) (g : list zitem * list zitem) : bool :=
  items_eqb (fst s) (fst g) && items_eqb (snd s) (snd g).
Definition ecode (e : err) : Z :=
  match e with ValueError => 1 | AssertionError => 2 | IndexError => 3 | ZeroDivisionError => 4 | KeyError => 5
             | OtherError => 6 end%Z.
Definition res_ok {A G} (ok : A -> G -> bool) (x : res A) (g : Z * G) : bool :=
  match x with inl e => Z.eqb (ecode e) (fst g) | inr a => Z.eqb (fst g) 0 && ok a (snd g) end.
Fixpoint all2 {A B} (f : A -> B -> bool) (l : list A) (g : list B) : bool :=
  match l, g with [] , [] => true | x :: l', y :: g' => f x y && all2 f l' g' | _, _ => false end.
Definition tab_eqb {A} (e : A -> A -> bool) : list (list A) -> list (list A) -> bool := list_eqb (list_eqb e).
Definition cube_eqb : list (list (list Z)) -> list (list (list Z)) -> bool := list_eqb (tab_eqb Z.eqb).
Definition fpt_eqb (a b : fpt) : bool :=
  let '(x1, y1, z1) := a in let '(x2, y2, z2) := b in feqx x1 x2 && feqx y1 y2 && feqx z1 z2.
Definition ord_of (z : Z) : order := if (z =? 0)%Z then OC else OF.
Definition arg_of (z : Z) : option order := if (z =? 0)%Z then None else if (z =? 1)%Z then Some OC else Some OF.
Definition order_ok (o : order) (fl : bool * bool) : bool := match o with OC => fst fl | OF => snd fl end.
Definition nn (z : Z) : nat := Z.to_nat z.

Definition dp := distance_pairwise NumF.
Definition kltb := PrimFloat.ltb. Definition kadd := PrimFloat.add. Definition kdiv := PrimFloat.div.
Definition keqb := PrimFloat.eqb.

(* times, all of `indices` *)
Definition rays_obs := (list (list float) * list (list (list Z)))%type.
Definition rays_ok (b : Z) (n m : nat) (r : rays float) (g : rays_obs) : bool :=
  tab_eqb feqx (r_times r) (fst g) && cube_eqb (make_indices_z b n m (interior_z b r)) (snd g).
Definition rays_same (a b : rays float) : bool :=
  tab_eqb feqx (r_times a) (r_times b) && list_eqb (tab_eqb Nat.eqb) (r_int a) (r_int b).
Definition entry_ok (sets : fsets) (kv : cpath (T:=float) * rays float) (g : path_lit * rays_obs) : bool :=
  fpath_eqb pset_eqb keqb (fst kv) (build_path sets (fst g))
  && rays_ok 32 (psize (startp (fst kv))) (psize (endp (fst kv))) (snd kv) (snd g).

Definition zobj := (Z * (list Z * list float))%type.
Definition mk_obj (sets : fsets) (o : zobj) : pathobj float PSt :=
  (fst o, (map (find_ps sets) (fst (snd o)), snd (snd o))).
(* one write `path.rays = R`: identity of the object, R.times, R.indices, flags (c, f) of times and of indices *)
Definition wobs := (Z * (rays_obs * ((bool * bool) * (bool * bool))))%type.
Definition flags_ok (fortran : bool) (fl : (bool * bool) * (bool * bool)) : bool :=
  if fortran then snd (fst fl) && snd (snd fl) else fst (fst fl) && fst (snd fl).
Definition write_ok (w : Z * (rays float * bool)) (g : wobs) : bool :=
  let r := fst (snd w) in
  Z.eqb (fst w) (fst g)
  && rays_ok 32 (length (r_times r)) (length (hd [] (r_times r))) r (fst (snd g))
  && flags_ok (snd (snd w)) (snd (snd g)).
Definition rt (it : iterable (pathobj float PSt)) (fortran : bool) :=
  ray_tracing_for_paths kltb kadd pset_eqb keqb fin psize dp kdiv it fortran.

(* a Rays object: times.shape, times, flags of times, indices, flags of indices, bits of the dtype of indices *)
Definition robs := ((Z * Z) * list (list float) * (bool * bool) * list (list (list Z)) * (bool * bool) * Z)%type.
Definition RO := rays_obj float float PSt.
Definition ro_ok (r : RO) (g : robs) : bool :=
  let '(shp, t, tf, ix, xf, bits) := g in
  zpair_eqb (zpair_of_nat (ro_shape r)) shp && tab_eqb feqx (ro_times r) t && order_ok (ro_tlay r) tf
  && cube_eqb (ro_indices r) ix && order_ok (ro_order r) xf && Z.eqb (ro_bits r) bits.
Definition rop_ok (r : RO) (g : robs * list zitem) : bool := ro_ok r (fst g) && items_eqb (ro_path r) (snd g).
Definition mid_sizes (fp : list (item float PSt)) : list nat :=
  map (fun x => match item_len psize x with Some k => k | None => 0 end) (removelast (tl (fp_points fp))).
Definition coords_ok (r : RO) (k : nat) (g : Z * list (list fpt)) : bool :=
  match nth_error (fp_points (ro_path r)) k with
  | Some (IP P) =>
      match get_coordinates (pts P) (nth k (ro_indices r) []) with
      | None => Z.eqb (fst g) 3
      | Some t => Z.eqb (fst g) 0 && tab_eqb fpt_eqb t (snd g)
      end
  | _ => false
  end.
Fixpoint coords_all (r : RO) (k : nat) (gs : list (Z * list (list fpt))) : bool :=
  match gs with [] => true | g :: gs' => coords_ok r k g && coords_all r (S k) gs' end.

Inductive tcase :=
| CTuple (sets : fsets) (s : list zitem) (new rv : Z * list zitem) (sh sq : Z * (list zitem * list zitem))
         (pv : list zitem * list zitem) (nps lli : Z)
| CFrom (sets : fsets) (ifs : list Z) (vs : list float) (got : Z * list zitem)
| CSolve (sets : fsets) (oneshot : bool) (paths : list path_lit) (k ec : Z) (got : list (path_lit * rays_obs))
| CDt (sets : fsets) (b : Z) (p : path_lit) (ec : Z) (got : rays_obs)
| CRT (sets : fsets) (oneshot fortran : bool) (objs : list zobj) (ec : Z) (log : list wobs)
| CViews (sets : fsets) (fortran : bool) (enum : list zobj) (views : list (Z * Z)) (ec : Z) (finals : list wobs)
| CMakeIdx (b lay : Z) (shp : Z * (Z * Z)) (X : list (list (list Z))) (arg : Z) (got : list (list (list Z)))
           (fl : bool * bool)
| CStore (b : Z) (zs got : list Z)
| CRays (sets : fsets) (s : list zitem) (two : bool) (tshape : Z * Z) (times : list (list float)) (tlay : Z)
        (shp : Z * (Z * Z)) (X : list (list (list Z))) (ilay b arg : Z) (got : Z * robs)
        (rvf rvc tof : Z * (robs * list zitem)) (ext : list (list bool)) (coords : list (Z * list (list fpt))).

Definition find_obj (objs : list zobj) (id : Z) : zobj :=
  match find (fun o => Z.eqb (fst o) id) objs with Some o => o | None => (id, ([], [])) end.

Definition check (c : tcase) : bool :=
  match c with
  | CTuple sets s new rv sh sq pv nps lli =>
      let s' := map (mk_item sets) s in
      res_ok items_eqb (fp_new fin s') new
      && (if (fst new =? 0)%Z then
            res_ok items_eqb (fp_reverse fin s') rv
            && res_ok items2_eqb (fp_split_head fin s') sh
            && res_ok items2_eqb (fp_split_queue fin s') sq
            && items_eqb (fp_points s') (fst pv) && items_eqb (fp_velocities s') (snd pv)
            && Z.eqb (Z.of_nat (fp_num_points_sets s')) nps
            && Z.eqb (match fp_len_largest_interface psize s' with Some k => Z.of_nat k | None => (-1)%Z end) lli
          else true)
  | CFrom sets ifs vs got => res_ok items_eqb (fp_from_path fin (map (find_ps sets) ifs) vs) got
  | CSolve sets oneshot paths k ec got =>
      let ps := map (build_path sets) paths in
      let it := if oneshot then OneShot ps else Reiterable ps in
      match solver_solve_times kltb kadd pset_eqb keqb psize dp kdiv (nn k) (solver_init it None) with
      | None => negb (ec =? 0)%Z
      | Some (s', d) =>
          (ec =? 0)%Z && all2 (entry_ok sets) d got
          && match so_state s' with ([], []) => true | _ => false end
          && Z.eqb (so_bits s') 32
          && forallb (fun kv => match solve_seq kltb kadd fin psize dp kdiv 12 (unparse (fst kv)) with
                                | Some r => rays_same r (snd kv)
                                | None => false
                                end) d
      end
  | CDt sets b p ec got =>
      let q := build_path sets p in
      match solve_dt kltb kadd psize dp kdiv b q with
      | None => negb (ec =? 0)%Z
      | Some (t, X) =>
          (ec =? 0)%Z && tab_eqb feqx t (fst got)
          && cube_eqb (make_indices_z b (psize (startp q)) (psize (endp q)) X) (snd got)
      end
  | CRT sets oneshot fortran objs ec log =>
      let os := map (mk_obj sets) objs in
      match rt (if oneshot then OneShot os else Reiterable os) fortran with
      | None => negb (ec =? 0)%Z
      | Some ws => (ec =? 0)%Z && all2 write_ok ws log
      end
  | CViews sets fortran enum views ec finals =>
      let os := map (mk_obj sets) enum in
      let vs := map (fun v => (mk_obj sets (find_obj enum (fst v)), mk_obj sets (find_obj enum (snd v)))) views in
      let firsts := dedup_ids [] (map fst vs ++ map snd vs) in
      (length firsts =? length os)
      && forallb (fun o => existsb (fun o' => Z.eqb (fst o) (fst o')) os) firsts
      && match ray_tracing kltb kadd pset_eqb keqb fin psize dp kdiv (fun _ => os) vs fortran with
         | None => negb (ec =? 0)%Z
         | Some ws =>
             (ec =? 0)%Z && (length finals =? length os)
             && forallb (fun g => match last_write (fst g) ws with
                                  | Some w => write_ok (fst g, w) g
                                  | None => false
                                  end) finals
         end
  | CMakeIdx b lay shp X arg got fl =>
      let d := nn (fst shp) in let n := nn (fst (snd shp)) in let m := nn (snd (snd shp)) in
      cube_eqb (make_indices_z b n m X) got
      && order_ok (make_indices_order (arg_of arg) (ord_of lay) [d; n; m]) fl
      && (if degenerate [d + 2; n; m] then fst fl && snd fl else xorb (fst fl) (snd fl))
  | CStore b zs got => list_eqb Z.eqb (map (wrap b) zs) got
  | CRays sets s two tshape times tlay shp X ilay b arg got rvf rvc tof ext coords =>
      let fp := map (mk_item sets) s in
      let ts := (nn (fst tshape), nn (snd tshape)) in
      let x := if two then make_rays_two_interfaces psize ts times (ord_of tlay) b fp
               else rays_init psize ts times (ord_of tlay) (nn (fst shp), (nn (fst (snd shp)), nn (snd (snd shp))))
                              X (ord_of ilay) b fp (arg_of arg) in
      match x with
      | inl e => Z.eqb (ecode e) (fst got)
      | inr r =>
          Z.eqb (fst got) 0 && ro_ok r (snd got)
          && res_ok rop_ok (rays_obj_reverse fin psize OF r) rvf
          && res_ok rop_ok (rays_obj_reverse fin psize OC r) rvc
          && res_ok rop_ok (rays_obj_to_fortran psize r) tof
          && tab_eqb Bool.eqb (gone_through_extreme_points (fst (ro_shape r)) (snd (ro_shape r))
                                 (mid_sizes (ro_path r)) (ro_interior r)) ext
          && coords_all r 0 coords
      end
  end.
"""

ERR = {0: "no error", 1: "ValueError (arim)", 2: "AssertionError", 3: "IndexError", 4: "ZeroDivisionError", 5: "KeyError",
       6: "another exception"}
NUMPY_PHRASES = ("truth value of an array", "setting an array element", "inhomogeneous")
POW2 = [0.5, 1.0, 2.0, 4.0]
BITS = {8: np.int8, 16: np.int16, 32: np.int32, 64: np.int64}


def exc_code(e):
    if isinstance(e, ValueError):
        return 6 if any(p in str(e) for p in NUMPY_PHRASES) else 1
    for code, cls in ((2, AssertionError), (3, IndexError), (4, ZeroDivisionError), (5, KeyError)):
        if isinstance(e, cls):
            return code
    return 6


def call(fn, *a, **k):
    try:
        return 0, fn(*a, **k), ""
    except Exception as e:  # noqa: BLE001   (every exception is an observable outcome here)
        return exc_code(e), None, f"{type(e).__name__}: {e}"[:160]


def exact_dist(a, b):
    s = sum((Fraction(float(x)) - Fraction(float(y))) ** 2 for x, y in zip(a, b))
    r = Fraction(float(np.sqrt(float(s))))
    return r * r == s


# ---------------------------------------------------------------------------------------------------------------------
# literals
# ---------------------------------------------------------------------------------------------------------------------
def c_sets(cloud):
    return clist([cpair(cZ(i), clist([cpair(cfloat(x), cfloat(y), cfloat(z)) for x, y, z in np.asarray(c, float).reshape(-1, 3)]))
                  for i, c in sorted(cloud.items())])


def c_lit(lit):
    return cpair(cZ(lit[0]), clist([cpair(cfloat(v), cZ(i)) for v, i in lit[1]]))


def c_items(items):
    """items: list of ('p', id) / ('v', float)"""
    return clist([cpair(cZ(x[1]), "0%float") if x[0] == "p" else cpair(cZ(-1), cfloat(x[1])) for x in items])


def c_ftab(t):
    return clist([clist([cfloat(x) for x in row]) for row in t])


def c_ztab(t):
    return clist([clist([cZ(x) for x in row]) for row in t])


def c_cube(c):
    return clist([c_ztab(lay) for lay in c])


def c_flags(fl):
    return cpair(cbool(fl[0]), cbool(fl[1]))


def c_rays_obs(o):
    return cpair(c_ftab(o[0]), c_cube(o[1]))


def c_wobs(w):
    return cpair(cZ(w[0]), cpair(c_rays_obs(w[1]), cpair(c_flags(w[2]), c_flags(w[3]))))


def c_obj(o):
    return cpair(cZ(o[0]), cpair(clist([cZ(i) for i in o[1]]), clist([cfloat(v) for v in o[2]])))


def c_robs(o):
    if o is None:
        return "((0%Z, 0%Z), [], (false, false), [], (false, false), 0%Z)"
    return cpair(cpair(cZ(o[0][0]), cZ(o[0][1])), c_ftab(o[1]), c_flags(o[2]), c_cube(o[3]), c_flags(o[4]), cZ(o[5]))


def c_res_items(r):
    return cpair(cZ(r[0]), c_items(r[1] or []))


def c_res_items2(r):
    a, b = r[1] if r[1] is not None else ([], [])
    return cpair(cZ(r[0]), cpair(c_items(a), c_items(b)))


def c_res_rop(r):
    o, path = r[1] if r[1] is not None else (None, [])
    return cpair(cZ(r[0]), cpair(c_robs(o), c_items(path)))


def flags(a):
    return (bool(a.flags.c_contiguous), bool(a.flags.f_contiguous))


# ---------------------------------------------------------------------------------------------------------------------
def run(chk, arim, rng, quick):
    import logging
    import arim.ray as ray
    import arim.geometry as g
    import arim.core as core
    logging.getLogger("arim.ray").setLevel(logging.ERROR)
    logging.getLogger("arim").setLevel(logging.ERROR)
    gc.collect()
    gc.freeze()      # FermatSolver.clear_cache calls gc.collect() twice per solve: keep those collections cheap
    scale = 1 if quick else 10
    t_start = time.time()
    cases = []       # (literal, key, replay)

    def ri(a, b):
        return int(rng.integers(a, b))

    def chance(p):
        return bool(rng.random() < p)

    def pick(l):
        return l[ri(0, len(l))]

    # ---- clouds -----------------------------------------------------------------------------------------------------
    def gen_cloud(nsets, kind=None, maxsize=4, empty_ends=False):
        kind = kind or pick(["line", "line", "345"])
        cloud = {}
        sc = float(pick([0.5, 1.0, 2.0]))
        for i in range(nsets):
            r = rng.random()
            k = 1 if r < 0.2 else (2 if r < 0.4 else ri(1, maxsize + 1))
            if kind == "line":
                c = np.zeros((k, 3))
                c[:, 0] = rng.integers(-12, 13, size=k) * 0.5
            else:
                c = np.zeros((k, 3))
                c[:, 0] = rng.integers(0, 2, size=k) * 3.0 * sc
                c[:, 2] = 4.0 * i * sc
            cloud[i] = c
        return cloud, kind

    def walk(cloud, kind, nlegs):
        ids = sorted(cloud)
        cur = pick(ids)
        legs = []
        first = cur
        for _ in range(nlegs):
            if kind == "line":
                nxt = pick(ids)
            else:
                cand = [i for i in ids if abs(i - cur) == 1]
                nxt = pick(cand)
            legs.append((float(pick(POW2)), nxt))
            cur = nxt
        return (first, legs)

    def lit_ids(lit):
        return [lit[0]] + [i for _, i in lit[1]]

    def lit_exact(cloud, lit):
        ids = lit_ids(lit)
        return all(exact_dist(x, y) for a, b in zip(ids, ids[1:]) for x in cloud[a] for y in cloud[b])

    def lit_reverse(lit):
        ids = lit_ids(lit)[::-1]
        vs = [v for v, _ in lit[1]][::-1]
        return (ids[0], [(vs[k], ids[k + 1]) for k in range(len(vs))])

    def gen_group(cloud, kind, maxlegs=4, maxpaths=6):
        base = walk(cloud, kind, ri(1, maxlegs + 1))
        group = [base]
        for _ in range(ri(0, maxpaths)):
            src = pick(group)
            r = rng.random()
            if r < 0.2:
                group.append(lit_reverse(src))
            elif r < 0.45:
                group.append(src)                                   # equal key
            elif r < 0.6:
                group.append((src[0], list(src[1][:ri(1, len(src[1]) + 1)])))   # prefix
            elif r < 0.75:
                legs = list(src[1]); k = ri(0, len(legs)); legs[k] = (float(pick(POW2)), legs[k][1])
                group.append((src[0], legs))
            elif r < 0.85:                                          # a distinct Points object with the same coordinates
                legs = list(src[1]); k = ri(0, len(legs)); new = max(cloud) + 1
                cloud[new] = cloud[legs[k][1]].copy()
                legs[k] = (legs[k][0], new)
                group.append((src[0], legs))
            else:
                group.append(walk(cloud, kind, ri(1, maxlegs + 1)))
        group = [p for p in group if lit_exact(cloud, p)]
        order = rng.permutation(len(group))
        return [group[i] for i in order]

    def make_points(cloud):
        pts = {i: g.Points(np.array(c, dtype=float).reshape(-1, 3), f"S{i}") for i, c in cloud.items()}
        back = {id(p): i for i, p in pts.items()}
        return pts, back

    def spell(v):
        """a velocity as the caller may write it: the same number"""
        r = rng.random()
        if float(v).is_integer() and r < 0.25:
            return int(v)
        if float(v).is_integer() and r < 0.35:
            return np.int64(int(v))
        if r < 0.55:
            return np.float64(v)
        return float(v)

    def make_fp(pts, lit):
        seq = [pts[lit[0]]]
        for v, i in lit[1]:
            seq += [spell(v), pts[i]]
        return ray.FermatPath(tuple(seq) if chance(0.7) else seq)

    def items_of(seq, back):
        out = []
        for x in seq:
            if id(x) in back:
                out.append(("p", back[id(x)]))
            else:
                out.append(("v", float(x)))
        return out

    def lit_of_fp(fp, back):
        it = items_of(fp, back)
        return (it[0][1], [(it[k][1], it[k + 1][1]) for k in range(1, len(it), 2)])

    def rays_obs(R):
        return (R.times.tolist(), R.indices.tolist())

    def replay_sets(cloud):
        return {str(i): np.asarray(c, float).reshape(-1, 3).tolist() for i, c in cloud.items()}

    def add(lit, key, replay, kind):
        cases.append((lit, key, replay))
        chk.count(tie_C01=kind)

    crashed = []

    def guard(fn):
        """an exception while an input is being built / observed (e.g. a valid FermatPath is rejected) is a disagreement of
        that stream, not the end of the tie"""
        def wrapped(*a, **k):
            try:
                return fn(*a, **k)
            except Exception as e:  # noqa: BLE001
                import traceback
                crashed.append(fn.__name__)
                if crashed.count(fn.__name__) <= 2:
                    chk.violation(f"tie:{fn.__name__}:exception",
                                  f"the {fn.__name__} stream of the C01 tie could not observe arim.ray on a valid input: "
                                  f"{type(e).__name__}: {e}"[:300],
                                  {"correspondence": f"{fn.__name__} of harness/ties/tie_C01.py (inputs accepted by Model/FermatGlue.v)",
                                   "arguments": repr(a)[:1500], "traceback": traceback.format_exc()[-1500:]},
                                  failing_input_found=False)
        return wrapped

    # =================================================================================================================
    # 1. FermatPath as a tuple
    # =================================================================================================================
    @guard
    def tuple_case(cloud, pts, back, seq, kind):
        ec, fp, msg = call(ray.FermatPath, seq)
        new = (ec, items_of(fp, back) if ec == 0 else None)
        rv = sh = sq = (0, None)
        pv = ([], [])
        nps = lli = 0
        if ec == 0:
            e, r, _ = call(fp.reverse)
            rv = (e, items_of(r, back) if e == 0 else None)
            e, r, _ = call(fp.split_head)
            sh = (e, (items_of(r[0], back), items_of(r[1], back)) if e == 0 else None)
            e, r, _ = call(fp.split_queue)
            sq = (e, (items_of(r[0], back), items_of(r[1], back)) if e == 0 else None)
            pv = (items_of(fp.points, back), items_of(fp.velocities, back))
            nps = fp.num_points_sets
            try:
                lli = int(fp.len_largest_interface)
            except TypeError:
                lli = -1
            if not (isinstance(fp, tuple) and type(fp) is ray.FermatPath):
                lli = -7      # never equal to the model's answer
        s_items = items_of(seq, back)
        lit = (f"CTuple {c_sets(cloud)} {c_items(s_items)} {c_res_items(new)} {c_res_items(rv)} {c_res_items2(sh)} "
               f"{c_res_items2(sq)} {cpair(c_items(pv[0]), c_items(pv[1]))} {cZ(nps)} {cZ(lli)}")
        add(lit, "tuple", {"correspondence": "fp_new / fp_reverse / fp_split_head / fp_split_queue / fp_points / fp_velocities / "
                           "fp_num_points_sets / fp_len_largest_interface vs arim.ray.FermatPath(sequence) and its members",
                           "point_sets": replay_sets(cloud), "sequence (p = Points id, v = number)": [list(map(str, x)) for x in s_items],
                           "arim": {"__new__": [ERR[new[0]], msg, new[1]], "reverse": rv, "split_head": sh, "split_queue": sq,
                                    "points, velocities": pv, "num_points_sets": nps,
                                    "len_largest_interface (-1 = TypeError)": lli}}, kind)

    cloudA = {0: np.array([(0, 0, 0), (3, 0, 0)], float), 1: np.array([(0, 0, 4), (3, 0, 4), (0, 0, 4)], float),
              2: np.array([(0, 0, 8), (3, 0, 8)], float)}
    ptsA, backA = make_points(cloudA)
    A, B, C = ptsA[0], ptsA[1], ptsA[2]
    for seq in [(A,), (A, 1.0), (A, 1.0, B), (A, 1.0, B, float("inf"), C), (A, B, C), (A, 1.0, B, 2.0, C), [A, 1, B, 2, C],
                (1.0, 2.0, 3.0), (A, 2.0, 3.0, 1.0, B), (), (A, float("nan"), B), (A, B, C, float("nan"), C),
                (A, 1.0, B, 2.0, C, 4.0, B, 0.5, A), (A, float("-inf"), B)]:
        tuple_case(cloudA, ptsA, backA, seq, "tuple:fixed")
    for _ in range(110 * scale):
        cloud, _k = gen_cloud(ri(1, 5))
        pts, back = make_points(cloud)
        ids = sorted(cloud)
        r = rng.random()
        n = pick([3, 3, 5, 5, 7, 9, 11])
        seq = []
        for k in range(n):
            seq.append(pts[pick(ids)] if k % 2 == 0 else spell(pick(POW2)))
        kind = "tuple:valid"
        if r < 0.45:
            pass
        else:
            faults = 2 if r > 0.85 else 1
            kind = f"tuple:{faults}-fault"
            for _f in range(faults):
                f = pick(["len", "len", "inf", "nan", "points-at-odd", "number-at-even", "neginf"])
                if f == "len":
                    m = pick([0, 1, 2, 4, 6, 8])
                    seq = (seq + seq)[:m]
                elif seq:
                    odd = list(range(1, len(seq), 2))
                    even = list(range(0, len(seq), 2))
                    if f in ("inf", "nan", "neginf") and odd:
                        seq[pick(odd)] = {"inf": float("inf"), "nan": float("nan"), "neginf": float("-inf")}[f]
                    elif f == "points-at-odd" and odd:
                        seq[pick(odd)] = pts[pick(ids)]
                    elif f == "number-at-even":
                        seq[pick(even)] = pick([1.0, 2.0, float("nan"), np.float64(3.0), 0.0, -0.0])
        tuple_case(cloud, pts, back, tuple(seq) if chance(0.6) else list(seq), kind)

    # =================================================================================================================
    # 2. from_path
    # =================================================================================================================
    class Mat:
        def __init__(s, v):
            s.v = v

        def velocity(s, mode):
            return s.v

    class If:
        def __init__(s, p):
            s.points = p

    class Obj:
        """what ray_tracing_for_paths needs of a Path; the setter of `rays` logs the writes"""

        def __init__(s, ident, ifs, vs, log, nmodes=None):
            s.ident = ident
            s.interfaces = [If(p) for p in ifs]
            s.materials = [Mat(v) for v in vs]
            s.modes = [None] * (len(vs) if nmodes is None else nmodes)
            s.name = f"o{ident}"
            s._log = log
            s._rays = None

        @property
        def rays(s):
            return s._rays

        @rays.setter
        def rays(s, value):
            s._log.append((s.ident, value))
            s._rays = value

    def real_path(pts, ids, vs, name):
        inter = [core.Interface(pts[i], g.default_orientations(pts[i])) for i in ids]
        mats, modes = [], []
        for v in vs:
            if chance(0.5):
                mats.append(core.Material(longitudinal_vel=v, transverse_vel=v / 2, density=1000.0, state_of_matter="solid"))
                modes.append("L")
            else:
                mats.append(core.Material(longitudinal_vel=2 * v, transverse_vel=v, density=1000.0, state_of_matter="solid"))
                modes.append("T")
        return core.Path(tuple(inter), tuple(mats), tuple(modes), name=name)

    @guard
    def from_case(cloud, pts, back, ids, vs, kind, real=False, nmodes=None):
        if real:
            ec, fp, msg = call(lambda: real_path(pts, ids, vs, "q").to_fermat_path())
            eff_vs = list(vs)
        else:
            o = Obj(0, [pts[i] for i in ids], vs, [], nmodes)
            ec, fp, msg = call(ray.FermatPath.from_path, o)
            eff_vs = list(vs)[:len(o.modes)]
        got = (ec, items_of(fp, back) if ec == 0 else None)
        lit = f"CFrom {c_sets(cloud)} {clist([cZ(i) for i in ids])} {clist([cfloat(v) for v in eff_vs])} {c_res_items(got)}"
        add(lit, "from_path", {"correspondence": "fp_from_path vs arim.ray.FermatPath.from_path(path) / core.Path.to_fermat_path()",
                               "point_sets": replay_sets(cloud), "interfaces (ids)": list(ids),
                               "velocities material.velocity(mode) over zip(materials, modes)": [float(v) for v in eff_vs],
                               "real core.Path": real, "arim": [ERR[ec], msg, got[1]]}, kind)

    for ids, vs in [([0, 1, 2], [1.0, 2.0]), ([0, 1, 2], [1.0]), ([0, 1, 2], [1.0, 2.0, 3.0, 4.0]), ([0], [1.0]), ([0], []), ([], [1.0]),
                    ([], [])]:
        from_case(cloudA, ptsA, backA, ids, vs, "from_path:fixed")
    for _ in range(36 * scale):
        cloud, _k = gen_cloud(ri(1, 5))
        pts, back = make_points(cloud)
        ids_all = sorted(cloud)
        r = rng.random()
        n = ri(2, 6)
        ids = [pick(ids_all) for _ in range(n)]
        vs = [float(pick(POW2)) for _ in range(n - 1)]
        if r < 0.3:
            from_case(cloud, pts, back, ids, vs, "from_path:real-Path", real=True)
        elif r < 0.55:
            from_case(cloud, pts, back, ids, vs, "from_path:valid")
        else:
            nmodes = None
            f = pick(["short-vs", "long-vs", "no-if", "no-vs", "inf", "nan", "modes-short", "two"])
            if f == "short-vs":
                vs = vs[:ri(0, len(vs) + 1)]
            elif f == "long-vs":
                vs = vs + [float(pick(POW2)) for _ in range(ri(1, 4))]
            elif f == "no-if":
                ids = []
            elif f == "no-vs":
                vs = []
            elif f in ("inf", "nan"):
                vs[ri(0, len(vs))] = float(f)
            elif f == "modes-short":
                nmodes = ri(0, len(vs) + 1)
            else:
                ids = ids[:ri(0, 2)]
                vs = (vs + [float("inf")])[:ri(0, 3)]
            from_case(cloud, pts, back, ids, vs, f"from_path:fault:{f}", nmodes=nmodes)

    # =================================================================================================================
    # 3. the solver object and its dictionary; _solve on the tuple
    # =================================================================================================================
    @guard
    def solve_case(cloud, group, container, k, kind):
        pts, back = make_points(cloud)
        memo = {}
        fps = []
        for lit in group:
            key = (lit[0], tuple(lit[1]))
            if key in memo and chance(0.5):
                fps.append(memo[key])               # the same object again
            else:
                memo[key] = make_fp(pts, lit)       # an equal tuple built separately
                fps.append(memo[key])
        oneshot = container in ("iter", "generator")
        if container == "list":
            arg, order = list(fps), fps
        elif container == "tuple":
            arg, order = tuple(fps), fps
        elif container == "set":
            arg = set(fps)
            order = list(arg)                       # a set is iterated in its own (stable) order
        elif container == "dict-keys":
            arg = {fp: None for fp in fps}.keys()
            order = list(arg)
        elif container == "iter":
            arg, order = iter(list(fps)), fps
        else:
            arg, order = (x for x in fps), fps

        def go():
            solver = ray.FermatSolver(arg)
            res = None
            for _ in range(k):
                res = solver.solve()
            return solver, res
        ec, out, msg = call(go)
        got = []
        if ec == 0:
            solver, res = out
            if len(solver.cached_result) or len(solver.cached_distance) or res is not solver.res:
                ec, msg = 6, "caches not empty after solve() / solve() did not return self.res"
            got = [(lit_of_fp(key, back), rays_obs(val)) for key, val in res.items()]
            for key, val in res.items():
                if val.indices.dtype != np.int32 or val.times.dtype != np.float64 or val.fermat_path != key:
                    ec, msg = 6, "dtype of the answer / fermat_path of the answer"
        order_lits = [lit_of_fp(fp, back) for fp in order]
        lit = (f"CSolve {c_sets(cloud)} {cbool(oneshot)} {clist([c_lit(p) for p in order_lits])} {cZ(k)} {cZ(ec)} "
               f"{clist([cpair(c_lit(p), c_rays_obs(o)) for p, o in got])}")
        add(lit, "solver", {"correspondence": "solver_solve_times k (solver_init it None) + solve_seq (unparse key) vs "
                            "k calls of arim.ray.FermatSolver(paths).solve()",
                            "point_sets": replay_sets(cloud), "paths in iteration order": order_lits, "container": container,
                            "solve() calls": k, "arim": [ERR[ec], msg, got]}, kind)

    p3 = (0, [(1.0, 1), (2.0, 2)])
    p2 = (0, [(1.0, 1)])
    solve_case(dict(cloudA), [p3, lit_reverse(p3), p3, p2], "list", 1, "solver:fixed")
    solve_case(dict(cloudA), [p3, lit_reverse(p3), p3, p2], "list", 2, "solver:fixed")
    solve_case(dict(cloudA), [p3, lit_reverse(p3), p3], "iter", 1, "solver:fixed")
    solve_case(dict(cloudA), [p3, p2], "generator", 2, "solver:fixed")
    solve_case(dict(cloudA), [], "list", 1, "solver:fixed")
    for _ in range(44 * scale):
        cloud, kind = gen_cloud(ri(2, 6))
        group = gen_group(cloud, kind)
        r = rng.random()
        what = "solver:valid"
        if r < 0.12 and group:
            # an empty interior point set: ZeroDivisionError; empty end sets are fine
            lit = pick([p for p in group])
            ids = lit_ids(lit)
            victim = pick(ids)
            cloud[victim] = np.zeros((0, 3))
            what = "solver:empty-set"
        container = pick(["list", "list", "tuple", "set", "dict-keys", "iter", "generator"])
        solve_case(cloud, group, container, pick([1, 1, 2, 3]), f"{what}:{container}")

    # ---- the solver in another index dtype ------------------------------------------------------------------------
    @guard
    def dt_case(cloud, lit, b, kind):
        pts, back = make_points(cloud)
        fp = make_fp(pts, lit)
        ec, R, msg = call(lambda: ray.FermatSolver([fp], dtype_indices=BITS[b]).solve()[fp])
        got = ([], [])
        if ec == 0:
            got = rays_obs(R)
            if R.indices.size and int(R.indices.min()) < 0:
                chk.count(tie_C01="dtype:stored-index-wrapped-negative")
            if R.indices.dtype != BITS[b]:
                ec, msg = 6, f"dtype of indices {R.indices.dtype}"
        lit_c = f"CDt {c_sets(cloud)} {cZ(b)} {c_lit(lit)} {cZ(ec)} {c_rays_obs(got)}"
        add(lit_c, "dtype", {"correspondence": "solve_dt b + make_indices_z b vs arim.ray.FermatSolver([p], dtype_indices=int<b>).solve()[p]",
                             "point_sets": replay_sets(cloud), "path": lit, "bits": b, "arim": [ERR[ec], msg, got]}, kind)

    for _ in range(8 * scale):
        # everything on a line; the big set has its first 128 points far away, so that the minimisers have indices >= 128
        nbig = ri(129, 150) if chance(0.8) else ri(100, 128)
        far = (rng.permutation(128)[:min(128, nbig)] + 1000).astype(float)
        near = rng.integers(-6, 7, size=max(0, nbig - 128)).astype(float)
        big = np.zeros((nbig, 3)); big[:, 0] = np.concatenate([far, near])[:nbig]

        def line(k):
            c = np.zeros((k, 3)); c[:, 0] = rng.integers(-6, 7, size=k); return c
        nlegs = pick([2, 3, 3, 4])
        pos_big = ri(1, nlegs)
        cloud = {i: (big if i == pos_big else line(ri(1, 4))) for i in range(nlegs + 1)}
        lit = (0, [(float(pick(POW2)), i) for i in range(1, nlegs + 1)])
        dt_case(cloud, lit, pick([8, 8, 8, 16, 64]), "dtype:big-interior")
    for _ in range(6 * scale):
        cloud, kind = gen_cloud(ri(2, 5))
        lit = walk(cloud, kind, ri(1, 5))
        if lit_exact(cloud, lit):
            dt_case(cloud, lit, pick([8, 16, 64]), "dtype:small")

    # =================================================================================================================
    # 4. ray_tracing_for_paths / ray_tracing
    # =================================================================================================================
    def wobs_of(ident, R):
        return (ident, rays_obs(R), flags(R.times), flags(R.indices))

    @guard
    def rt_case(cloud, objs_spec, container, fortran, kind):
        """objs_spec: list of (ident, ids, vs); equal ident = the same Python object"""
        pts, back = make_points(cloud)
        log = []
        made = {}
        seq = []
        for ident, ids, vs in objs_spec:
            if ident not in made:
                made[ident] = Obj(ident, [pts[i] for i in ids], [spell(v) if np.isfinite(v) else v for v in vs], log)
            seq.append(made[ident])
        oneshot = container in ("iter", "generator")
        arg = {"list": list(seq), "tuple": tuple(seq), "iter": iter(list(seq)), "generator": (x for x in seq)}[container]
        kw = {} if (not fortran and chance(0.5)) else {"convert_to_fortran_order": fortran}
        ec, out, msg = call(ray.ray_tracing_for_paths, arg, **kw)
        if ec == 0 and out is not None:
            ec, msg = 6, "ray_tracing_for_paths returned a value"
        wl = [wobs_of(i, R) for i, R in log] if ec == 0 else []
        if ec == 0:
            for i, R in log:
                if R.indices.dtype != np.int32 or made[i].rays is None:
                    ec, msg = 6, "dtype of indices"
        first = {}
        for o in objs_spec:
            first.setdefault(o[0], o)
        lit = (f"CRT {c_sets(cloud)} {cbool(oneshot)} {cbool(fortran)} {clist([c_obj(first[o[0]]) for o in objs_spec])} {cZ(ec)} "
               f"{clist([c_wobs(w) for w in wl])}")
        add(lit, "ray_tracing_for_paths", {"correspondence": "ray_tracing_for_paths vs arim.ray.ray_tracing_for_paths(paths, convert_to_fortran_order)",
                                           "point_sets": replay_sets(cloud), "objects (identity, interface ids, velocities)": objs_spec,
                                           "container": container, "convert_to_fortran_order": fortran,
                                           "arim: writes path.rays = (identity, (times, indices), flags(times), flags(indices))": [ERR[ec], msg, wl]}, kind)

    def objs_of_group(group):
        specs = []
        ident = 0
        for lit in group:
            ident += 1
            specs.append((ident, lit_ids(lit), [v for v, _ in lit[1]]))
        # the same object several times
        for _ in range(ri(0, 3)):
            if specs:
                specs.insert(ri(0, len(specs) + 1), pick(specs))
        return specs

    oA = lambda i: (i, [0, 1, 2], [1.0, 2.0])  # noqa: E731
    rt_case(dict(cloudA), [oA(1), oA(2), oA(1), (3, [0, 1], [1.0]), (4, [2, 1, 0], [2.0, 1.0])], "generator", False, "rt:fixed")
    rt_case(dict(cloudA), [oA(1), (3, [0, 1], [1.0]), oA(2)], "list", True, "rt:fixed")
    rt_case(dict(cloudA), [], "list", False, "rt:fixed")
    rt_case(dict(cloudA), [(9, [0], [])], "list", False, "rt:fixed")
    for _ in range(36 * scale):
        cloud, kind = gen_cloud(ri(2, 6))
        group = gen_group(cloud, kind, maxpaths=5)
        specs = objs_of_group(group)
        what = "rt:valid"
        r = rng.random()
        if r < 0.25 and specs:
            f = pick(["no-if", "no-vs", "inf", "nan", "empty-interior", "short-vs"])
            k = ri(0, len(specs))
            ident, ids, vs = specs[k]
            ident = 100 + k
            if f == "no-if":
                ids = []
            elif f == "no-vs":
                vs = []
            elif f in ("inf", "nan"):
                vs = list(vs); vs[ri(0, len(vs))] = float(f)
            elif f == "short-vs":
                vs = list(vs)[:-1]          # zip truncates: another, shorter path (or ValueError)
            else:
                if len(ids) >= 3:
                    victim = ids[ri(1, len(ids) - 1)]
                    new = max(cloud) + 1
                    cloud[new] = np.zeros((0, 3))
                    ids = [new if i == victim else i for i in ids]
            specs[k] = (ident, list(ids), list(vs))
            what = f"rt:fault:{f}"
        rt_case(cloud, specs, pick(["list", "tuple", "iter", "generator"]), chance(0.5), what)

    @guard
    def views_case(cloud, group, nviews, fortran, kind):
        pts, back = make_points(cloud)
        paths = []
        for k, lit in enumerate(group):
            paths.append((k + 1, real_path(pts, lit_ids(lit), [v for v, _ in lit[1]], f"q{k + 1}"), lit))
        views = []
        vz = []
        for k in range(nviews):
            a, b = pick(paths), pick(paths)
            views.append(core.View(a[1], b[1], f"v{k}"))
            vz.append((a[0], b[0]))
        ident = {id(p): (i, lit) for i, p, lit in paths}
        enum = list(set(v.tx_path for v in views) | set(v.rx_path for v in views))     # the expression of ray_tracing
        kw = {} if (not fortran and chance(0.5)) else {"convert_to_fortran_order": fortran}
        arg = views if chance(0.7) else tuple(views)
        ec, out, msg = call(ray.ray_tracing, arg, **kw)
        finals = []
        if ec == 0:
            for p in enum:
                if p.rays is None:
                    ec, msg = 6, "a path of a view has no rays"
                else:
                    finals.append(wobs_of(ident[id(p)][0], p.rays))
            for i, p, lit in paths:
                if id(p) not in {id(q) for q in enum} and p.rays is not None:
                    ec, msg = 6, "a path of no view received rays"
        enum_z = [(ident[id(p)][0], lit_ids(ident[id(p)][1]), [v for v, _ in ident[id(p)][1][1]]) for p in enum]
        lit = (f"CViews {c_sets(cloud)} {cbool(fortran)} {clist([c_obj(o) for o in enum_z])} "
               f"{clist([cpair(cZ(a), cZ(b)) for a, b in vz])} {cZ(ec)} {clist([c_wobs(w) for w in finals])}")
        add(lit, "ray_tracing", {"correspondence": "ray_tracing (enum = the set's iteration order) + last_write + dedup_ids vs "
                                 "arim.ray.ray_tracing(views) on real core.Path / core.View objects",
                                 "point_sets": replay_sets(cloud), "paths of the set, in its order": enum_z, "views (tx, rx)": vz,
                                 "convert_to_fortran_order": fortran, "arim: path.rays of every path": [ERR[ec], msg, finals]}, kind)

    for _ in range(12 * scale):
        cloud, kind = gen_cloud(ri(2, 5))
        group = gen_group(cloud, kind, maxpaths=4)
        if group:
            views_case(cloud, group, ri(1, 5), chance(0.5), "views:valid")

    # =================================================================================================================
    # 5. make_indices, the cast, the order decision
    # =================================================================================================================
    def alloc(values, shape, dtype, lay):
        a = np.zeros(shape, dtype=dtype, order="F" if lay else "C")
        if a.size:
            a[...] = np.asarray(values, dtype=np.int64).reshape(shape).astype(dtype)
        return a

    @guard
    def makeidx_case(b, lay, shape, arg, kind, values=None):
        d, n, m = shape
        if values is None:
            values = rng.integers(-2 ** (b - 1) if chance(0.3) else 0, min(2 ** (b - 1), 300), size=shape)
        X = alloc(values, shape, BITS[b], lay)
        order = [None, pick(["C", "c"]), pick(["F", "f"])][arg]
        if arg == 0 and chance(0.5):
            ec, out, msg = call(ray.Rays.make_indices, X)
        else:
            ec, out, msg = call(ray.Rays.make_indices, X, order=order)
        if ec != 0:
            chk.violation("tie:make_indices", f"Rays.make_indices raised {msg}",
                          {"correspondence": "make_indices_z vs arim.ray.Rays.make_indices", "shape": shape, "bits": b},
                          failing_input_found=False)
            return
        got = out.tolist()
        if out.dtype != BITS[b]:
            got = []
        lit = (f"CMakeIdx {cZ(b)} {cZ(lay)} {cpair(cZ(d), cpair(cZ(n), cZ(m)))} {c_cube(X.tolist())} {cZ(arg)} {c_cube(got)} "
               f"{c_flags(flags(out))}")
        add(lit, "make_indices", {"correspondence": "make_indices_z b n m X + make_indices_order arg lay [d; n; m] vs "
                                  "arim.ray.Rays.make_indices(interior_indices, order)",
                                  "bits": b, "layout of interior_indices": "F" if lay else "C", "shape": list(shape),
                                  "interior_indices": X.tolist(), "order argument": order,
                                  "arim": {"indices": got if len(str(got)) < 3000 else "(large)", "flags (c, f)": flags(out),
                                           "dtype": str(out.dtype)}}, kind)

    for shp in [(0, 2, 3), (1, 2, 3), (2, 1, 3), (1, 1, 3), (1, 3, 1), (3, 1, 1), (1, 1, 1), (2, 3, 0), (2, 2, 2), (2, 1, 1), (1, 2, 2)]:
        for lay, arg in ((1, 0), (0, 0), (0, 2)):
            makeidx_case(32, lay, shp, arg, "make_indices:fixed")
    makeidx_case(32, 0, (1, 2, 2), 0, "make_indices:fixed", values=[[[0, 0], [1, 1]]])
    makeidx_case(8, 0, (0, 200, 1), 0, "make_indices:fixed")
    for _ in range(30 * scale):
        b = pick([8, 8, 16, 32, 64])
        r = rng.random()
        if r < 0.2:
            shp = (ri(0, 3), ri(120, 260) if chance(0.5) else ri(1, 3), 1)
            shp = shp if chance(0.5) else (shp[0], shp[2], shp[1])
            kind = "make_indices:overflow-range"
        elif r < 0.5:
            shp = (ri(0, 4), pick([0, 1, 1, 2]), pick([0, 1, 1, 3]))
            kind = "make_indices:degenerate"
        else:
            shp = (ri(0, 4), ri(1, 5), ri(1, 5))
            kind = "make_indices:random"
        makeidx_case(b, ri(0, 2), shp, pick([0, 0, 1, 2]), kind)

    def store_case(b, zs, kind):
        got = np.array(zs, dtype=np.int64).astype(BITS[b]).tolist()
        add(f"CStore {cZ(b)} {clist([cZ(z) for z in zs])} {clist([cZ(z) for z in got])}", "cast",
            {"correspondence": "wrap b vs numpy cast int64 -> int<b>", "bits": b, "values": zs, "numpy": got}, kind)

    store_case(8, [0, 127, 128, 130, 150, 255, 256], "cast:fixed")
    store_case(16, [40000], "cast:fixed")
    store_case(32, [40000], "cast:fixed")
    for _ in range(8 * scale):
        b = pick([8, 16, 32, 64])
        zs = [int(z) for z in rng.integers(-2 ** 40, 2 ** 40, size=4)] + [int(z) for z in rng.integers(-300, 300, size=4)]
        zs += [2 ** (b - 1) - 1, 2 ** (b - 1), -2 ** (b - 1), -2 ** (b - 1) - 1][:4 if b < 64 else 1]
        store_case(b, zs, "cast:random")

    # =================================================================================================================
    # 6. the Rays object
    # =================================================================================================================
    def robs_of(R):
        t, ix = R.times, R.indices
        return (tuple(int(x) for x in t.shape), t.tolist(), flags(t), ix.tolist(), flags(ix), ix.dtype.itemsize * 8)

    @guard
    def rays_case(cloud, seq_ids, vs, two, tshape, shape, b, tlay, ilay, arg, kind, end_number=None, values=None):
        pts, back = make_points(cloud)
        seq = [pts[seq_ids[0]]]
        for v, i in zip(vs, seq_ids[1:]):
            seq += [float(v), pts[i]]
        if end_number is not None:
            seq[end_number] = 1.5
        fp = ray.FermatPath(tuple(seq))
        sizes = [len(cloud[i]) for i in seq_ids]
        d, n, m = shape
        times = np.zeros(tshape, order="F" if tlay else "C")
        if times.size:
            times[...] = rng.integers(0, 64, size=tshape) * 0.25
        if values is None:
            values = np.zeros(shape, dtype=np.int64)
            for k in range(d):
                sz = sizes[k + 1] if k + 1 < len(sizes) - 1 else 3
                r = rng.random()
                if r < 0.7:
                    values[k] = rng.integers(0, max(1, sz), size=(n, m))
                elif r < 0.85:
                    values[k] = rng.integers(-sz - 1, sz + 1, size=(n, m))      # negative (wrap) and just out of range
                else:
                    values[k] = rng.integers(-100, 100, size=(n, m))
        X = alloc(values, shape, BITS[b], ilay)
        order = [None, pick(["C", "c"]), pick(["F", "f"])][arg]
        if two:
            ec, R, msg = call(ray.Rays.make_rays_two_interfaces, times, fp, BITS[b])
        elif arg == 0 and chance(0.5):
            ec, R, msg = call(ray.Rays, times, X, fp)
        else:
            ec, R, msg = call(ray.Rays, times, X, fp, order)
        got = (ec, robs_of(R) if ec == 0 else None)
        rvf = rvc = tof = (0, None)
        ext = []
        coords = []
        detail = {}
        if ec == 0:
            def rop(f, *a):
                e, r, mm = call(f, *a)
                detail[f.__name__ + str(a)] = [ERR[e], mm]
                return (e, (robs_of(r), items_of(r.fermat_path, back)) if e == 0 else None)
            rvf = rop(R.reverse) if chance(0.5) else rop(R.reverse, pick(["f", "F"]))
            rvc = rop(R.reverse, pick(["c", "C"]))
            tof = rop(R.to_fortran_order)
            ext = R.gone_through_extreme_points().tolist()
            for k in range(len(seq_ids)):
                e, xyz, mm = call(lambda: next(R.get_coordinates(k)))
                if e == 0:
                    x, y, z = xyz
                    coords.append((0, [[(float(x[i, j]), float(y[i, j]), float(z[i, j])) for j in range(x.shape[1])]
                                       for i in range(x.shape[0])]))
                else:
                    coords.append((e, []))
        s_items = items_of(fp, back)
        c_coords = clist([cpair(cZ(e), clist([clist([cpair(cfloat(p[0]), cfloat(p[1]), cfloat(p[2])) for p in row]) for row in t]))
                          for e, t in coords])
        lit = (f"CRays {c_sets(cloud)} {c_items(s_items)} {cbool(two)} {cpair(cZ(tshape[0]), cZ(tshape[1]))} {c_ftab(times.tolist())} "
               f"{cZ(tlay)} {cpair(cZ(d), cpair(cZ(n), cZ(m)))} {c_cube(X.tolist())} {cZ(ilay)} {cZ(b)} {cZ(arg)} "
               f"{cpair(cZ(got[0]), c_robs(got[1]))} {c_res_rop(rvf)} {c_res_rop(rvc)} {c_res_rop(tof)} "
               f"{clist([clist([cbool(x) for x in row]) for row in ext])} {c_coords}")
        add(lit, "rays", {"correspondence": "rays_init / make_rays_two_interfaces / rays_obj_reverse / rays_obj_to_fortran / "
                          "gone_through_extreme_points / get_coordinates vs arim.ray.Rays(times, interior_indices, path, order), "
                          "Rays.make_rays_two_interfaces, .reverse(order), .to_fortran_order(), .gone_through_extreme_points(), "
                          ".get_coordinates(k)",
                          "point_sets": replay_sets(cloud), "fermat_path": [list(map(str, x)) for x in s_items],
                          "make_rays_two_interfaces": two, "times.shape": list(tshape), "times": times.tolist(),
                          "times layout": "F" if tlay else "C", "interior_indices.shape": list(shape), "interior_indices": X.tolist(),
                          "interior layout": "F" if ilay else "C", "bits": b, "order argument": order,
                          "arim": {"constructor": [ERR[ec], msg, got[1]], "reverse('f')": rvf, "reverse('c')": rvc,
                                   "to_fortran_order": tof, "gone_through_extreme_points": ext,
                                   "get_coordinates(k) (error kind, points)": coords, "errors": detail}}, kind)

    rays_case(dict(cloudA), [0, 1, 2], [1.0, 2.0], False, (2, 2), (1, 2, 2), 32, 0, 0, 0, "rays:fixed", values=[[[0, 0], [1, 1]]])
    rays_case(dict(cloudA), [0, 1], [1.0], True, (2, 3), (0, 2, 3), 32, 0, 0, 0, "rays:fixed")
    rays_case(dict(cloudA), [0, 1, 2], [1.0, 2.0], False, (2, 2), (1, 2, 3), 32, 0, 0, 0, "rays:fixed")
    rays_case(dict(cloudA), [0, 1, 2], [1.0, 2.0], False, (2, 2), (0, 2, 2), 32, 0, 0, 0, "rays:fixed")
    rays_case(dict(cloudA), [0, 1, 2], [1.0, 2.0], True, (2, 2), (0, 2, 2), 32, 0, 0, 0, "rays:fixed")
    for _ in range(64 * scale):
        nsets = ri(2, 6)
        cloud, _k = gen_cloud(nsets, maxsize=4)
        if chance(0.15):
            cloud[pick(sorted(cloud))] = np.zeros((0, 3))
        seq_ids = [pick(sorted(cloud)) for _ in range(ri(2, 6))]
        vs = [float(pick(POW2)) for _ in seq_ids[1:]]
        sizes = [len(cloud[i]) for i in seq_ids]
        d, n, m = len(seq_ids) - 2, sizes[0], sizes[-1]
        tshape = (n, m)
        two = (d == 0 and chance(0.6))
        kind = "rays:valid"
        end_number = None
        r = rng.random()
        if r > 0.6:
            faults = 2 if r > 0.9 else 1
            kind = f"rays:{faults}-fault"
            for _f in range(faults):
                f = pick(["d", "n", "m", "tshape", "two-on-long", "end-number"])
                if f == "end-number":
                    end_number = pick([0, -1])
                elif f == "d":
                    d = max(0, d + pick([-1, 1, 2]))
                elif f == "n":
                    n = max(0, n + pick([-1, 1]))
                elif f == "m":
                    m = max(0, m + pick([-1, 1]))
                elif f == "tshape":
                    tshape = (max(0, tshape[0] + pick([-1, 0, 1])), max(0, tshape[1] + pick([-1, 1])))
                else:
                    two = True
        if end_number is not None and tuple(tshape) != (n, m) and not two:
            # a number at an end of the FermatPath AND times.shape != interior_indices.shape[1:]: Rays.__init__
            # (ray.py:296-300, a chained comparison) raises AssertionError before len(points[0]) is evaluated; rays_init
            # compares the two shapes first as well (generated and compared like every other case)
            chk.count(tie_C01="rays:end-number+shape")
        rays_case(cloud, seq_ids, vs, two, tshape, (d, n, m), pick([8, 16, 32, 32, 64]), ri(0, 2), ri(0, 2), pick([0, 0, 1, 2]), kind,
                  end_number=end_number)

    # =================================================================================================================
    # the model's answers, computed by Coq now
    # =================================================================================================================
    lits = ["(" + c[0] + ")" for c in cases]
    bad = chk.coq_failing("tie_C01", PRELUDE, "tcase", lits, "check", shard=150, jobs=8)
    for i in bad[:12]:
        lit, key, replay = cases[i]
        replay = dict(replay)
        replay["model"] = "Model/FermatGlue.v evaluated by vm_compute on this input (Definition check of harness/ties/tie_C01.py) disagrees"
        chk.violation(f"tie:{key}", f"the model of FermatGlue.v and arim.ray disagree ({key}): {replay['correspondence'][:150]}",
                      replay, failing_input_found=False)
    if len(bad) > 12:
        chk.violation("tie:more", f"{len(bad) - 12} further disagreements between Model/FermatGlue.v and arim.ray",
                      {"correspondence": "see the first reports", "indices": bad[12:60]}, failing_input_found=False)
    gc.unfreeze()
    chk.cov["tie_C01"] = {"cases": len(cases), "disagreements": len(bad), "wall_s": round(time.time() - t_start, 1)}
    return len(cases)
