"""Tie of the new C19 model (coq/theories/Model/RegistrationGlue.v) to the real library, evaluated on every run of the check.

    run(chk, arim, rng, quick) -> number of comparisons

Every case = one concrete input run on REAL arim objects (Probe, Frame, Time, Material) through the public API, and the model's
answer computed by `vm_compute` inside coqc on the very same input (binary64 instance NumF; inputs dyadic, so that every
operation of both sides is exact or one correctly rounded operation in the same place).  Discrete observables (flags, index
vectors, window bounds, error kinds and their precedence, the state of the probe after an exception) are compared exactly,
floats with PrimFloat.eqb (bit for bit up to the sign of zero).

Ties (model function vs arim call):
  init_dead (dead_arg, truthy)        vs  arim.Probe(locations, frequency, dead_elements=...).dead_elements (AssertionError = None)
  dead_indices / mask_positions       vs  np.asarray(range(n))[probe.dead_elements]               (measurement.py:138)
  fancy_indices                       vs  np.asarray(range(n))[integer array]                      (contrast of the note)
  fmc_pairs / hmc_pairs               vs  arim.ut.fmc(n) / arim.ut.hmc(n)
  fit_pose (pe_mask, any_eq, mask_clear, count_true, bmask, cs_of) and
  move_probe_obj (MvRaised / MvOk)    vs  arim.measurement.move_probe_over_flat_surface(frame, distances, full_output=True)
                                          on real Frame / Probe objects: error kind and precedence, z_o, theta, the probe
                                          (locations, orientations, pcs) after the call - also after an exception
  argmax_np                           vs  np.argmax on a float vector (NaN, inf, signed zeros, ties)
  detect_surface_np (nabs / cabs), detect_trace_np, time_samples
                                      vs  arim.measurement.detect_surface_from_extrema(frame, tmin, tmax) on real / complex /
                                          integer / float32 timetraces; frame.time.samples
  window (ss_left / ss_right)         vs  arim.Time(start, step, num).window(tmin, tmax, endpoint_left, endpoint_right)
  closest_index                       vs  arim.Time.closest_index(t)
  frontwall_obj (FwOk / FwRaised / FwCsRaised)
                                      vs  arim.measurement.find_probe_loc_from_frontwall(frame, couplant, tmin, tmax) on a
                                          probe in any pose: returned tuple, probe after the call, probe after an exception

Oracles.  numpy.polyfit is an oracle of the model (`fit` is a function argument).  During the library call numpy.polyfit is
wrapped by a recorder (the real polyfit still computes the answer); in Coq `fit` is
`fun xs ds => if xs, ds are bit for bit the recorded arguments then the recorded answer else (nan, nan)`: the model must hand
the oracle exactly the abscissae and distances the library handed to polyfit (this pins the pulse-echo mask, the dead-element
index vector, the negative-index wrap of frame.tx, convert_from_gcs and the order).  The closed form `fit_line NumF` is also
compared with the recorded polyfit answer (tolerance computed in Python from the data, comparison done in Coq).
NumF has no libm: the model runs on `NumA p1 th c s` = NumF whose arcsin answers th at p1 (p1 = recorded slope, th = theta
returned by the library) and whose sin / cos answer s / c at th (computed by numpy as geometry.rotation_matrix_y does), nan
anywhere else.  With theta = 0 or with every rotated vector having x = 0 or z = 0 each sum of the rotation has one non-zero
product: compared bit for bit; otherwise (rare) with the tolerance 2^-40 x extent.

Not tied here (the model is silent or deliberately different; see the final report of the tie task):
  * NaN as tmin / tmax / closest_index argument (numpy sorts NaN last; ss_left / ss_right count nothing);
  * complex samples with an infinite part (np.abs is hypot: hypot(inf, nan) = inf, cabs gives nan);
  * NaN distances on usable pulse-echo timetraces (polyfit raises LinAlgError; no such outcome in the model);
  * dead-element flags stored as an INTEGER array on the probe after construction (fancy indexing: fancy_indices only).

Boolean vectors stored as probe.dead_elements after construction (Probe.__init__ asserts the shape, an assignment does not):
numpy accepts np.asarray(range(n))[flags] for flags of length n and ALSO for the EMPTY boolean vector on a probe of any size
(nothing selected: no dead element); every other length is an IndexError.  dead_indices follows that rule; it is tied
directly (kind "deadidx": every length from 0 to 2 n + 1) and through move_probe_over_flat_surface /
find_probe_loc_from_frontwall with the empty vector assigned to a non-empty probe (counted in tie_C19_dead_vector).
"""
import json
import linecache
import math
import traceback

import numpy as np

from common import cZ, cfloat, clist, cpair, cbool, copt

CORR = {
    "dead": "init_dead / dead_indices vs arim.Probe(..., dead_elements=...).dead_elements and np.asarray(range(n))[flags]",
    "deadidx": "dead_indices vs np.asarray(range(n))[boolean vector of any length]",
    "fancy": "fancy_indices vs np.asarray(range(n))[integer array]",
    "pairs": "fmc_pairs / hmc_pairs vs arim.ut.fmc / arim.ut.hmc",
    "move": "fit_pose / move_probe_obj vs arim.measurement.move_probe_over_flat_surface(frame, distances, full_output=True)",
    "argmax": "argmax_np vs numpy.argmax",
    "detect": "detect_surface_np / time_samples vs arim.measurement.detect_surface_from_extrema / Time.samples",
    "window": "window vs arim.Time.window",
    "closest": "closest_index vs arim.Time.closest_index",
    "front": "frontwall_obj vs arim.measurement.find_probe_loc_from_frontwall",
}

PREAMBLE = r"""
From Coq Require Import ZArith List Bool PrimFloat.
From Arim Require Import Base.Num Base.NumF Base.ListX Model.Vec3 Model.Probe Model.Registration Model.RegistrationGlue.
Import ListNotations.
Open Scope bool_scope.

(* NumF whose arcsin is known at ONE argument and whose sin / cos are known at ONE argument (nan elsewhere) *)
Definition NumA (p1 th c s : float) : Num float := {|
  n0 := n0 NumF; n1 := n1 NumF; nadd := nadd NumF; nsub := nsub NumF; nmul := nmul NumF; ndiv := ndiv NumF;
  nopp := nopp NumF; nsqrt := nsqrt NumF;
  nsin := fun x => if PrimFloat.eqb x th then s else nan;
  ncos := fun x => if PrimFloat.eqb x th then c else nan;
  nasin := fun x => if PrimFloat.eqb x p1 then th else nan;
  nacos := nacos NumF; natan2 := natan2 NumF; nexp := nexp NumF; nln := nln NumF; npi := npi NumF;
  nltb := nltb NumF; nleb := nleb NumF; neqb := neqb NumF; nofZ := nofZ NumF;
  nfloor := nfloor NumF; ntrunc := ntrunc NumF; nround := nround NumF |}.

Definition fz : float := PrimFloat.zero.
Definition feq (a b : float) : bool := PrimFloat.eqb a b.
(* |a - b| <= tol; tol = 0: IEEE equality (false on nan) *)
Definition ftol (tol a b : float) : bool := PrimFloat.leb (PrimFloat.abs (PrimFloat.sub a b)) tol.
Definition veq (tol : float) (a b : vec3 float) : bool :=
  ftol tol (Vec3.vx a) (Vec3.vx b) && ftol tol (Vec3.vy a) (Vec3.vy b) && ftol tol (Vec3.vz a) (Vec3.vz b).
Definition cseq (tol : float) (a b : csys (T:=float)) : bool :=
  veq tol (cs_o a) (cs_o b) && veq tol (cs_i a) (cs_i b) && veq tol (cs_j a) (cs_j b).
Definition coreeq (tol : float) (a b : probe (T:=float)) : bool :=
  list_eqb (veq tol) (p_locs a) (p_locs b) && option_eqb (list_eqb (veq tol)) (p_oris a) (p_oris b) &&
  cseq tol (p_pcs a) (p_pcs b).

(* the call of numpy.polyfit recorded during the library call: (abscissae, distances, slope, intercept) *)
Definition polyrec : Type := option (list float * list float * float * float).
Definition fit_rec (r : polyrec) (xs ds : list float) : float * float :=
  match r with
  | Some (xr, dr, p1, p0) => if list_eqb feq xs xr && list_eqb feq ds dr then (p1, p0) else (nan, nan)
  | None => (nan, nan)
  end.
Definition rec_p1 (r : polyrec) : float := match r with Some (_, _, p1, _) => p1 | None => nan end.
(* closed-form least squares (Model/Registration.v fit_line) against the recorded answer of polyfit *)
Definition closed_form_ok (ctol : float) (r : polyrec) : bool :=
  match r with
  | Some (xr, dr, p1, p0) => let f := fit_line NumF xr dr in ftol ctol (fst f) p1 && ftol ctol (snd f) p0
  | None => true
  end.

Inductive mwant : Type := WErr (code : Z) | WOk (z th : float).
Definition pose_ok (r : reg_error + float * float) (w : mwant) : bool :=
  match r, w with
  | inl e, WErr c => Z.eqb (reg_error_code e) c
  | inr (z, t), WOk z' t' => feq z z' && feq t t'
  | _, _ => false
  end.
Definition mv_ok (tol : float) (r : mv_outcome (T:=float)) (w : mwant) (before after : probe (T:=float)) : bool :=
  match r, w with
  | MvRaised e, WErr c => Z.eqb (reg_error_code e) c && coreeq fz before after
  | MvOk q z t, WOk z' t' => coreeq tol q after && feq z z' && feq t t'
  | _, _ => false
  end.

Inductive trows : Type := RReal (l : list (list float)) | RCplx (l : list (list (float * float))).
Inductive fwant : Type := FErr (code : Z) | FOk (z th : float) (times : list float) | FCs.
Definition run_front (N : Num float) (r : polyrec) (p : probe (T:=float)) (dead : list bool) (start step : float) (num : Z)
    (rows : trows) (tx rx : list Z) (c : float) (tmin tmax : option float) : fw_outcome (T:=float) :=
  match rows with
  | RReal l => frontwall_obj N (nabs N) (fit_rec r) p dead start step num l tx rx c tmin tmax
  | RCplx l => frontwall_obj N (cabs N) (fit_rec r) p dead start step num l tx rx c tmin tmax
  end.
Definition fw_ok (tol : float) (r : fw_outcome (T:=float)) (w : fwant) (after : probe (T:=float)) : bool :=
  match r, w with
  | FwRaised q e, FErr c => Z.eqb (reg_error_code e) c && coreeq fz q after
  | FwOk q z t times, FOk z' t' times' => coreeq tol q after && feq z z' && feq t t' && list_eqb feq times times'
  | FwCsRaised _, FCs => true
  | _, _ => false
  end.
Definition run_detect (start step : float) (num : Z) (rows : trows) (tmin tmax : option float) : option (list float) :=
  match rows with
  | RReal l => detect_surface_np NumF (nabs NumF) (time_samples NumF start step num) l tmin tmax
  | RCplx l => detect_surface_np NumF (cabs NumF) (time_samples NumF start step num) l tmin tmax
  end.
Definition zwin (w : nat * nat) : Z * Z := (Z.of_nat (fst w), Z.of_nat (snd w)).
Definition zpairs_eqb (a b : list (Z * Z)) : bool := list_eqb zpair_eqb a b.

Inductive tcase : Type :=
| TDead (n : Z) (a : dead_arg) (want : option (list bool)) (idx : list Z)
| TDeadIdx (n : Z) (fl : list bool) (want : option (list Z))
| TFancy (n : Z) (ints : list Z) (want : option (list Z))
| TPairs (n : Z) (fmc hmc : list (Z * Z))
| TMove (p : probe (T:=float)) (dead : list bool) (tx rx : list Z) (ds : list float) (r : polyrec)
        (th c s tol ctol : float) (want : mwant) (after : probe (T:=float))
| TArgmax (l : list float) (want : option Z)
| TDetect (start step : float) (num : Z) (rows : trows) (tmin tmax : option float) (smp : list float)
          (want : option (list float))
| TWindow (start step : float) (num : Z) (tmin tmax : option float) (endl endr : bool) (want : Z * Z)
| TClosest (start step : float) (num : Z) (t : float) (want : option Z)
| TFront (p : probe (T:=float)) (dead : list bool) (start step : float) (num : Z) (rows : trows) (tx rx : list Z)
         (c : float) (tmin tmax : option float) (r : polyrec) (th cs sn tol ctol : float) (want : fwant)
         (after : option (probe (T:=float))).

Definition m_move (p : probe (T:=float)) (dead : list bool) (tx rx : list Z) (ds : list float) (r : polyrec)
    (th c s : float) : mv_outcome (T:=float) :=
  let N := NumA (rec_p1 r) th c s in move_probe_obj N (fit_rec r) p dead tx rx ds.
Definition m_pose (p : probe (T:=float)) (dead : list bool) (tx rx : list Z) (ds : list float) (r : polyrec)
    (th c s : float) : reg_error + float * float :=
  let N := NumA (rec_p1 r) th c s in fit_pose N (fit_rec r) (cs_of (p_pcs p)) tx rx dead (p_locs p) ds.
Definition m_front (p : probe (T:=float)) (dead : list bool) (start step : float) (num : Z) (rows : trows) (tx rx : list Z)
    (c : float) (tmin tmax : option float) (r : polyrec) (th cs sn : float) : fw_outcome (T:=float) :=
  run_front (NumA (rec_p1 r) th cs sn) r p dead start step num rows tx rx c tmin tmax.

Definition check_case (t : tcase) : bool :=
  match t with
  | TDead n a want idx =>
      option_eqb (list_eqb Bool.eqb) (init_dead (Z.to_nat n) a) want &&
      match want with
      | Some fl => option_eqb (list_eqb Z.eqb) (dead_indices (Z.to_nat n) fl) (Some idx) &&
                   list_eqb Z.eqb (mask_positions 0%Z fl) idx
      | None => true
      end
  | TDeadIdx n fl want => option_eqb (list_eqb Z.eqb) (dead_indices (Z.to_nat n) fl) want
  | TFancy n ints want => option_eqb (list_eqb Z.eqb) (fancy_indices (Z.to_nat n) ints) want
  | TPairs n f h => zpairs_eqb (fmc_pairs (Z.to_nat n)) f && zpairs_eqb (hmc_pairs (Z.to_nat n)) h
  | TMove p dead tx rx ds r th c s tol ctol want after =>
      mv_ok tol (m_move p dead tx rx ds r th c s) want p after &&
      pose_ok (m_pose p dead tx rx ds r th c s) want && closed_form_ok ctol r
  | TArgmax l want => option_eqb Z.eqb (option_map Z.of_nat (argmax_np NumF l)) want
  | TDetect start step num rows tmin tmax smp want =>
      list_eqb feq (time_samples NumF start step num) smp &&
      option_eqb (list_eqb feq) (run_detect start step num rows tmin tmax) want
  | TWindow start step num tmin tmax endl endr want =>
      zpair_eqb (zwin (window NumF (time_samples NumF start step num) tmin tmax endl endr)) want
  | TClosest start step num t want =>
      option_eqb Z.eqb (option_map Z.of_nat (closest_index NumF (time_samples NumF start step num) t)) want
  | TFront p dead start step num rows tx rx c tmin tmax r th cs sn tol ctol want after =>
      match after with
      | Some q => fw_ok tol (m_front p dead start step num rows tx rx c tmin tmax r th cs sn) want q
      | None => match m_front p dead start step num rows tx rx c tmin tmax r th cs sn, want with
                | FwCsRaised _, FCs => true | _, _ => false end
      end && closed_form_ok ctol r
  end.
"""

ERRORS = (ValueError, IndexError, TypeError, AssertionError, NotImplementedError, RuntimeError, KeyError,
          AttributeError, ZeroDivisionError, FloatingPointError, np.linalg.LinAlgError)
NAN = float("nan")
INF = float("inf")


# ---------------------------------------------------------------------------------------------------------------
# Coq literals
# ---------------------------------------------------------------------------------------------------------------
def cv(v):
    return cpair(*[cfloat(x) for x in v])


def cvl(vs):
    return clist([cv(v) for v in vs])


def cfl(xs):
    return clist([cfloat(x) for x in xs])


def czl(xs):
    return clist([cZ(x) for x in xs])


def cbl(xs):
    return clist([cbool(x) for x in xs])


def ccs(cs):
    return f"(mkCS {cv(cs[0])} {cv(cs[1])} {cv(cs[2])})"


def ccore(o):
    return f"(mkProbe {cvl(o['locs'])} {copt(o['oris'], cvl)} {ccs(o['pcs'])})"


def crec(r):
    if r is None:
        return "None"
    return f"(Some ({cfl(r['xs'])}, {cfl(r['ds'])}, {cfloat(r['p1'])}, {cfloat(r['p0'])}))"


def crows(rows, cplx):
    if cplx:
        return "(RCplx " + clist([clist([cpair(cfloat(z.real), cfloat(z.imag)) for z in r]) for r in rows]) + ")"
    return "(RReal " + clist([cfl(r) for r in rows]) + ")"


def cdead_arg(a):
    if a is None:
        return "DeadNone"
    if a[0] == "scalar":
        return f"(DeadScalar {cZ(a[1])})"
    return f"(DeadEach {czl(a[1])})"


def js(x):
    """JSON-able copy"""
    if isinstance(x, dict):
        return {k: js(v) for k, v in x.items()}
    if isinstance(x, (list, tuple)):
        return [js(v) for v in x]
    if isinstance(x, np.ndarray):
        return js(x.tolist())
    if isinstance(x, (np.integer,)):
        return int(x)
    if isinstance(x, (np.floating,)):
        return float(x)
    if isinstance(x, (np.bool_,)):
        return bool(x)
    if isinstance(x, (complex, np.complexfloating)):
        return [float(x.real), float(x.imag)]
    return x


# ---------------------------------------------------------------------------------------------------------------
# observation of real objects
# ---------------------------------------------------------------------------------------------------------------
def rows3(a):
    a = np.asarray(a, float)
    assert a.ndim == 2 and a.shape[1] == 3, a.shape
    return [[float(x) for x in r] for r in a]


def obs_cs(cs):
    o, i, j = (np.asarray(v, float) for v in (cs.origin, cs.i_hat, cs.j_hat))
    assert o.shape == i.shape == j.shape == (3,)
    return [[float(x) for x in o], [float(x) for x in i], [float(x) for x in j]]


def obs_core(p):
    return {"locs": rows3(p.locations.coords),
            "oris": None if p.orientations is None else rows3(p.orientations.coords),
            "pcs": obs_cs(p.pcs)}


def error_site(exc):
    """source text of the innermost statement of arim.measurement on the traceback of `exc`"""
    text = ""
    for fs in traceback.extract_tb(exc.__traceback__):
        if fs.filename.replace("\\", "/").endswith("arim/measurement.py"):
            text = (fs.line or linecache.getline(fs.filename, fs.lineno) or "").strip()
    return text


def classify(exc):
    """exception of the implementation -> error code of the model (reg_error_code), or a string when there is none"""
    name, msg = type(exc).__name__, str(exc)
    if name == "ValueError":
        for code, frag in ((1, "PCS and the GCS"), (2, "at least 2 pulse echo"), (4, "Negative distance"), (9, "empty sequence")):
            if frag in msg:
                return code
    if name == "NotImplementedError" and "linear points1" in msg:
        return 5
    if name == "AssertionError":
        return 7
    if name == "RuntimeError" and "no solution" in msg:
        return 8
    if name == "IndexError":
        site = error_site(exc)
        if "out of bounds" in msg:
            return 6
        if "boolean index" in msg:
            # the same numpy message at two statements: the dead-element flags (E_Index) / the distances (E_Shape)
            if "distance_to_surface" in site:
                return 3
            if "dead_elements" in site:
                return 6
            return f"IndexError at an unexpected statement `{site}`: {msg[:80]}"
    return f"{name}: {msg[:100]}"


class PolyfitRecorder:
    """numpy.polyfit wrapped for the duration of one library call: the real polyfit answers, the call is recorded"""

    def __enter__(self):
        self.calls = []
        self.orig = np.polyfit

        def wrapped(x, y, deg, *a, **kw):
            out = self.orig(x, y, deg, *a, **kw)
            self.calls.append({"xs": [float(v) for v in np.asarray(x, float).ravel()],
                               "ds": [float(v) for v in np.asarray(y, float).ravel()],
                               "deg": int(deg), "extra": bool(a or kw), "out": [float(v) for v in np.asarray(out).ravel()]})
            return out

        np.polyfit = wrapped
        return self

    def __exit__(self, *exc):
        np.polyfit = self.orig
        return False

    def record(self):
        """-> (polyrec dict | None, problem | None)"""
        if not self.calls:
            return None, None
        c = self.calls[0]
        if len(self.calls) != 1 or c["deg"] != 1 or c["extra"] or len(c["out"]) != 2:
            return None, f"numpy.polyfit was called {len(self.calls)} times / not as polyfit(x, d, 1): {self.calls[:2]}"
        return {"xs": c["xs"], "ds": c["ds"], "p1": c["out"][0], "p0": c["out"][1]}, None


# ---------------------------------------------------------------------------------------------------------------
# generators of numbers
# ---------------------------------------------------------------------------------------------------------------
def dy(rng, bits=4, span=8):
    return float(rng.integers(-span * 2 ** bits, span * 2 ** bits + 1)) / 2 ** bits


def nz(f):
    while True:
        x = f()
        if x != 0:
            return x


CUBE = []
for _perm in ((0, 1, 2), (0, 2, 1), (1, 0, 2), (1, 2, 0), (2, 0, 1), (2, 1, 0)):
    for _sx in (1, -1):
        for _sy in (1, -1):
            for _sz in (1, -1):
                _M = np.zeros((3, 3))
                for _r, (_c, _s) in enumerate(zip(_perm, (_sx, _sy, _sz))):
                    _M[_r, _c] = _s
                if round(np.linalg.det(_M)) == 1:
                    CUBE.append(_M)

GCS3 = [[0.0, 0.0, 0.0], [1.0, 0.0, 0.0], [0.0, 1.0, 0.0]]


def rot_exact(vectors):
    """every vector has x = 0 or z = 0: each sum of a rotation about Oy has at most one non-zero product"""
    return all(v[0] == 0 or v[2] == 0 for v in vectors)


def layout(rng, n, kind):
    if kind == "fmc":
        pairs = [(t, r) for t in range(n) for r in range(n)]
    elif kind == "hmc":
        pairs = [(t, r) for t in range(n) for r in range(t, n)]
    elif kind == "pe":
        pairs = [(t, t) for t in range(n)]
    else:
        pairs = [(t, r) for t in range(n) for r in range(n) if (t == r and rng.random() < 0.85) or
                 (t != r and rng.random() < min(1.0, 4.0 / n))]
        if not pairs:
            pairs = [(0, 0)]
    if rng.random() < 0.6:
        pairs = [pairs[k] for k in rng.permutation(len(pairs))]
    return pairs


def dead_value_spelling(rng, b):
    """one flag as a value of np.asarray(., dtype=bool): -> (python value, integer code of the model)"""
    if b:
        v = [True, 1, 255, -1, 2, 2.5, -0.5, NAN, np.True_, np.uint8(7)][int(rng.integers(10))]
    else:
        v = [False, 0, 0.0, -0.0, np.False_, np.int64(0)][int(rng.integers(6))]
    if isinstance(v, (bool, np.bool_)):
        code = int(bool(v))
    elif isinstance(v, (int, np.integer)):
        code = int(v)
    else:
        code = 0 if v == 0.0 else (3 if v != v else (1 if v > 0 else -1))
    return v, code


# ---------------------------------------------------------------------------------------------------------------
class Tie:
    def __init__(self, chk, arim, rng, quick):
        import arim.geometry as g
        import arim.measurement as meas
        self.chk, self.arim, self.rng, self.quick = chk, arim, rng, quick
        self.g, self.meas = g, meas
        self.cases = []      # (kind, literal, replay dict, model expression)
        self.direct = 0      # comparisons decided on the Python side (identity of returned objects, error kinds ...)
        self.reported = {}
        # complex sample values whose modulus numpy computes (hypot) exactly as sqrt(re*re + im*im): calibration of the
        # generator on this platform, so that ties of |value| are ties on both sides
        vals = [complex(a, b) for a in range(-8, 9) for b in range(-8, 9)]
        vals += [complex(a / 4, b / 4) for a in range(-6, 7) for b in range(-6, 7)]
        mod = np.abs(np.array(vals, dtype=complex))
        self.cvals = [z for z, m in zip(vals, mod) if float(m) == math.sqrt(z.real * z.real + z.imag * z.imag)]
        self.exam = arim.ExaminationObject(arim.Material(1.0))

    def add(self, kind, sub, lit, replay, model):
        self.chk.count(tie_C19=f"{kind}:{sub}")
        self.cases.append((kind, lit, replay, model))

    def bad(self, key, what, replay, kind):
        self.reported[key] = self.reported.get(key, 0) + 1
        self.chk.count(tie_C19_disagreement=key)
        if self.reported[key] > 3:
            return
        replay = dict(js(replay), correspondence=CORR[kind])
        self.chk.violation("tie:" + key, what, replay, failing_input_found=False)

    # -- Probe.__init__(dead_elements=...) ------------------------------------------------------------------------------
    def points(self, n):
        coords = np.zeros((n, 3))
        coords[:, 0] = np.arange(n)
        return self.g.Points(coords)

    def dead_case(self, n, arg, value, sub):
        """arg: model encoding (None | ['scalar', z] | ['each', [z]]); value: what is passed to arim.Probe"""
        arim = self.arim
        err = None
        try:
            if arg is None and value == "absent":
                p = arim.Probe(self.points(n), 1e6)
            else:
                p = arim.Probe(self.points(n), 1e6, dead_elements=value)
            flags = np.asarray(p.dead_elements)
            idx = np.asarray(range(n))[p.dead_elements]
        except ERRORS as e:
            err, flags, idx = e, None, None
        replay = {"numelements": n, "dead_elements_argument": repr(value)[:300], "model_argument": arg}
        if err is not None:
            self.direct += 1
            replay["library"] = {"raises": type(err).__name__, "message": str(err)[:200]}
            if type(err) is not AssertionError:
                self.bad("dead-error-kind", f"arim.Probe(dead_elements=...) raised {type(err).__name__}: {err} "
                         "(only the AssertionError of the shape check is modelled)", replay, "dead")
                return
            want, idxl = None, []
        else:
            if flags.dtype != bool or flags.ndim != 1:
                self.direct += 1
                self.bad("dead-dtype", f"Probe.dead_elements is {flags.dtype} of shape {flags.shape}, not a boolean vector",
                         replay, "dead")
                return
            want, idxl = [bool(b) for b in flags], [int(k) for k in idx]
            replay["library"] = {"dead_elements": want, "index_vector": idxl}
        lit = f"TDead {cZ(n)} {cdead_arg(arg)} {copt(want, cbl)} {czl(idxl)}"
        self.add("dead", sub, lit, replay, f"(init_dead (Z.to_nat {cZ(n)}) {cdead_arg(arg)}, "
                 f"option_map (mask_positions 0%Z) (init_dead (Z.to_nat {cZ(n)}) {cdead_arg(arg)}))")

    def random_dead(self):
        rng = self.rng
        n = int(rng.choice([0, 1, 1, 2, 3, 4, 5, 6, 8, 12]))
        r = rng.random()
        if r < 0.12:
            self.dead_case(n, None, "absent" if rng.random() < 0.5 else None, "None")
        elif r < 0.32:
            v, code = dead_value_spelling(rng, rng.random() < 0.5)
            if rng.random() < 0.3:
                v = np.array(v)          # 0-d array
            self.dead_case(n, ["scalar", code], v, "scalar")
        else:
            wrong = rng.random() < 0.25
            m = n if not wrong else int(rng.choice([k for k in (0, n - 1, n + 1, 2 * n, n + 3) if k >= 0 and k != n]))
            pdead = [0.0, 0.3, 0.7, 1.0][int(rng.integers(4))]
            sp = int(rng.integers(6))
            flags = [bool(rng.random() < pdead) for _ in range(m)]
            if sp == 0:
                vals = [dead_value_spelling(rng, b) for b in flags]
                value, codes = [v for v, _ in vals], [c for _, c in vals]
                if any(isinstance(v, float) and v != v for v in value) and any(isinstance(v, (bool, np.bool_)) for v in value):
                    pass
            elif sp == 1:
                value, codes = np.array(flags, dtype=bool), [int(b) for b in flags]
            elif sp == 2:
                codes = [int(rng.choice([1, 2, 255, 128])) if b else 0 for b in flags]
                value = np.array(codes, dtype=np.uint8)
            elif sp == 3:
                codes = [int(rng.choice([1, -1, 7, -300])) if b else 0 for b in flags]
                value = np.array(codes, dtype=np.int64) if rng.random() < 0.5 else list(codes)
            elif sp == 4:
                fl = [float(rng.choice([0.5, -2.0, 1e-300, INF])) if b else float(rng.choice([0.0, -0.0])) for b in flags]
                codes = [0 if v == 0 else 1 for v in fl]
                value = np.array(fl) if rng.random() < 0.5 else tuple(fl)
            else:
                value, codes = tuple(flags), [int(b) for b in flags]
            self.dead_case(n, ["each", codes], value, "each:wrong length" if wrong else "each")

    def deadidx_case(self, n, flags):
        """np.asarray(range(n))[boolean vector] for a vector of ANY length (the statement of measurement.py:138)"""
        try:
            want = [int(k) for k in np.asarray(range(n))[np.array(flags, dtype=bool)]]
        except IndexError:
            want = None
        m = len(flags)
        sub = ("length n" if m == n else "empty vector on a non-empty probe" if m == 0 else "wrong length") + \
            (": accepted" if want is not None else ": IndexError")
        self.add("deadidx", sub, f"TDeadIdx {cZ(n)} {cbl(flags)} {copt(want, czl)}", {"n": n, "flags": flags, "numpy": want},
                 f"dead_indices (Z.to_nat {cZ(n)}) {cbl(flags)}")

    def fancy_case(self, n, ints, sub):
        try:
            want = [int(k) for k in np.asarray(range(n))[np.array(ints, dtype=np.int64)]]
        except IndexError:
            want = None
        self.add("fancy", sub, f"TFancy {cZ(n)} {czl(ints)} {copt(want, czl)}", {"n": n, "ints": ints, "numpy": want},
                 f"fancy_indices (Z.to_nat {cZ(n)}) {czl(ints)}")

    def pairs_case(self, n):
        tx, rx = self.arim.ut.fmc(n)
        htx, hrx = self.arim.ut.hmc(n)
        f = [(int(a), int(b)) for a, b in zip(tx, rx)]
        h = [(int(a), int(b)) for a, b in zip(htx, hrx)]
        cp = lambda l: clist([cpair(cZ(a), cZ(b)) for a, b in l])
        self.add("pairs", f"n={n}", f"TPairs {cZ(n)} {cp(f)} {cp(h)}", {"n": n, "fmc": f, "hmc": h},
                 f"(fmc_pairs (Z.to_nat {cZ(n)}), hmc_pairs (Z.to_nat {cZ(n)}))")

    # -- move_probe_over_flat_surface ------------------------------------------------------------------------------------
    def make_probe(self, spec):
        """spec: locs, oris, dead (value passed to the constructor or None), pcs (triple or None), dead_override"""
        arim, g = self.arim, self.g
        kw = {}
        if spec.get("oris") is not None:
            kw["orientations"] = g.Points(np.array(spec["oris"], float))
        if spec.get("dead") is not None:
            kw["dead_elements"] = spec["dead"]
        if spec.get("pcs") is not None:
            c = spec["pcs"]
            kw["pcs"] = g.CoordinateSystem(np.array(c[0], float), np.array(c[1], float), np.array(c[2], float))
        p = arim.Probe(g.Points(np.array(spec["locs"], float).reshape(-1, 3)), 1e6, **kw)
        if spec.get("dead_override") is not None:
            p.dead_elements = np.array(spec["dead_override"], dtype=bool)
            m = len(spec["dead_override"])
            self.chk.count(tie_C19_dead_vector="assigned after construction: " + (
                "one flag per element" if m == p.numelements else
                "EMPTY on a non-empty probe" if m == 0 else "wrong length"))
        return p

    @staticmethod
    def index_array(rng, vals):
        vals = [int(v) for v in vals]
        if all(0 <= v < 200 for v in vals) and rng.random() < 0.2:
            return np.array(vals, dtype=np.uint8)
        return np.array(vals, dtype=[np.int64, np.int32, np.int64, np.int16][int(rng.integers(4))])

    def ctol(self, rec):
        if rec is None:
            return 0.0
        xs, ds = np.array(rec["xs"]), np.array(rec["ds"])
        spread = float(xs.max() - xs.min()) if len(xs) else 1.0
        scale = (1.0 + float(np.abs(ds).max()) + abs(rec["p1"]) + abs(rec["p0"])) * (1.0 + float(np.abs(xs).max()))
        return 2.0 ** -26 * scale * max(1.0, 1.0 / spread if spread > 0 else 1.0) ** 2

    def move_case(self, spec, tx, rx, ds, sub, expect=None):
        """spec: probe description; tx, rx: integers; ds: floats (one per timetrace unless a shape fault);
        expect: set of model error codes / 'ok' allowed (None: anything the model agrees with)"""
        arim, rng = self.arim, self.rng
        p = self.make_probe(spec)
        txa, rxa = self.index_array(rng, tx), self.index_array(rng, rx)
        frame = arim.Frame(np.zeros((len(tx), 2)), arim.Time(0.0, 1.0, 2), txa, rxa, p, self.exam)
        before = obs_core(p)
        dead = [bool(b) for b in np.asarray(p.dead_elements)]
        dsa = np.array(ds, dtype=float)
        err = None
        theta = z_o = NAN
        with PolyfitRecorder() as pr:
            try:
                out = self.meas.move_probe_over_flat_surface(frame, dsa, full_output=True)
            except ERRORS as e:
                err = e
        rec, problem = pr.record()
        after = obs_core(frame.probe)
        replay = {"probe_before": before, "dead_elements": dead, "tx": [int(v) for v in tx], "rx": [int(v) for v in rx],
                  "distances": [float(v) for v in ds], "polyfit_call_recorded": rec, "probe_after": after}
        if problem:
            self.direct += 1
            self.bad("move-oracle", problem, replay, "move")
            return
        if err is None:
            self.direct += 1
            frame2, iso = out
            if frame2 is not frame or frame.probe is not p or not (iso.phi != iso.phi):
                self.bad("move-return", "move_probe_over_flat_surface: the returned frame / probe is not the object passed in "
                         "(or phi is not nan)", replay, "move")
            theta, z_o = float(iso.theta), float(iso.z_o)
            replay["library"] = {"z_o": z_o, "theta": theta}
            want = f"(WOk {cfloat(z_o)} {cfloat(theta)})"
            code = "ok"
        else:
            code = classify(err)
            replay["library"] = {"raises": type(err).__name__, "message": str(err)[:200], "model_code": code}
            if not isinstance(code, int):
                self.direct += 1
                self.bad("move-error-kind", f"move_probe_over_flat_surface raised an exception the model has no outcome for: "
                         f"{code}", replay, "move")
                return
            want = f"(WErr {cZ(code)})"
        if expect is not None and code not in expect:
            # the generator aimed at another branch: not a disagreement by itself (the model decides), only counted
            self.chk.count(tie_C19_unexpected_branch=f"{sub}->{code}")
        c_, s_ = (float(np.cos(np.float64(theta))), float(np.sin(np.float64(theta)))) if err is None else (NAN, NAN)
        pc = before["pcs"]
        vecs = before["locs"] + (before["oris"] or []) + [pc[0], [a + b for a, b in zip(pc[0], pc[1])],
                                                          [a + b for a, b in zip(pc[0], pc[2])]]
        exact = err is not None or theta == 0.0 or rot_exact(vecs)
        extent = max([1.0, abs(z_o) if err is None else 0.0] + [abs(x) for v in before["locs"] for x in v])
        tol = 0.0 if exact else extent * 2.0 ** -40
        ctol = self.ctol(rec)
        replay["model_inputs"] = {"theta": theta, "cos": c_, "sin": s_, "tolerance": tol, "closed_form_tolerance": ctol}
        head = (f"{ccore(before)} {cbl(dead)} {czl(tx)} {czl(rx)} {cfl(ds)} {crec(rec)} {cfloat(theta)} {cfloat(c_)} "
                f"{cfloat(s_)}")
        lit = f"TMove {head} {cfloat(tol)} {cfloat(ctol)} {want} {ccore(after)}"
        self.chk.count(tie_C19_move_outcome=str(code))
        self.add("move", sub, lit, replay, f"(m_move {head}, m_pose {head})")

    def gen_linear(self, n=None):
        """a linear probe on Ox whose PCS is the GCS: dict(locs, oris, xs)"""
        rng = self.rng
        n = n or int(rng.choice([2, 2, 3, 3, 4, 4, 5, 6, 8]))
        if rng.random() < 0.65:
            x0, pitch = dy(rng, 3, 4), nz(lambda: dy(rng, 3, 2))
            xs = [x0 + k * pitch for k in range(n)]
        else:
            xs = []
            while len(xs) < n:
                x = dy(rng, 3, 8)
                if x not in xs:
                    xs.append(x)
        locs = [[x, 0.0, 0.0] for x in xs]
        r = rng.random()
        oris = None if r < 0.4 else [[0.0, 0.0, 1.0]] * n if r < 0.85 else \
            [[[0.0, 0.0, 1.0], [1.0, 0.0, 0.0], [0.0, 1.0, 0.0], [0.0, 0.0, -1.0]][int(rng.integers(4))] for _ in range(n)]
        return {"locs": locs, "oris": oris, "xs": xs, "n": n}

    def gen_dead(self, n, keep=2):
        """flags with at least `keep` working elements, and a spelling for the constructor"""
        rng = self.rng
        flags = [False] * n
        if n > keep and rng.random() < 0.55:
            k = int(rng.integers(1, n - keep + 1))
            for i in rng.choice(n, size=k, replace=False):
                flags[int(i)] = True
        return flags

    def spell_dead(self, flags):
        rng = self.rng
        r = int(rng.integers(7))
        if not any(flags) and r < 2:
            return None
        d = np.array(flags, dtype=bool)
        return [d, d.astype(np.uint8) * 255, d.astype(np.int64), [bool(b) for b in flags], [int(b) for b in flags],
                d.astype(float) * 2.5, tuple(bool(b) for b in flags)][r]

    def random_move(self, fault=None):
        rng = self.rng
        faults = [] if fault is None else [fault] if fault != "combo" else \
            [str(f) for f in rng.choice(["pcs", "few", "shape", "neg", "offaxis", "index", "deadlen", "degenerate", "slope"],
                                        size=2, replace=False)]
        pr = self.gen_linear()
        n, xs = pr["n"], pr["xs"]
        flags = self.gen_dead(n)
        spec = {"locs": pr["locs"], "oris": pr["oris"], "dead": self.spell_dead(flags), "pcs": None}
        # PCS: absent / explicit GCS / within the gate (1e-8 lies between 2^-27 and 2^-26)
        r = rng.random()
        if r < 0.2:
            spec["pcs"] = [list(v) for v in GCS3]
        elif r < 0.4:
            o = [0.0, 0.0, 0.0]
            for _ in range(int(rng.integers(1, 3))):
                o[int(rng.integers(3))] = float(rng.choice([-1, 1])) * 2.0 ** float(rng.choice([-27, -28, -30]))
            spec["pcs"] = [o, [1.0, 0.0, 0.0], [0.0, 1.0, 0.0]]
        elif r < 0.5:
            i, j = [1.0, 0.0, 0.0], [0.0, 1.0, 0.0]
            which = i if rng.random() < 0.5 else j
            comp = int(rng.integers(3))
            which[comp] += float(rng.choice([-1, 1])) * 2.0 ** float(rng.choice([-27, -28, -29]))
            spec["pcs"] = [[0.0, 0.0, 0.0], i, j]
        elif rng.random() < 0.25 and not faults:
            # an element slightly off the axis, accepted by isclose(|x|, norm) (rtol 1e-5): y = x 2^-9
            k = int(rng.integers(n))
            if xs[k] != 0:
                spec["locs"] = [list(v) for v in spec["locs"]]
                spec["locs"][k][1] = xs[k] * 2.0 ** -9
        pairs = layout(rng, n, str(rng.choice(["fmc", "hmc", "pe", "random"], p=[0.3, 0.25, 0.15, 0.3])))
        # negative spellings of some element indices (tx == rx compares the raw values)
        if rng.random() < 0.3:
            out = []
            for t, r_ in pairs:
                u = rng.random()
                out.append((t - n, r_ - n) if u < 0.25 else (t - n, r_) if u < 0.32 else (t, r_))
            pairs = list(dict.fromkeys(out))
        # indices outside the probe on NON pulse-echo timetraces are never looked up
        if rng.random() < 0.2:
            pairs.append((n + int(rng.integers(0, 3)), int(rng.integers(0, n))))
            if rng.random() < 0.5:
                pairs.append((int(rng.integers(0, n)), -n - 1))
        tx, rx = [t for t, _ in pairs], [r_ for _, r_ in pairs]
        slope = float(rng.integers(-12, 13)) / 16
        if "slope" in faults:
            slope = float(rng.choice([-1, 1])) * float(rng.choice([1.25, 2.0, 3.0, 17.0]))
        base = 1.0 + abs(slope) * max(abs(x) for x in xs) + abs(dy(rng, 3, 2))
        ds = []
        for k, (t, r_) in enumerate(pairs):
            if t == r_ and -n <= t < n:
                ds.append(base + slope * xs[t] + (k % 7) * 2.0 ** -10 * float(rng.random() < 0.7))
            else:
                ds.append([NAN, -1.5, INF, -INF, 0.0, dy(rng, 4, 4)][int(rng.integers(6))])
        if "slope" in faults:
            # exactly collinear distances: the fitted slope is far from [-1, 1]
            ds = [base + slope * xs[t] if (t == r_ and -n <= t < n) else d for (t, r_), d in zip(pairs, ds)]
        faults_in_order = sorted(faults, key=lambda f: f == "shape")      # the length fault last: the others edit ds by index
        for f in faults_in_order:
            if f == "pcs":
                u = rng.random()
                if u < 0.4:
                    o = [0.0, 0.0, 0.0]
                    o[int(rng.integers(3))] = float(rng.choice([-1, 1])) * float(rng.choice([2.0 ** -26, 2.0 ** -25, 1.0, 0.125]))
                    spec["pcs"] = [o, [1.0, 0.0, 0.0], [0.0, 1.0, 0.0]]
                elif u < 0.7:
                    R = CUBE[int(rng.integers(1, 24))]
                    spec["pcs"] = [[0.0, 0.0, 0.0], [float(x) for x in R[:, 0]], [float(x) for x in R[:, 1]]]
                else:
                    i = [1.0, 0.0, 0.0]
                    i[int(rng.integers(1, 3))] = float(rng.choice([-1, 1])) * 2.0 ** float(rng.choice([-26, -20]))
                    spec["pcs"] = [[0.0, 0.0, 0.0], i, [0.0, 1.0, 0.0]]
            elif f == "few":
                u = rng.random()
                if u < 0.4:       # all but one element dead
                    flags = [True] * n
                    flags[int(rng.integers(n))] = False
                    if rng.random() < 0.3:
                        flags = [True] * n
                    spec["dead"] = np.array(flags, dtype=bool)
                elif u < 0.7:     # no pulse-echo timetrace but one
                    keep = int(rng.integers(0, 2))
                    sel = [k for k, (t, r_) in enumerate(pairs) if t != r_]
                    pe = [k for k, (t, r_) in enumerate(pairs) if t == r_][:keep]
                    idx = sorted(sel + pe) or [0]
                    pairs = [pairs[k] for k in idx]
                    ds = [ds[k] for k in idx]
                    tx, rx = [t for t, _ in pairs], [r_ for _, r_ in pairs]
                else:             # tx and rx spelled differently: -1 vs n-1 are different values
                    pairs = [(t, r_ - n) if t == r_ else (t, r_) for t, r_ in pairs if t >= 0 and r_ >= 0]
                    pairs = list(dict.fromkeys(pairs)) or [(0, -n)]
                    tx, rx = [t for t, _ in pairs], [r_ for _, r_ in pairs]
                    ds = [1.0 + 0.25 * k for k in range(len(pairs))]
            elif f == "shape":
                m = len(ds)
                k = int(rng.choice([c for c in (0, m - 1, m + 1, m + 4, 1) if c >= 0 and c != m]))
                ds = (ds + [1.0] * 5)[:k]
            elif f == "neg":
                pe = [k for k, (t, r_) in enumerate(pairs) if t == r_ and -n <= t < n and not flags[t % n]
                      and (t >= 0 or True)]
                if pe:
                    k = pe[int(rng.integers(len(pe)))]
                    if k < len(ds):
                        ds[k] = -float(rng.choice([2.0 ** -30, 1.0, 0.125, INF]))
            elif f == "offaxis":
                k = int(rng.integers(n))
                spec["locs"] = [list(v) for v in spec["locs"]]
                comp = 1 + int(rng.integers(2))
                # isclose(|x|, norm): rtol 1e-5 relative to the norm; 2^-8 |x| is outside, and so is anything when x = 0
                spec["locs"][k][comp] = float(rng.choice([1.0, -0.5, 2.0 ** -3])) if rng.random() < 0.6 or xs[k] == 0 \
                    else xs[k] * 2.0 ** -7
            elif f == "index":
                t = int(rng.choice([n, n + 1, -n - 1, -n - 3, 100]))
                if (t, t) not in pairs:
                    k = int(rng.integers(0, len(pairs) + 1))
                    pairs.insert(k, (t, t))
                    ds.insert(min(k, len(ds)), 2.0)
                    tx, rx = [a for a, _ in pairs], [b for _, b in pairs]
            elif f == "deadlen":
                # (not 0: the EMPTY boolean vector is no fault - numpy accepts it, no dead element -; see below)
                m = int(rng.choice([c for c in (1, n - 1, n + 1, 2 * n) if c > 0 and c != n]))
                spec["dead_override"] = [bool(rng.random() < 0.3) for _ in range(m)]
            elif f == "degenerate":
                u = rng.random()
                if u < 0.5 and n >= 2:
                    # only two usable pulse-echo timetraces, the same element spelled k and k - n
                    k = int(rng.integers(n))
                    flags = [False] * n
                    spec["dead"] = None
                    pairs = [(t, r_) for t, r_ in pairs if t != r_ and t >= 0 and r_ >= 0] + [(k, k), (k - n, k - n)]
                    pairs = [pairs[q] for q in rng.permutation(len(pairs))]
                    ds = [1.0 + 0.125 * q for q in range(len(pairs))]
                else:
                    # two elements at the same place (or within isclose of each other), the others dead
                    a, b = (int(v) for v in rng.choice(n, size=2, replace=False))
                    spec["locs"] = [list(v) for v in spec["locs"]]
                    if xs[a] == 0:
                        spec["locs"][b][0] = float(rng.choice([0.0, 2.0 ** -27, -2.0 ** -28]))
                    else:
                        spec["locs"][b][0] = xs[a] * float(rng.choice([1.0, 1.0 + 2.0 ** -18, 1.0 - 2.0 ** -20]))
                    flags = [k not in (a, b) for k in range(n)]
                    spec["dead"] = np.array(flags, dtype=bool)
                    pairs = [(t, r_) for t, r_ in pairs if t >= 0 and r_ >= 0]
                    for e in (a, b):
                        if (e, e) not in pairs:
                            pairs.append((e, e))
                    ds = [1.0 + 0.125 * q for q in range(len(pairs))]
                tx, rx = [t for t, _ in pairs], [r_ for _, r_ in pairs]
        tx, rx = [t for t, _ in pairs], [r_ for _, r_ in pairs]
        sub = "valid" if not faults else ("fault:" + "+".join(sorted(faults)) if fault != "combo" else "fault:combo")
        if "deadlen" not in faults and rng.random() < 0.12:
            # the EMPTY boolean vector assigned to the probe after construction: accepted, no dead element (whatever flags the
            # constructor was given: every pulse-echo timetrace of an element of the probe is used)
            spec["dead_override"] = []
            sub += "+empty dead vector"
        self.move_case(spec, tx, rx, ds, sub)

    # -- argmax / detection / Time ------------------------------------------------------------------------------------------
    def argmax_case(self, l, sub):
        try:
            want = int(np.argmax(np.array(l, dtype=float)))
        except ValueError:
            want = None
        self.add("argmax", sub, f"TArgmax {cfl(l)} {copt(want, cZ)}", {"vector": l, "numpy": want}, f"argmax_np NumF {cfl(l)}")

    def random_values(self, m, flavour):
        """m real sample values"""
        rng = self.rng
        pool = {"plain": [0.0, 1.0, -1.0, 2.0, -2.0, 3.0, -3.0, 0.5, -0.5, 2.5, -2.5, 7.0, -7.0, 0.25],
                "flat": [0.0, -0.0, 1.0, -1.0],
                "nan": [0.0, 1.0, -3.0, 3.0, NAN, 2.0, -0.5, 5.0, NAN, INF, -INF],
                "inf": [0.0, 1.0, INF, -INF, -4.0, 4.0]}[flavour]
        return [float(pool[int(rng.integers(len(pool)))]) for _ in range(m)]

    def gen_time(self):
        rng = self.rng
        num = int(rng.choice([1, 1, 2, 3, 4, 5, 6, 8, 12, 20, 40], p=[0.04, 0.04, 0.1, 0.12, 0.14, 0.14, 0.14, 0.12, 0.08, 0.05, 0.03]))
        step = float(rng.choice([1.0, 0.5, 0.25, 2.0, 0.125, 1.5, 3.0, 0.0], p=[0.25, 0.2, 0.12, 0.12, 0.1, 0.1, 0.08, 0.03]))
        start = dy(rng, 3, 12) if rng.random() < 0.8 else float(rng.choice([0.0, 0, -0.0, 10, 100.5]))
        return start, step, num

    def gen_bound(self, start, step, num, none_p=0.25):
        rng = self.rng
        r = rng.random()
        if r < none_p:
            return None
        k = int(rng.integers(-2, num + 2))
        if r < 0.55:                     # exactly a sample (or a sample position outside the vector)
            return start + k * step
        if r < 0.85:                     # between two samples
            return start + k * step + step * float(rng.choice([0.5, 0.25, -0.25]))
        return float(rng.choice([INF, -INF, start - 100.0, start + num * step + 100.0]))

    @staticmethod
    def spell_num(rng, x):
        if x is None:
            return None
        if float(x).is_integer() and abs(x) < 2 ** 40 and rng.random() < 0.3:
            return int(x)
        return np.float64(x) if rng.random() < 0.3 else float(x)

    def make_time(self, start, step, num):
        rng = self.rng
        s = int(start) if float(start).is_integer() and rng.random() < 0.3 else start
        st = int(step) if float(step).is_integer() and rng.random() < 0.3 else step
        return self.arim.Time(s, st, int(num))

    def window_case(self, start, step, num, tmin, tmax, endl, endr, sub):
        rng = self.rng
        t = self.make_time(start, step, num)
        a, b = self.spell_num(rng, tmin), self.spell_num(rng, tmax)
        if endl and endr and rng.random() < 0.5:
            sl = t.window(a, b) if rng.random() < 0.5 else t.window(tmin=a, tmax=b)
        else:
            sl = t.window(a, b, endl, endr) if rng.random() < 0.5 else t.window(a, b, endpoint_left=endl, endpoint_right=endr)
        replay = {"time": [start, step, num], "tmin": tmin, "tmax": tmax, "endpoint_left": endl, "endpoint_right": endr,
                  "library": repr(sl)}
        self.direct += 1
        if not isinstance(sl, slice) or sl.step is not None or (sl.start is None) != (tmin is None) or \
                (sl.stop is None) != (tmax is None):
            self.bad("window-slice", f"Time.window returned {sl!r}: not slice(imin or None, imax or None)", replay, "window")
            return
        lo = 0 if sl.start is None else int(sl.start)
        hi = num if sl.stop is None else int(sl.stop)
        head = f"{cfloat(start)} {cfloat(step)} {cZ(num)} {copt(tmin, cfloat)} {copt(tmax, cfloat)} {cbool(endl)} {cbool(endr)}"
        self.add("window", sub, f"TWindow {head} {cpair(cZ(lo), cZ(hi))}", replay,
                 f"window NumF (time_samples NumF {cfloat(start)} {cfloat(step)} {cZ(num)}) {copt(tmin, cfloat)} "
                 f"{copt(tmax, cfloat)} {cbool(endl)} {cbool(endr)}")

    def closest_case(self, start, step, num, t0, sub):
        t = self.make_time(start, step, num)
        try:
            want = int(t.closest_index(self.spell_num(self.rng, t0)))
        except ValueError:
            want = None
        head = f"{cfloat(start)} {cfloat(step)} {cZ(num)} {cfloat(t0)}"
        self.add("closest", sub, f"TClosest {head} {copt(want, cZ)}", {"time": [start, step, num], "t": t0, "library": want},
                 f"closest_index NumF (time_samples NumF {cfloat(start)} {cfloat(step)} {cZ(num)}) {cfloat(t0)}")

    def gen_rows(self, m, num, flavour):
        """-> (array handed to Frame, rows for the model (floats or complex), is complex)"""
        rng = self.rng
        if flavour == "complex":
            rows = [[self.cvals[int(rng.integers(len(self.cvals)))] for _ in range(num)] for _ in range(m)]
            if rng.random() < 0.3:
                for r in rows:
                    for k in range(num):
                        if rng.random() < 0.1:
                            r[k] = complex(NAN, float(rng.integers(-2, 3))) if rng.random() < 0.5 else complex(1.0, NAN)
            return np.array(rows, dtype=complex).reshape(m, num), rows, True
        if flavour == "int":
            rows = [[float(rng.integers(-6, 7)) for _ in range(num)] for _ in range(m)]
            return np.array(rows, dtype=[np.int64, np.int32, np.int16][int(rng.integers(3))]).reshape(m, num), rows, False
        fl = ["plain", "plain", "flat", "nan", "inf"][int(rng.integers(5))] if flavour == "real" else flavour
        rows = [self.random_values(num, fl) for _ in range(m)]
        if rng.random() < 0.5:           # a clear echo somewhere
            for r in rows:
                if num and rng.random() < 0.8:
                    r[int(rng.integers(num))] = float(rng.choice([-1, 1])) * 9.0
        dt = np.float32 if rng.random() < 0.15 else float
        return np.array(rows, dtype=dt).reshape(m, num), rows, False

    def detect_case(self, start, step, num, arr, rows, cplx, tmin, tmax, sub, pairs=None):
        arim, rng = self.arim, self.rng
        m = len(rows)
        if pairs is None:
            pairs = [(k // 3, k % 3) for k in range(m)]
        p = arim.Probe(self.points(3), 1e6)
        t = self.make_time(start, step, num)
        frame = arim.Frame(arr, t, np.array([a for a, _ in pairs], dtype=int), np.array([b for _, b in pairs], dtype=int), p,
                           self.exam)
        a, b = self.spell_num(rng, tmin), self.spell_num(rng, tmax)
        err = None
        try:
            if tmin is None and tmax is None and rng.random() < 0.5:
                out = self.meas.detect_surface_from_extrema(frame)
            elif tmax is None and rng.random() < 0.5:
                out = self.meas.detect_surface_from_extrema(frame, a)
            elif rng.random() < 0.5:
                out = self.meas.detect_surface_from_extrema(frame, a, b)
            else:
                out = self.meas.detect_surface_from_extrema(frame, tmin=a, tmax=b)
            out = np.asarray(out)
            want = [float(v) for v in out]
            shape_ok = out.shape == (m,)
        except ERRORS as e:
            err, want, shape_ok = e, None, True
        smp = [float(v) for v in frame.time.samples]
        replay = {"time": [start, step, num], "timetraces": rows, "tmin": tmin, "tmax": tmax,
                  "library": want if err is None else {"raises": type(err).__name__, "message": str(err)[:200]}}
        if err is not None or not shape_ok:
            self.direct += 1
            if not shape_ok:
                self.bad("detect-shape", f"detect_surface_from_extrema returned an array of shape {out.shape} for {m} timetraces",
                         replay, "detect")
                return
            if classify(err) != 9:
                self.bad("detect-error-kind", f"detect_surface_from_extrema raised {type(err).__name__}: {err} (only the "
                         "ValueError of an argmax over an empty window is modelled)", replay, "detect")
                return
        head = f"{cfloat(start)} {cfloat(step)} {cZ(num)} {crows(rows, cplx)} {copt(tmin, cfloat)} {copt(tmax, cfloat)}"
        self.add("detect", sub, f"TDetect {head} {cfl(smp)} {copt(want, cfl)}", replay, f"run_detect {head}")

    def random_detect(self):
        rng = self.rng
        start, step, num = self.gen_time()
        m = int(rng.choice([0, 1, 2, 3, 4, 6], p=[0.04, 0.2, 0.25, 0.25, 0.16, 0.1]))
        flavour = str(rng.choice(["real", "complex", "int", "nan"], p=[0.45, 0.25, 0.1, 0.2]))
        arr, rows, cplx = self.gen_rows(m, num, flavour)
        r = rng.random()
        if r < 0.2:
            tmin = tmax = None
        else:
            tmin, tmax = self.gen_bound(start, step, num), self.gen_bound(start, step, num)
            if tmin is not None and tmax is not None and tmin > tmax and rng.random() < 0.7:
                tmin, tmax = tmax, tmin
        self.detect_case(start, step, num, arr, rows, cplx, tmin, tmax, flavour + (":no window" if tmin is None and tmax is None
                                                                                   else ":window"))

    # -- find_probe_loc_from_frontwall -----------------------------------------------------------------------------------------
    def front_case(self, spec, pose, time3, arr, rows, cplx, pairs, c, tmin, tmax, sub, exact=True, break_pcs=False):
        """spec: the probe in its PCS (PCS = GCS); pose: (R, t) applied beforehand through Probe.rotate / Probe.translate"""
        arim, rng = self.arim, self.rng
        p = self.make_probe(spec)
        R, tvec = pose
        if R is not None:
            p.rotate(np.array(R, float).reshape(3, 3))
        if tvec is not None:
            p.translate(np.array(tvec, float))
        if break_pcs:                   # an axis that is not unit, assembled past the validating setters
            p.pcs._i_hat = np.asarray(p.pcs.i_hat, float) * break_pcs
        start, step, num = time3
        frame = arim.Frame(arr, self.make_time(start, step, num), np.array([a for a, _ in pairs], dtype=int),
                           np.array([b for _, b in pairs], dtype=int), p, self.exam)
        before = obs_core(p)
        dead = [bool(b) for b in np.asarray(p.dead_elements)]
        couplant = arim.Material(self.spell_num(rng, c))
        a, b = self.spell_num(rng, tmin), self.spell_num(rng, tmax)
        err = None
        theta = z_o = NAN
        with PolyfitRecorder() as pr:
            try:
                if tmin is None and tmax is None and rng.random() < 0.5:
                    out = self.meas.find_probe_loc_from_frontwall(frame, couplant)
                elif rng.random() < 0.5:
                    out = self.meas.find_probe_loc_from_frontwall(frame, couplant, a, b)
                else:
                    out = self.meas.find_probe_loc_from_frontwall(frame, couplant, tmin=a, tmax=b)
            except ERRORS as e:
                err = e
        rec, problem = pr.record()
        after = None
        try:
            after = obs_core(frame.probe)
        except (AssertionError, ValueError, TypeError):
            pass
        tx, rx = [a_ for a_, _ in pairs], [b_ for _, b_ in pairs]
        replay = {"probe_before": before, "dead_elements": dead, "time": [start, step, num], "timetraces": rows, "tx": tx,
                  "rx": rx, "couplant_velocity": c, "tmin": tmin, "tmax": tmax, "polyfit_call_recorded": rec,
                  "probe_after": after}
        if problem:
            self.direct += 1
            self.bad("front-oracle", problem, replay, "front")
            return
        if err is None:
            self.direct += 1
            z_o, theta, times = float(out[0]), float(out[1]), [float(v) for v in np.asarray(out[2])]
            if len(out) != 3 or frame.probe is not p:
                self.bad("front-return", "find_probe_loc_from_frontwall: not a 3-tuple / the probe object was replaced", replay,
                         "front")
            replay["library"] = {"z_o": z_o, "theta": theta, "time_to_surface": times}
            want, code = f"(FOk {cfloat(z_o)} {cfloat(theta)} {cfl(times)})", "ok"
        elif break_pcs and type(err) is ValueError and "normalised" in str(err):
            want, code, after = "FCs", "cs", None
            replay["library"] = {"raises": "ValueError", "message": str(err)[:200]}
        else:
            code = classify(err)
            replay["library"] = {"raises": type(err).__name__, "message": str(err)[:200], "model_code": code}
            if not isinstance(code, int) or after is None:
                self.direct += 1
                self.bad("front-error-kind", f"find_probe_loc_from_frontwall raised an exception the model has no outcome for: "
                         f"{code}", replay, "front")
                return
            want = f"(FErr {cZ(code)})"
        c_, s_ = (float(np.cos(np.float64(theta))), float(np.sin(np.float64(theta)))) if err is None else (NAN, NAN)
        extent = max([1.0, abs(z_o) if err is None else 0.0] + [abs(x) for v in spec["locs"] for x in v])
        tol = 0.0 if (exact or err is not None or theta == 0.0) else extent * 2.0 ** -40
        ctol = self.ctol(rec)
        replay["model_inputs"] = {"theta": theta, "cos": c_, "sin": s_, "tolerance": tol, "closed_form_tolerance": ctol}
        head = (f"{ccore(before)} {cbl(dead)} {cfloat(start)} {cfloat(step)} {cZ(num)} {crows(rows, cplx)} {czl(tx)} {czl(rx)} "
                f"{cfloat(c)} {copt(tmin, cfloat)} {copt(tmax, cfloat)} {crec(rec)} {cfloat(theta)} {cfloat(c_)} {cfloat(s_)}")
        self.chk.count(tie_C19_front_outcome=str(code))
        self.add("front", sub, f"TFront {head} {cfloat(tol)} {cfloat(ctol)} {want} {copt(after, ccore)}", replay,
                 f"m_front {head}")

    def random_front(self, fault=None):
        rng = self.rng
        pr = self.gen_linear(int(rng.choice([2, 2, 3, 3, 4, 5, 6])))
        n, xs = pr["n"], pr["xs"]
        flags = self.gen_dead(n)
        spec = {"locs": [list(v) for v in pr["locs"]], "oris": pr["oris"], "dead": self.spell_dead(flags), "pcs": None}
        exact = True
        if fault is None and rng.random() < 0.15:
            k = int(rng.integers(n))
            if xs[k] != 0:
                spec["locs"][k][1] = xs[k] * 2.0 ** -9          # accepted by the on-axis test; y only: rotation still exact
        if fault == "offaxis":
            k = int(rng.integers(n))
            spec["locs"][k][1 + int(rng.integers(2))] = float(rng.choice([1.0, -0.5, 0.125]))
        # pose before the call: anything (reset_position comes first)
        u = rng.random()
        R = None if u < 0.25 else [float(x) for x in CUBE[int(rng.integers(24))].ravel()]
        tvec = None if rng.random() < 0.25 else [dy(rng, 3, 8) for _ in range(3)]
        pairs = layout(rng, n, str(rng.choice(["fmc", "hmc", "pe", "random"], p=[0.25, 0.3, 0.2, 0.25])))
        if fault == "few":
            pairs = [(t, r_) for t, r_ in pairs if t != r_] + [(0, 0)][:int(rng.integers(0, 2))] or [(0, 1)]
        if fault == "index":
            t = int(rng.choice([n, n + 2, -n - 1]))
            pairs.insert(int(rng.integers(0, len(pairs) + 1)), (t, t))
        m = len(pairs)
        start, step, num = self.gen_time()
        num = max(num, 2) if fault is None else num
        if fault == "neg":
            start = -abs(start) - step * num - 1.0
        elif fault is None or fault in ("slope", "few", "index", "offaxis"):
            start = abs(start)
        flavour = str(rng.choice(["echo", "echo", "complex", "real", "int"]))
        if flavour == "echo":
            # one echo per timetrace, at a sample that depends (roughly linearly) on the transmitter
            a0, b0 = int(rng.integers(0, num)), float(rng.uniform(-1.0, 1.0))
            rows = []
            for t, r_ in pairs:
                row = self.random_values(num, "plain" if rng.random() < 0.8 else "flat")
                k = int(np.clip(round(a0 + b0 * (t % n)), 0, num - 1))
                if rng.random() < 0.9:
                    row[k] = float(rng.choice([-1, 1])) * 9.0
                rows.append(row)
            arr, cplx = np.array(rows, dtype=float).reshape(m, num), False
        else:
            arr, rows, cplx = self.gen_rows(m, num, flavour)
        c = float(rng.choice([1.0, 0.5, 2.0, 0.25, 0.125, 1.5, 4.0]))
        if fault == "slope":
            # a steep surface: one sample more per element with a large velocity
            c = float(rng.choice([64.0, 256.0]))
            rows = []
            for t, r_ in pairs:
                row = [0.0] * num
                row[min(num - 1, (t % n))] = 5.0
                rows.append(row)
            arr, cplx = np.array(rows, dtype=float).reshape(m, num), False
        if fault is None and rng.random() < 0.04:
            c = float(rng.choice([0.0, -1.0]))
        if fault == "window":
            tmin = start + step * (num + 1) if rng.random() < 0.5 else start + step * 1.25
            tmax = tmin + step * 0.5 if rng.random() < 0.7 else tmin - step
        elif rng.random() < 0.45:
            tmin = tmax = None
        else:
            tmin, tmax = self.gen_bound(start, step, num, 0.3), self.gen_bound(start, step, num, 0.3)
            if tmin is not None and tmax is not None and tmin > tmax:
                tmin, tmax = tmax, tmin
            if tmin is not None and tmin > start + step * (num - 1) and rng.random() < 0.8:
                tmin = start
            if tmax is not None and tmax < start and rng.random() < 0.8:
                tmax = None
        brk = float(rng.choice([2.0, 0.5, 1.0 + 2.0 ** -10])) if fault == "cs" else False
        sub = "valid:" + flavour if fault is None else "fault:" + fault
        if rng.random() < 0.1:
            spec["dead_override"] = []      # the EMPTY boolean vector assigned after construction: no dead element
            sub += "+empty dead vector"
        self.front_case(spec, (R, tvec), (start, step, num), arr, rows, cplx, pairs, c, tmin, tmax, sub, exact=exact,
                        break_pcs=brk)

    # -- fixed examples of the prover's note ---------------------------------------------------------------------------
    def fixed(self):
        g, arim = self.g, self.arim
        # dead flags
        self.dead_case(3, ["each", [0, 255, 0]], [0, 255, 0], "note")
        self.dead_case(3, ["each", [0, 1, 0]], [False, True, False], "note")
        self.dead_case(3, ["each", [0, 1, 0]], [0.0, 2.5, 0.0], "note")
        self.dead_case(3, ["each", [0, 255, 0]], np.array([0, 255, 0], dtype=np.uint8), "note")
        self.dead_case(3, ["scalar", 1], True, "note")
        self.dead_case(3, ["scalar", 1], 1, "note")
        self.dead_case(3, ["each", [0, 1]], [0, 1], "note")
        self.dead_case(3, None, None, "note")
        self.fancy_case(3, [0, 1, 0], "note")
        self.fancy_case(3, [-1, 2, -3], "note")
        self.fancy_case(3, [0, 3], "note")
        for n in (0, 1, 2, 3, 5):
            self.pairs_case(n)
        # pulse-echo mask and error precedence (3 elements at x = 0, 1, 2, FMC)
        fmc = [(t, r) for t in range(3) for r in range(3)]
        tx, rx = [t for t, _ in fmc], [r for _, r in fmc]
        lin3 = {"locs": [[0.0, 0.0, 0.0], [1.0, 0.0, 0.0], [2.0, 0.0, 0.0]], "oris": None, "pcs": None}
        self.move_case(dict(lin3, dead=[False, True, False]), tx, rx, [10.0, 11, 12, 13, 14, 15, 16, 17, 18.5], "note")
        self.move_case(dict(lin3, dead=[True, False, True]), tx, rx, [], "note")
        self.move_case(dict(lin3, dead=[True, False, True], pcs=[[0.0, 0.0, 1e-3], [1.0, 0.0, 0.0], [0.0, 1.0, 0.0]]), tx, rx, [],
                       "note")
        self.move_case(dict(lin3, dead=None), tx, rx, [1.0] * 5, "note")
        self.move_case(dict(lin3, dead=None), tx, rx, [1.0, 0, 0, 0, -1, 0, 0, 0, 1], "note")
        self.move_case(dict(lin3, dead=None), tx, rx, [1.0, -1, -1, -1, 1, -1, -1, -1, 1], "note")
        self.move_case(dict(lin3, dead=None, dead_override=[False, True]), tx, rx, [1.0] * 9, "note")
        # the EMPTY boolean vector assigned after construction: no dead element (although element 1 was declared dead)
        self.move_case(dict(lin3, dead=[False, True, False], dead_override=[]), tx, rx,
                       [10.0, 11, 12, 13, 10.5, 15, 16, 17, 11.0], "note:empty dead vector")
        self.move_case(dict(lin3, dead=[True, False, True], dead_override=[]), tx, rx, [], "note:empty dead vector")
        self.move_case(dict(lin3, dead=None, dead_override=[]), [0, 1], [1, 1], [1.0, 1.0], "note:empty dead vector")
        for n_, fl in ((3, []), (3, [False, True, False]), (3, [True]), (3, [False, True]), (0, []), (0, [True]), (1, []),
                       (1, [True]), (5, [True] * 6)):
            self.deadidx_case(n_, fl)
        self.move_case(dict(lin3, dead=None), [-1, 2, 0, -1], [-1, 2, 0, 2], [1.0, 1.0, 2.0, 5.0], "note")
        self.move_case(dict(lin3, dead=[False, False, True]), [-1, 2, 0, -1], [-1, 2, 0, 2], [1.0, 1.0, 2.0, 5.0], "note")
        # argmax and detection
        row = [1.0, 3.0, NAN, 5.0, NAN, 0.5]
        self.argmax_case(row, "note")
        self.argmax_case([], "note")
        self.argmax_case([NAN, 1.0], "note")
        self.argmax_case([0.0, -0.0, 0.0], "note")
        rows = [row, [0.0] * 6, [NAN, 1.0, 2.0, 3.0, 4.0, 5.0]]
        for tmin, tmax in ((None, None), (11.0, 14.0), (10.5, 13.5), (12.0, 11.0)):
            self.detect_case(10.0, 1.0, 6, np.array(rows), rows, False, tmin, tmax, "note", pairs=[(0, 0), (0, 1), (1, 1)])
        crow = [[1 + 0j, 3 + 4j, -5j, 4 + 4j], [0j, 0j, 0j, 0j]]
        self.detect_case(0.0, 0.5, 4, np.array(crow, dtype=complex), crow, True, None, 1.0, "note", pairs=[(0, 0), (1, 1)])
        for tmin, tmax in ((10.5, 13.5), (None, 13.5), (9.0, None), (100.0, None), (12.0, 11.0), (12.0, 12.0)):
            for endl, endr in ((True, True), (False, True), (True, False), (False, False)):
                self.window_case(10.0, 1.0, 6, tmin, tmax, endl, endr, "note")
        self.closest_case(10.0, 1.0, 6, 12.5, "note")
        self.closest_case(10.0, 1.0, 6, 99.0, "note")
        self.closest_case(0.0, 1.0, 0, 1.0, "note")
        # the whole function on objects
        spec = {"locs": [[0.0, 0.0, 0.0], [1.0, 0.0, 0.0]], "oris": None, "dead": None, "pcs": None}
        rows = [[1.0, 0.0], [0.0, 1.0], [1.0, 0.0]]
        pairs = [(1, 1), (0, 1), (0, 0)]
        self.front_case(spec, (None, [5.0, 0.0, 7.0]), (2.0, 1.0, 2), np.array(rows), rows, False, pairs, 1.0, None, None, "note")
        self.front_case(spec, (None, [5.0, 0.0, 7.0]), (2.0, 1.0, 2), np.array(rows), rows, False, pairs, 1.0, 2.25, 2.75, "note")
        self.front_case(spec, (None, None), (2.0, 1.0, 2), np.array(rows), rows, False, pairs, 1.0, None, None, "note")

    # ---------------------------------------------------------------------------------------------------------------------
    def generate(self):
        rng = self.rng
        m = 1 if self.quick else 10
        self.fixed()
        for _ in range(90 * m):
            self.random_dead()
        for _ in range(25 * m):
            n = int(rng.integers(0, 8))
            k = int(rng.integers(0, 6))
            bad = rng.random() < 0.25
            ints = [int(rng.integers(-n, n)) if n else 0 for _ in range(k)]
            if (bad or n == 0) and k:
                ints[int(rng.integers(k))] = int(rng.choice([n, n + 2, -n - 1, -n - 5]))
            self.fancy_case(n, ints, "out of range" if (bad or n == 0) and k else "in range")
        for _ in range(40 * m):
            n = int(rng.choice([0, 1, 2, 3, 4, 5, 8]))
            k = int(rng.choice([n, 0, int(rng.integers(0, 2 * n + 2))], p=[0.4, 0.25, 0.35]))
            pd = [0.0, 0.3, 0.7, 1.0][int(rng.integers(4))]
            self.deadidx_case(n, [bool(rng.random() < pd) for _ in range(k)])
        for _ in range(4 * m):
            self.pairs_case(int(rng.integers(0, 12)))
        for _ in range(170 * m):
            self.random_move()
        for f in ("pcs", "few", "shape", "neg", "offaxis", "index", "deadlen", "degenerate", "slope"):
            for _ in range(12 * m):
                self.random_move(f)
        for _ in range(40 * m):
            self.random_move("combo")
        for _ in range(70 * m):
            k = int(rng.choice([0, 1, 2, 3, 5, 8, 17, 33, 70], p=[0.04, 0.1, 0.14, 0.16, 0.18, 0.14, 0.1, 0.08, 0.06]))
            fl = str(rng.choice(["plain", "flat", "nan", "inf"], p=[0.3, 0.2, 0.35, 0.15]))
            self.argmax_case(self.random_values(k, fl), fl if k else "empty")
        for _ in range(130 * m):
            self.random_detect()
        for _ in range(110 * m):
            start, step, num = self.gen_time()
            if rng.random() < 0.05:
                num = 0
            tmin, tmax = self.gen_bound(start, step, num), self.gen_bound(start, step, num)
            endl, endr = bool(rng.random() < 0.6), bool(rng.random() < 0.6)
            self.window_case(start, step, num, tmin, tmax, endl, endr,
                             f"endpoints={int(endl)}{int(endr)}" + (":empty time" if num == 0 else ""))
        for _ in range(50 * m):
            start, step, num = self.gen_time()
            if rng.random() < 0.06:
                num = 0
            t0 = self.gen_bound(start, step, num, 0.0)
            self.closest_case(start, step, num, t0, "empty time" if num == 0 else "inside" if
                              start <= t0 <= start + step * max(num - 1, 0) else "outside")
        for _ in range(110 * m):
            self.random_front()
        for f in ("window", "few", "neg", "slope", "index", "offaxis", "cs"):
            for _ in range(8 * m):
                self.random_front(f)

    def evaluate(self):
        chk = self.chk
        lits = ["(" + c[1] + ")" for c in self.cases]
        bad = chk.coq_failing("tie_C19", PREAMBLE, "tcase", lits, "check_case", shard=150)
        shown = 0
        per_kind = {}
        for b in bad:
            per_kind[self.cases[b][0]] = per_kind.get(self.cases[b][0], 0) + 1
        for b in bad:
            kind, lit, replay, model = self.cases[b]
            chk.count(tie_C19_disagreement=kind)
            self.reported[kind] = self.reported.get(kind, 0) + 1
            if self.reported[kind] > 3:
                continue
            replay = dict(js(replay), correspondence=CORR[kind], disagreeing_cases_of_this_kind=per_kind[kind],
                          cases_of_this_kind=sum(1 for c in self.cases if c[0] == kind))
            if shown < 4:        # what the model answers (diagnostics; computed by Coq)
                shown += 1
                try:
                    out = chk.coq_values(f"tie_C19_diag_{shown}", PREAMBLE, [model])
                    replay["model_answer_vm_compute"] = out.strip()[-3000:]
                except Exception as e:  # noqa: BLE001
                    replay["model_answer_vm_compute"] = f"(not printed: {e})"[:300]
            replay["model_expression"] = model[:3000]
            chk.violation(f"tie:{kind}", f"the model ({CORR[kind].split(' vs ')[0]}) and the library disagree on a generated input",
                          replay, failing_input_found=False)
        return len(lits)


def run(chk, arim, rng, quick):
    t = Tie(chk, arim, rng, quick)
    t.generate()
    n = t.evaluate()
    return n + t.direct
