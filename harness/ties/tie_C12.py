"""Tie of Model/TfmGlue.v (C12) to the real library, evaluated on every run of the check.

Correspondence (see notes/prover_C12_TIE.md); the model runs inside coqc by vm_compute at run time:

  unit cases (discrete values exactly, binary64 values bit for bit)
    nd_flatten / shape_size / nd_okb / ndindex / nd_get / ravel   vs  Points.to_1d_points().coords, .size, .numpoints,
                                                                      Points.enumerate(), grid[idx], np.ravel_multi_index
    np_reshape / nd_reshape           vs  np.reshape(flat, s), Points.reshape(s)                 (ValueError = None)
    take_idx / take_cols              vs  l[idx], t[:, idx], Points.coords[idx]                   (IndexError = None)
    default_weights_z                 vs  arim.ut.default_timetrace_weights(tx, rx)   (lists / numpy integers of any dtype)
    arr2: a_rows, a_T, a_ascontiguous, a_asfortran, a_of_rows, a_get
                                      vs  a.tolist(), a.T, np.ascontiguousarray, Rays.to_fortran_order().times,
                                          FocalLaw(a.T, a.T).lookup_times_tx, np.array(rows), a[i, j]  (buffer = ravel("K"))
    lookup_shape_ok / tfm_result      vs  lookup_times.shape == (n, e) / TfmResult.__init__ (AssertionError)
    bcast_weights                     vs  FocalLaw(.., timetrace_weights=w).weigh_timetraces(ones((n, ns)))
                                          (GShapeDrift: compared with np.broadcast_shapes only, the library is NOT run)
    frame_complete / contact_tfm_warns / tfm_for_view_warns
                                      vs  Frame.is_complete_assuming_reciprocity(), the logger.warning records of real
                                          contact_tfm / tfm_for_view calls
    in_rectbox / points_in_rectbox    vs  Points.points_in_rectbox, geometry.points_in_rectbox
    nanmax / mask_select / maximum_intensity_in_area / maximum_intensity_in_rectbox(_nd) / abs_real / abs_cplx
                                      vs  TfmResult.maximum_intensity_in_area / _in_rectbox, res[area]
  pipeline cases (NumF on dyadic-exact inputs; exact when numtimetraces is a power of two, else 2^-51 relative:
  numba fastmath turns `/ numtimetraces` into a multiplication by the reciprocal)
    contact_tfm_nd      vs  arim.im.tfm.contact_tfm on a Points grid of any shape and memory layout
    tfm_for_view_nd     vs  arim.im.tfm.tfm_for_view, grid of any shape
    tfm_for_view_mem    vs  arim.im.tfm.tfm_for_view with C- / Fortran-ordered rays.times
    contact_tfm_x       vs  contact_tfm(timetrace_weights = "default" / None / float / list / nested list):
                            GOk / GRaise / GShapeDrift.  An input that numpy would broadcast to a number of rows
                            different from frame.numtimetraces (GShapeDrift: out-of-bounds reads in the kernels) is
                            NEVER given to the library; only the model's classification is compared there.

Generated again since the repair of the model: default_weights_z on two EMPTY lists (the library raises ValueError from
np.nditer, the model answers None) and tfm_for_view_nd on a grid with FEWER (or more) points than the ray times have
columns, or with ray-time tables of two different widths on a grid of either size (the library raises in FocalLaw or in
reshape, the model answers None).
Remaining restriction: tables with no row do not know their number of columns (lookup_shape_ok, take_cols, amplitudes
are not given such tables).
"""
import logging
import math
import re
from contextlib import contextmanager
from types import SimpleNamespace

import numpy as np

from common import cZ, cfloat, clist, cpair, cbool, copt

COQ_IMPORTS = """From Coq Require Import ZArith List Bool Arith PrimFloat.
From Arim Require Import Base.Num Base.NumF Base.ListX Model.MinPlus Model.Fermat Model.Das Model.Frame Model.Tfm Model.TfmGlue.
Import ListNotations.
(* ---- tie-side encodings (no model content): N-d arrays as trees, bit-exact float equality ---- *)
Inductive tree (A : Type) := Leaf (a : A) | Node (l : list (tree A)).
Arguments Leaf {A}. Arguments Node {A}.
Fixpoint to_nd {A} (d : nat) : tree A -> option (ndt A d) :=
  match d return tree A -> option (ndt A d) with
  | O => fun t => match t with Leaf a => Some a | Node _ => None end
  | S d' => fun t => match t with Node l => mapM (to_nd d') l | Leaf _ => None end
  end.
Fixpoint of_nd {A} (d : nat) : ndt A d -> tree A :=
  match d return ndt A d -> tree A with
  | O => fun a => Leaf a
  | S d' => fun l => Node (map (of_nd d') l)
  end.
Fixpoint nd_all2 {A B} (e : A -> B -> bool) (d : nat) : ndt A d -> ndt B d -> bool :=
  match d return ndt A d -> ndt B d -> bool with
  | O => e
  | S d' => list_all2 (nd_all2 e d')
  end.
Definition feq (a b : float) : bool := PrimFloat.eqb a b || (negb (PrimFloat.eqb a a) && negb (PrimFloat.eqb b b)).
Definition isnanF (x : float) : bool := negb (PrimFloat.eqb x x).
Definition zpt : Type := (Z * Z * Z)%type.
Definition fpt : Type := (float * float * float)%type.
Definition zpt_eqb (a b : zpt) : bool :=
  let '(x, y, z) := a in let '(u, v, w) := b in Z.eqb x u && Z.eqb y v && Z.eqb z w.
Definition nats (l : list Z) : list nat := map Z.to_nat l.
Definition zs (l : list nat) : list Z := map Z.of_nat l.
Definition ozeqb (a : option nat) (b : option Z) : bool := option_eqb Z.eqb (option_map Z.of_nat a) b.
(* a tree against a model array of shape s *)
Definition nd_is {A B} (e : A -> B -> bool) (d : nat) (got : ndt A d) (exp : tree B) : bool :=
  match to_nd d exp with Some x => nd_all2 e d got x | None => false end.
(* outcome of a call: kind 0 = a value, 1 = an exception *)
Definition opt_is {A B} (e : A -> B -> bool) (got : option A) (kind : Z) (exp : B) : bool :=
  match got with Some a => Z.eqb kind 0 && e a exp | None => Z.eqb kind 1 end.
Definition arrL (A : Type) : Type := (Z * Z * bool * list A)%type.
Definition arr_of {A} (x : arrL A) : arr2 A := let '(m, p, f, b) := x in mkArr2 (Z.to_nat m) (Z.to_nat p) f b.
(* equality of 2-d arrays with their memory order; the order flag is not observable when a dimension is <= 1 *)
Definition arr_same {A} (e : A -> A -> bool) (a : arr2 A) (x : arrL A) : bool :=
  let b := arr_of x in
  Nat.eqb (a_m a) (a_m b) && Nat.eqb (a_p a) (a_p b) && list_eqb e (a_buf a) (a_buf b)
  && (Bool.eqb (a_forder a) (a_forder b) || Nat.leb (a_m a) 1 || Nat.leb (a_p a) 1).
Definition obox : Type := list (option float).
Definition box_of (l : obox) : rectbox (T:=float) :=
  mkBox (nth 0 l None) (nth 1 l None) (nth 2 l None) (nth 3 l None) (nth 4 l None) (nth 5 l None).
Definition fabs_c (cplx : bool) (v : float * float) : float := if cplx then abs_cplx NumF v else abs_real NumF (fst v).
Definition glue_code {A} (g : glue_result A) : Z := match g with GOk _ => 0 | GRaise => 1 | GShapeDrift => 2 end%Z.

(* ---- unit cases ---- *)
Inductive ucase :=
  (* shape, grid.coords, to_1d_points().coords, size, numpoints, list(np.ndindex(shape)),
     probes: multi-index, grid[idx] (None = IndexError / not a full index), np.ravel_multi_index (None = ValueError) *)
  | UGrid (s : list Z) (g : tree zpt) (flat : list zpt) (size np_ : Z) (ndi : list (list Z))
          (probes : list (list Z * bool * option zpt * option Z))
  (* np.reshape(flat, s) / Points.reshape(s): kind 0 value / 1 ValueError *)
  | UReshapeZ (s : list Z) (flat : list Z) (kind : Z) (exp : tree Z)
  | UReshapeP (s : list Z) (flat : list zpt) (kind : Z) (exp : tree zpt)
  | UTake (idx : list Z) (l : list Z) (exp : option (list Z)) (t : list (list Z)) (expc : option (list (list Z)))
  | UWeights (tx rx : list Z) (exp : option (list Z))
  (* a 2-d array, its tolist(), .T, ascontiguousarray(a), asfortranarray(a) (= Rays.to_fortran_order().times),
     FocalLaw(a.T, a.T).lookup_times_tx, np.array(rows), the entries a[i, j] of `gets` *)
  | UArr (a : arrL Z) (rows : list (list Z)) (aT aC aF aTC aR : arrL Z) (gets : list (Z * Z * Z))
  | UShape (lt : list (list Z)) (n e : Z) (exp : bool) (rs gs : list Z) (exp2 : bool)
  | UBcast (w : list float) (n : Z) (kind : Z) (exp : list float)
  | UComplete (pairs : list (Z * Z)) (amps : bool) (complete warns_contact warns_view : bool)
  | URect (b : obox) (s : list Z) (g : tree fpt) (exp : tree bool)
  (* res (flat), complex?, area (None / mask), maximum_intensity_in_area: kind 0 value / 1 ValueError; res[area] *)
  | UMaxArea (cplx : bool) (res : list (float * float)) (area : option (list bool)) (kind : Z) (exp : float)
             (sel : list (float * float))
  | UMaxBox (cplx : bool) (b : obox) (s : list Z) (g : tree fpt) (res : tree (float * float)) (kind : Z) (exp : float).

Definition cfeq (a b : float * float) : bool := feq (fst a) (fst b) && feq (snd a) (snd b).

Definition u_checks (c : ucase) : list bool :=
  match c with
  | UGrid s g flat size np_ ndi probes =>
      let sn := nats s in let d := length sn in
      match to_nd d g with
      | None => [false]
      | Some a =>
          [ nd_okb sn a;
            list_eqb zpt_eqb (nd_flatten d a) flat;
            Z.eqb (Z.of_nat (shape_size sn)) size && Z.eqb (Z.of_nat (shape_size sn)) np_;
            list_eqb (list_eqb Z.eqb) (map zs (ndindex sn)) ndi;
            forallb (fun pr => let '(idx, full, ev, er) := pr in
                       (negb full || option_eqb zpt_eqb (nd_get d a (nats idx)) ev)
                       && ozeqb (ravel sn (nats idx)) er) probes;
            (* the k-th multi-index of ndindex holds element k of the flat array *)
            list_eqb (option_eqb zpt_eqb) (map (nd_get d a) (ndindex sn)) (map Some flat) ]
      end
  | UReshapeZ s flat kind exp =>
      let sn := nats s in
      [ match np_reshape 0%Z sn flat with
        | Some a => Z.eqb kind 0 && nd_is Z.eqb (length sn) a exp
        | None => Z.eqb kind 1 end ]
  | UReshapeP s flat kind exp =>
      let sn := nats s in
      [ match np_reshape (0, 0, 0)%Z sn flat with
        | Some a => Z.eqb kind 0 && nd_is zpt_eqb (length sn) a exp
        | None => Z.eqb kind 1 end ]
  | UTake idx l exp t expc =>
      [ option_eqb (list_eqb Z.eqb) (take_idx (nats idx) l) exp;
        option_eqb (list_eqb (list_eqb Z.eqb)) (take_cols (nats idx) t) expc ]
  | UWeights tx rx exp => [ option_eqb (list_eqb Z.eqb) (default_weights_z tx rx) exp ]
  | UArr a rows aT aC aF aTC aR gets =>
      let x := arr_of a in
      [ list_eqb (list_eqb Z.eqb) (a_rows 0%Z x) rows;
        arr_same Z.eqb (a_T x) aT;
        arr_same Z.eqb (a_ascontiguous 0%Z x) aC;
        arr_same Z.eqb (a_asfortran 0%Z x) aF;
        arr_same Z.eqb (a_ascontiguous 0%Z (a_T x)) aTC;
        arr_same Z.eqb (a_of_rows (a_p x) rows) aR;
        forallb (fun g => let '(i, j, v) := g in Z.eqb (a_get 0%Z x (Z.to_nat i) (Z.to_nat j)) v) gets ]
  | UShape lt n e exp rs gs exp2 =>
      [ Bool.eqb (lookup_shape_ok (T:=Z) lt (Z.to_nat n) (Z.to_nat e)) exp;
        Bool.eqb (tfm_result (nats rs) (nats gs)) exp2 ]
  | UBcast w n kind exp =>
      let r := bcast_weights NumF w (Z.to_nat n) in
      [ Z.eqb (glue_code r) kind;
        match r with GOk w' => list_eqb feq w' exp | _ => true end ]
  | UComplete pairs amps complete wc wv =>
      let ss := map (fun p => mkScan (D:=Z) (Z.to_nat (fst p)) (Z.to_nat (snd p)) []) pairs in
      [ Bool.eqb (frame_complete ss) complete;
        Bool.eqb (contact_tfm_warns (if amps then Some ([], []) else None) ss) wc;
        Bool.eqb (tfm_for_view_warns ss) wv ]
  | URect b s g exp =>
      let d := length (nats s) in
      match to_nd d g with
      | None => [false]
      | Some a => [ nd_is Bool.eqb d (points_in_rectbox NumF (box_of b) d a) exp;
                    list_eqb Bool.eqb (map (in_rectbox NumF (box_of b)) (nd_flatten d a))
                                      (match to_nd d exp with Some m => nd_flatten d m | None => [] end) ]
      end
  | UMaxArea cplx res area kind exp sel =>
      [ opt_is feq (maximum_intensity_in_area NumF isnanF (fabs_c cplx) res area) kind exp;
        list_eqb cfeq (match area with Some m => mask_select res m | None => res end) sel;
        opt_is feq (nanmax NumF isnanF (map (fabs_c cplx) sel)) kind exp ]
  | UMaxBox cplx b s g res kind exp =>
      let d := length (nats s) in
      match to_nd d g, to_nd d res with
      | Some a, Some r =>
          [ opt_is feq (maximum_intensity_in_rectbox_nd NumF isnanF (fabs_c cplx) d a r (box_of b)) kind exp;
            opt_is feq (maximum_intensity_in_rectbox NumF isnanF (fabs_c cplx) (nd_flatten d a) (nd_flatten d r) (box_of b)) kind exp ]
      | _, _ => [false]
      end
  end.
Definition check_u (c : ucase) : bool := forallb (fun b => b) (u_checks c).
(* ---- pipeline cases (binary64, exact on dyadic inputs) ---- *)
Record pcase := mkP {
  p_kind : Z;             (* 0 contact_tfm_nd, 1 tfm_for_view_nd, 2 tfm_for_view_mem, 3 contact_tfm_x *)
  p_cplx : bool; p_scheme : Z; p_ns : Z; p_dt : float; p_t0 : float; p_fill : float * float;
  p_shape : list Z;       (* grid.shape *)
  p_grid : tree fpt;      (* grid.coords (contact) *)
  p_probe : list fpt; p_vel : float;
  p_wmode : Z;            (* 0 "default", 1 None, 2 a float (hd p_w), 3 a list, 4 a nested list (ndim 2) *)
  p_w : list float;
  p_ttx : list (list float); p_trx : list (list float);   (* rays.times.tolist() (kind 1) *)
  p_atx_mem : arrL float; p_arx_mem : arrL float;          (* rays.times with its memory order (kind 2) *)
  p_amp : bool; p_atx : list (list (float * float)); p_arx : list (list (float * float));
  p_scans : list (Z * Z * list (float * float));
  p_exp_kind : Z;         (* 0 a TfmResult, 1 an exception, 2 shape drift (the library is NOT run) *)
  p_exp : tree (float * float);   (* TfmResult.res *)
  p_atol : float;
  p_warn : Z }.           (* 1 / 0: the logger warned / did not; -1 not observed *)

Section PExec.
  Context {D : Type} (V : Data float D) (inj : float * float -> D) (proj : D -> float * float).
  Definition p_ss (c : pcase) : list (scan D) :=
    map (fun s => mkScan (Z.to_nat (fst (fst s))) (Z.to_nat (snd (fst s))) (map inj (snd s))) (p_scans c).
  Definition p_amps (c : pcase) : option (list (list D) * list (list D)) :=
    if p_amp c then Some (map (map inj) (p_atx c), map (map inj) (p_arx c)) else None.
  Definition p_sc (c : pcase) : scheme :=
    if (p_scheme c =? 0)%Z then Nearest else if (p_scheme c =? 1)%Z then Linear else Lanczos 3.
  (* the model's answer: outcome code and image *)
  Definition p_answer (c : pcase) : Z * tree (float * float) :=
    let s := nats (p_shape c) in let d := length s in
    let ss := p_ss c in let amps := p_amps c in let fill := inj (p_fill c) in
    let bad := (9%Z, Node []) in
    let of_opt (d : nat) (o : option (ndt D d)) :=
      match o with Some img => (0%Z, of_nd d (nd_map proj d img)) | None => (1%Z, Node []) end in
    match p_kind c with
    | 0%Z =>
        match to_nd d (p_grid c) with
        | None => bad
        | Some grid =>
            let wa := if (p_wmode c =? 0)%Z then WDefault else if (p_wmode c =? 1)%Z then WNone else WGiven (p_w c) in
            of_opt d (contact_tfm_nd NumF V (p_sc c) (p_ns c) (p_dt c) (p_t0 c) fill wa s grid (p_probe c) (p_vel c) amps ss)
        end
    | 1%Z => of_opt d (tfm_for_view_nd NumF V (p_sc c) (p_ns c) (p_dt c) (p_t0 c) fill s
                                       (mkRays (p_ttx c) []) (mkRays (p_trx c) []) amps ss)
    | 2%Z => of_opt 1 (tfm_for_view_mem NumF V (p_sc c) (p_ns c) (p_dt c) (p_t0 c) fill
                                        (arr_of (p_atx_mem c)) (arr_of (p_arx_mem c)) amps ss)
    | 3%Z =>
        match to_nd 1 (p_grid c) with
        | None => bad
        | Some grid =>
            let wx := if (p_wmode c =? 0)%Z then XDefault else if (p_wmode c =? 1)%Z then XNone
                      else if (p_wmode c =? 2)%Z then XScalar (hd zero (p_w c))
                      else if (p_wmode c =? 3)%Z then XArray (p_w c) else XNd in
            match contact_tfm_x NumF V (p_sc c) (p_ns c) (p_dt c) (p_t0 c) fill wx grid (p_probe c) (p_vel c) amps ss with
            | GOk img => of_opt 1 (Some img)
            | GRaise => (1%Z, Node [])
            | GShapeDrift => (2%Z, Node [])
            end
        end
    | _ => bad
    end.
  Definition p_warns (c : pcase) : bool :=
    if ((p_kind c =? 0) || (p_kind c =? 3))%Z then contact_tfm_warns (p_amps c) (p_ss c) else tfm_for_view_warns (p_ss c).
End PExec.

Fixpoint tree_close (atol : float) (a b : tree (float * float)) {struct a} : bool :=
  match a, b with
  | Leaf x, Leaf y => cclose atol x y
  | Node l, Node m =>
      (fix go (l : list (tree (float * float))) (m : list (tree (float * float))) : bool :=
         match l, m with
         | [], [] => true
         | x :: l', y :: m' => tree_close atol x y && go l' m'
         | _, _ => false
         end) l m
  | _, _ => false
  end.
Definition p_model (c : pcase) : Z * tree (float * float) :=
  if p_cplx c then p_answer (DataCplx NumF) (fun v => v) (fun v => v) c
  else p_answer (DataReal NumF) fst (fun v => (v, zero)) c.
Definition p_model_warns (c : pcase) : bool :=
  if p_cplx c then p_warns (fun v => v) c else p_warns fst c.
Definition p_checks (c : pcase) : list bool :=
  let '(k, img) := p_model c in
  [ Z.eqb k (p_exp_kind c);
    negb (Z.eqb k 0) || negb (Z.eqb (p_exp_kind c) 0) || tree_close (p_atol c) img (p_exp c);
    Z.eqb (p_warn c) (-1) || Bool.eqb (p_model_warns c) (Z.eqb (p_warn c) 1) ].
Definition check_p (c : pcase) : bool := forallb (fun b => b) (p_checks c).
"""

U_OBS = {
    "UGrid": ["nd_okb", "nd_flatten", "shape_size", "ndindex", "nd_get/ravel", "nd_get o ndindex"],
    "UReshapeZ": ["np_reshape"], "UReshapeP": ["np_reshape"],
    "UTake": ["take_idx", "take_cols"],
    "UWeights": ["default_weights_z"],
    "UArr": ["a_rows", "a_T", "a_ascontiguous", "a_asfortran", "a_ascontiguous o a_T", "a_of_rows", "a_get"],
    "UShape": ["lookup_shape_ok", "tfm_result"],
    "UBcast": ["bcast_weights (outcome)", "bcast_weights (weights applied)"],
    "UComplete": ["frame_complete", "contact_tfm_warns", "tfm_for_view_warns"],
    "URect": ["points_in_rectbox", "in_rectbox"],
    "UMaxArea": ["maximum_intensity_in_area", "mask_select", "nanmax"],
    "UMaxBox": ["maximum_intensity_in_rectbox_nd", "maximum_intensity_in_rectbox"],
}
P_OBS = ["outcome (TfmResult / exception / shape drift)", "image", "warning"]
P_KIND = {0: "contact_tfm_nd", 1: "tfm_for_view_nd", 2: "tfm_for_view_mem", 3: "contact_tfm_x"}
P_CORR = {0: "Model.TfmGlue.contact_tfm_nd vs arim.im.tfm.contact_tfm(frame, grid, velocity, amplitudes, timetrace_weights, ...)",
          1: "Model.TfmGlue.tfm_for_view_nd vs arim.im.tfm.tfm_for_view(frame, grid, view, amplitudes, ...)",
          2: "Model.TfmGlue.tfm_for_view_mem vs arim.im.tfm.tfm_for_view(...) with rays.times in C / Fortran order",
          3: "Model.TfmGlue.contact_tfm_x vs arim.im.tfm.contact_tfm(..., timetrace_weights=<explicit>)"}
INTERP = {0: "nearest", 1: "linear", 2: ("lanczos", 3)}


# ---------------------------------------------------------------------------------------------------------------
# Coq literals
# ---------------------------------------------------------------------------------------------------------------
def czpt(p):
    return "(" + ", ".join(cZ(int(v)) for v in p) + ")"


def cfpt(p):
    return "(" + ", ".join(cfloat(float(v)) for v in p) + ")"


def ccplx(v):
    v = complex(v)
    return cpair(cfloat(v.real), cfloat(v.imag))


def ctree(a, depth, leaf):
    """tree literal of the first `depth` axes of the array `a`"""
    if depth == 0:
        return "Leaf " + leaf(a)
    return "Node [" + "; ".join(ctree(a[i], depth - 1, leaf) for i in range(a.shape[0])) + "]"


def carr(a, conv):
    """(m, p, Fortran-ordered?, buffer) of a 2-d array that is C- or Fortran-contiguous"""
    a = np.asarray(a)
    assert a.ndim == 2 and (a.flags.c_contiguous or a.flags.f_contiguous), (a.shape, a.strides)
    forder = bool(a.flags.f_contiguous and not a.flags.c_contiguous)
    return f"({cZ(a.shape[0])}, {cZ(a.shape[1])}, {cbool(forder)}, {clist(list(a.ravel(order='K')), conv)})"


def ctab(a, conv):
    return clist([clist(list(row), conv) for row in a])


def cbox(b):
    return clist([copt(None if v is None else float(v), cfloat) for v in b])


def ints(a):
    """exact integers of an integer-valued array"""
    a = np.asarray(a)
    r = np.rint(a).astype(np.int64)
    assert np.array_equal(r, a), a
    return r


EMPTY_ARR = "(0%Z, 0%Z, false, [])"


class Case:
    __slots__ = ("tag", "lit", "family", "info", "corr", "exprs")

    def __init__(self, tag, lit, family, info, corr, exprs=()):
        self.tag, self.lit, self.family, self.info, self.corr, self.exprs = tag, lit, family, info, corr, list(exprs)


def _exc(e):
    return f"{type(e).__name__}: {str(e)[:160]}"


# ---------------------------------------------------------------------------------------------------------------
# the "noncomplete frame" warnings of arim.im.tfm, recorded from the real logger
# ---------------------------------------------------------------------------------------------------------------
class _Rec(logging.Handler):
    def __init__(self):
        super().__init__(level=logging.WARNING)
        self.msgs = []

    def emit(self, record):
        self.msgs.append(record.getMessage())


@contextmanager
def warning_recorder():
    lg = logging.getLogger("arim.im.tfm")
    old_level, old_prop = lg.level, lg.propagate
    h = _Rec()
    lg.addHandler(h)
    lg.setLevel(logging.WARNING)
    lg.propagate = False
    try:
        yield h
    finally:
        lg.removeHandler(h)
        lg.setLevel(old_level)
        lg.propagate = old_prop


def warned(rec, start):
    return any("noncomplete frame" in m for m in rec.msgs[start:])


# ---------------------------------------------------------------------------------------------------------------
# shapes and memory layouts
# ---------------------------------------------------------------------------------------------------------------
def rand_shape(rng, maxsize=24, zero=0.06):
    while True:
        d = int(rng.choice([0, 1, 1, 2, 2, 3, 3, 4]))
        s = tuple(int(0 if rng.random() < zero else rng.choice([1, 1, 2, 2, 3, 4, 5])) for _ in range(d))
        if int(np.prod(s, dtype=np.int64)) <= maxsize:
            return s


def shape_with(rng, total):
    """a shape with `total` points (any number of axes of length 1)"""
    if total == 1 and rng.random() < 0.25:
        return ()
    dims, rest = [], total
    while rest > 1 and rng.random() < 0.7:
        divs = [k for k in range(2, rest + 1) if rest % k == 0]
        k = int(rng.choice(divs))
        dims.append(k)
        rest //= k
    dims.append(rest)
    while len(dims) < 4 and rng.random() < 0.3:
        dims.insert(int(rng.integers(0, len(dims) + 1)), 1)
    if total == 0:
        dims = [int(v) for v in rng.choice([0, 1, 2, 3], size=int(rng.integers(1, 4)))]
        dims[int(rng.integers(0, len(dims)))] = 0
    p = rng.permutation(len(dims))
    return tuple(int(dims[i]) for i in p)


LAYOUTS = ["C", "C", "F", "strided", "reversed", "moved"]


def with_layout(rng, arr, kind=None):
    """the same logical array (last axis = x, y, z) stored differently"""
    kind = kind or str(rng.choice(LAYOUTS))
    arr = np.ascontiguousarray(arr)
    if kind == "F":
        out = np.asfortranarray(arr)
    elif kind == "strided":
        big = np.zeros((arr.shape[0] * 2,) + arr.shape[1:], dtype=arr.dtype)
        big[::2] = arr
        out = big[::2]
    elif kind == "reversed":
        out = np.ascontiguousarray(arr[::-1])[::-1]
    elif kind == "moved":       # coordinates stored as three planes x, y, z (np.stack(..., axis=0) moved to the back)
        out = np.moveaxis(np.ascontiguousarray(np.moveaxis(arr, -1, 0)), 0, -1)
    else:
        out = arr
    assert out.shape == arr.shape and np.array_equal(out, arr, equal_nan=True)
    return out, kind


# ---------------------------------------------------------------------------------------------------------------
# unit cases, part 1: N-d grids, reshape, take, default weights
# ---------------------------------------------------------------------------------------------------------------
def u_grid(arim, rng, coords=None, layout=None, probes=None, family="random"):
    g = arim.geometry
    if coords is None:
        s = rand_shape(rng)
        coords = rng.integers(-9, 10, size=s + (3,)).astype(rng.choice([np.float64, np.float64, np.float32, np.int64]))
    coords, layout = with_layout(rng, np.asarray(coords), layout)
    grid = g.Points(coords, "Grid")
    s = tuple(int(v) for v in grid.shape)
    d = len(s)
    flat = ints(grid.to_1d_points().coords)
    assert flat.ndim == 2
    ndi = [[int(v) for v in idx] for idx, _ in grid.enumerate()]
    enum_pts = [ints(p).tolist() for _, p in grid.enumerate()]
    pr = [] if probes is None else [list(p) for p in probes]
    if probes is None:
        for _ in range(6):
            k = d if rng.random() < 0.8 else int(rng.integers(0, d + 2))
            pr.append([int(rng.integers(0, (s[a] if a < d else 2) + 2)) if rng.random() < 0.3
                       else int(rng.integers(0, max(s[a] if a < d else 2, 1))) for a in range(k)])
    plits, pinfo = [], []
    for idx in pr:
        spelled = tuple(np.int64(v) if rng.random() < 0.3 else int(v) for v in idx)
        full = len(idx) == d
        ev = None
        if full:
            try:
                v = np.asarray(grid[spelled])
                ev = ints(v).tolist() if v.shape == (3,) else "not a point"
            except IndexError:
                ev = None
        try:
            er = int(np.ravel_multi_index(spelled, s))
        except ValueError:
            er = None
        if ev == "not a point":
            full, ev = False, None
        plits.append(f"({clist(idx, cZ)}, {cbool(full)}, {copt(ev, czpt)}, {copt(er, cZ)})")
        pinfo.append(dict(index=idx, grid_item=ev if full else "not compared", ravel_multi_index=er))
    # the points yielded by Points.enumerate(), as further probes: (idx, point) against nd_get / ravel
    for k, (idx, pt) in enumerate(zip(ndi, enum_pts)):
        plits.append(f"({clist(idx, cZ)}, true, {copt(pt, czpt)}, {copt(k, cZ)})")
    gt = ctree(ints(grid.coords), d, czpt)
    lit = (f"UGrid {clist(s, cZ)} ({gt}) {clist(flat.tolist(), czpt)} {cZ(grid.size)} {cZ(grid.numpoints)} "
           f"{clist([clist(i, cZ) for i in ndi])} {clist(plits)}")
    info = dict(shape=list(s), coords=ints(grid.coords).tolist(), memory_layout=layout, dtype=str(coords.dtype),
                arim=dict(to_1d_points=flat.tolist(), size=int(grid.size), numpoints=int(grid.numpoints),
                          enumerate_indices=ndi, enumerate_points=enum_pts, probes=pinfo))
    sn = clist(s, cZ)
    exprs = [f"option_map (nd_flatten (length (nats {sn}))) (to_nd (length (nats {sn})) ({gt}))",
             f"shape_size (nats {sn})", f"ndindex (nats {sn})"] + \
            [f"(option_map (fun a => nd_get (length (nats {sn})) a (nats {clist(i, cZ)})) (to_nd (length (nats {sn})) ({gt})), "
             f"ravel (nats {sn}) (nats {clist(i, cZ)}))" for i in pr[:4]]
    return Case("UGrid", lit, f"UGrid:{family}:ndim={d}:{layout}" + (":empty" if grid.size == 0 else ""), info,
                "Model.TfmGlue.nd_flatten / shape_size / ndindex / nd_get / ravel vs Points.to_1d_points().coords / .size / "
                ".numpoints / Points.enumerate() / grid[idx] / np.ravel_multi_index", exprs)


def u_reshape(arim, rng, points, flat=None, s=None, family="random"):
    g = arim.geometry
    if s is None:
        s = rand_shape(rng)
        L = int(np.prod(s, dtype=np.int64))
        r = rng.random()
        if r < 0.3:
            L = max(0, L + int(rng.choice([-2, -1, 1, 2, 3])))
        elif r < 0.35:
            L = int(rng.integers(0, 10))
    else:
        L = len(flat)
    if flat is None:
        flat = rng.integers(-20, 21, size=(L, 3) if points else (L,))
    flat = np.asarray(flat)
    tag = "UReshapeP" if points else "UReshapeZ"
    conv = czpt if points else cZ
    layout = "C"
    try:
        if points:
            src, layout = with_layout(rng, flat.astype(float).reshape(L, 3))
            out = np.asarray(g.Points(src).reshape(tuple(s) if rng.random() < 0.8 or len(s) != 1 else int(s[0])).coords)
            ok = out.shape == tuple(s) + (3,)
        else:
            src = flat.astype(float)
            if L and rng.random() < 0.3:
                big = np.zeros(2 * L)
                big[::2] = src
                src, layout = big[::2], "strided"
            out = src.reshape(tuple(s))
            ok = out.shape == tuple(s)
        kind, exp, what = (0, ctree(ints(out), len(s), conv), ints(out).tolist()) if ok else (9, "Node []", f"shape {out.shape}")
    except ValueError as e:
        kind, exp, what = 1, "Node []", _exc(e)
    fl = clist([conv(v) for v in flat.tolist()])
    lit = f"{tag} {clist(s, cZ)} {fl} {cZ(kind)} ({exp})"
    dflt = "(0, 0, 0)%Z" if points else "0%Z"
    return Case(tag, lit, f"{tag}:{family}:ndim={len(s)}:{'value' if kind == 0 else 'ValueError'}",
                dict(shape=list(s), flat=flat.tolist(), memory_layout=layout, arim=what),
                "Model.TfmGlue.np_reshape vs " + ("arim.geometry.Points(flat).reshape(s).coords" if points else "numpy.ndarray.reshape(s) (res.reshape(grid.shape))"),
                [f"option_map (of_nd (length (nats {clist(s, cZ)}))) (np_reshape {dflt} (nats {clist(s, cZ)}) {fl})"])


def u_take(arim, rng):
    L = int(rng.integers(0, 8))
    l = rng.integers(-20, 21, size=L)
    k = int(rng.integers(0, 6))
    hi = L + 2 if rng.random() < 0.3 else max(L, 1)
    idx = [int(v) for v in rng.integers(0, hi, size=k)]
    nrows = int(rng.integers(1, 4))
    t = rng.integers(-20, 21, size=(nrows, L))
    spelled = np.asarray(idx, dtype=rng.choice([np.intp, np.int32, np.uint8])) if rng.random() < 0.5 else list(idx)
    if isinstance(spelled, list) and not spelled:
        spelled = np.zeros(0, dtype=np.intp)
    pts = arim.geometry.Points(np.stack([l, l, l], axis=-1).astype(float).reshape(L, 3))
    try:
        exp = [int(v) for v in l.astype(float)[spelled]]
        via_points = ints(pts.coords[spelled])[:, 0].tolist()
        if via_points != exp:
            exp = via_points
    except IndexError:
        exp = None
    try:
        expc = ints(np.asfortranarray(t.astype(float))[:, spelled]).tolist()
    except IndexError:
        expc = None
    lit = (f"UTake {clist(idx, cZ)} {clist(l.tolist(), cZ)} {copt(exp, lambda x: clist(x, cZ))} {ctab(t.tolist(), cZ)} "
           f"{copt(expc, lambda x: ctab(x, cZ))}")
    return Case("UTake", lit, "UTake:" + ("IndexError" if exp is None else "value") + (":repeated" if len(set(idx)) < len(idx) else ""),
                dict(l=l.tolist(), t=t.tolist(), idx=idx, arim=dict(take=exp, columns=expc)),
                "Model.TfmGlue.take_idx / take_cols vs l[idx] (Points.coords[idx]) / t[:, idx]",
                [f"take_idx (nats {clist(idx, cZ)}) {clist(l.tolist(), cZ)}", f"take_cols (nats {clist(idx, cZ)}) {ctab(t.tolist(), cZ)}"])


INT_DTYPES = [np.int8, np.uint8, np.int16, np.uint16, np.int32, np.uint32, np.int64, np.uint64]


def spell_ints(rng, vals):
    """a list of Python ints, or a numpy array of a dtype that holds the values"""
    vals = [int(v) for v in vals]
    if rng.random() < 0.4:
        return list(vals), "list"
    fits = [d for d in INT_DTYPES if all(np.iinfo(d).min <= v <= np.iinfo(d).max for v in vals)]
    d = fits[int(rng.integers(0, len(fits)))]
    return np.array(vals, dtype=d), np.dtype(d).name


def u_weights(arim, rng, tx=None, rx=None, family="random"):
    if tx is None:
        n = 0 if rng.random() < 0.08 else int(rng.integers(1, 9))    # n = 0: two empty lists (np.nditer raises ValueError)
        lo, hi = ((-3, 4) if rng.random() < 0.3 else (0, int(rng.integers(1, 6))))
        tx = rng.integers(lo, hi + 1, size=n)
        rx = rng.integers(lo, hi + 1, size=n)
        r = rng.random()
        if n == 0:
            pass
        elif r < 0.25:    # reciprocal closure of a random set: all weights 1
            tx, rx = np.concatenate([tx, rx]), np.concatenate([rx, tx])
        elif r < 0.4:     # length mismatch (one side may be empty)
            rx = rx[:int(rng.integers(0, n))] if rng.random() < 0.5 else np.concatenate([rx, rx[:1]])
        family = "random" + (":empty" if n == 0 else ":negative values" if lo < 0 else "")
    stx, dtx = spell_ints(rng, tx)
    srx, drx = spell_ints(rng, rx)
    try:
        w = arim.ut.default_timetrace_weights(stx, srx)
        exp = ints(w).tolist()
        if np.asarray(w).dtype.kind != "f" or np.asarray(w).shape != (len(tx),):
            exp = None
            family += ":unexpected result"
    except ValueError as e:
        exp = None
        family += ":ValueError"
    txl, rxl = clist([int(v) for v in tx], cZ), clist([int(v) for v in rx], cZ)
    return Case("UWeights", f"UWeights {txl} {rxl} {copt(exp, lambda x: clist(x, cZ))}", "UWeights:" + family,
                dict(tx=[int(v) for v in tx], rx=[int(v) for v in rx], tx_spelling=dtx, rx_spelling=drx, arim=exp),
                "Model.TfmGlue.default_weights_z vs arim.ut.default_timetrace_weights(tx, rx)",
                [f"default_weights_z {txl} {rxl}"])


# ---------------------------------------------------------------------------------------------------------------
# unit cases, part 2: memory order, shape assertions, weights broadcasting, complete frames
# ---------------------------------------------------------------------------------------------------------------
def _fermat_path(arim, n, m):
    g = arim.geometry
    p1 = g.Points(np.stack([np.arange(n) * 1.0, np.zeros(n), np.zeros(n)], axis=1), "A")
    p2 = g.Points(np.stack([np.arange(m) * 1.0, np.zeros(m), np.ones(m)], axis=1), "B")
    return arim.ray.FermatPath((p1, 1.0, p2))


def u_arr(arim, rng, a=None, family="random"):
    tfm = arim.im.tfm
    if a is None:
        m, p = (int(v) for v in rng.choice([0, 1, 2, 2, 3, 3, 4, 5], size=2))
        a = rng.integers(-30, 31, size=(m, p)).astype(float)
        if rng.random() < 0.5:
            a = np.asfortranarray(a)
    a = np.asarray(a, dtype=float)
    m, p = a.shape
    z = lambda v: cZ(int(v))    # noqa: E731
    rows = ints(a).tolist()
    how_f = "np.asfortranarray"
    if m >= 1 and p >= 1:
        rays = arim.ray.Rays(a, np.zeros((0, m, p), dtype=np.intp, order="F" if a.flags.f_contiguous and not a.flags.c_contiguous else "C"),
                             _fermat_path(arim, m, p))
        aF = rays.to_fortran_order().times
        how_f = "Rays.to_fortran_order().times"
    else:
        aF = np.asfortranarray(a)
    aTC = tfm.FocalLaw(a.T, a.T).lookup_times_tx
    aR = np.array(rows, dtype=float) if m else np.zeros((0, p))
    if aR.ndim != 2:
        aR = aR.reshape(m, p)
    gets = [(i, j, int(a[i, j])) for i in range(m) for j in range(p)]
    lit = (f"UArr {carr(a, z)} {ctab(rows, cZ)} {carr(a.T, z)} {carr(np.ascontiguousarray(a), z)} {carr(aF, z)} {carr(aTC, z)} "
           f"{carr(aR, z)} {clist([f'({cZ(i)}, {cZ(j)}, {cZ(v)})' for i, j, v in gets])}")
    order = "F" if (a.flags.f_contiguous and not a.flags.c_contiguous) else ("C" if not a.flags.f_contiguous else "both")
    x = f"(arr_of {carr(a, z)})"
    return Case("UArr", lit, f"UArr:{family}:{order}:{'empty' if 0 in (m, p) else 'vector' if 1 in (m, p) else 'matrix'}",
                dict(shape=[m, p], order=order, buffer=ints(a.ravel(order="K")).tolist(), fortran_by=how_f,
                     arim=dict(tolist=rows, T_buffer=ints(a.T.ravel(order="K")).tolist(),
                               fortran_buffer=ints(np.asarray(aF).ravel(order="K")).tolist(), fortran_flags=[bool(aF.flags.c_contiguous), bool(aF.flags.f_contiguous)],
                               focal_law_lookup_buffer=ints(np.asarray(aTC).ravel(order="K")).tolist(),
                               focal_law_lookup_flags=[bool(aTC.flags.c_contiguous), bool(aTC.flags.f_contiguous)], focal_law_lookup_shape=list(aTC.shape))),
                "Model.TfmGlue.a_rows / a_T / a_ascontiguous / a_asfortran / a_of_rows / a_get vs a.tolist() / a.T / np.ascontiguousarray / "
                "Rays.to_fortran_order().times / FocalLaw(a.T, a.T).lookup_times_tx / np.array(rows) / a[i, j]",
                [f"a_rows 0%Z {x}", f"a_T {x}", f"a_ascontiguous 0%Z {x}", f"a_asfortran 0%Z {x}", f"a_ascontiguous 0%Z (a_T {x})"])


def u_shape(arim, rng, rs=None, gs=None, family="random"):
    tfm, g = arim.im.tfm, arim.geometry
    r, c = int(rng.integers(1, 4)), int(rng.integers(0, 4))
    n, e = (r, c) if rng.random() < 0.5 else (int(rng.integers(0, 4)), int(rng.integers(0, 4)))
    lt = rng.integers(0, 9, size=(r, c))
    exp = lt.astype(float).shape == (n, e)
    if rs is None:
        rs = rand_shape(rng, maxsize=30, zero=0.1)
        q = rng.random()
        gs = rs if q < 0.4 else (rs[::-1] if q < 0.5 else (rs + (1,) if q < 0.6 else (rs[:-1] if q < 0.7 else rand_shape(rng, maxsize=30, zero=0.1))))
    try:
        obj = tfm.TfmResult(np.zeros(tuple(rs)), g.Points(np.zeros(tuple(gs) + (3,))))
        exp2 = obj.res.shape == tuple(rs)
    except AssertionError:
        exp2 = False
    lit = f"UShape {ctab(lt.tolist(), cZ)} {cZ(n)} {cZ(e)} {cbool(exp)} {clist(rs, cZ)} {clist(gs, cZ)} {cbool(exp2)}"
    return Case("UShape", lit, f"UShape:{family}:{'same' if exp2 else 'different'} shapes",
                dict(lookup_times_shape=[r, c], numpoints=n, numelements=e, res_shape=list(rs), grid_shape=list(gs),
                     arim=dict(shape_equal=bool(exp), TfmResult_accepts=bool(exp2))),
                "Model.TfmGlue.lookup_shape_ok / tfm_result vs lookup_times.shape == (n, e) / TfmResult.__init__ (AssertionError)",
                [f"tfm_result (nats {clist(rs, cZ)}) (nats {clist(gs, cZ)})"])


def broadcast_rows(n, ns, wlen):
    """number of rows numpy gives to  (n, ns) * (wlen, 1);  None = ValueError (computed without any arim code)"""
    try:
        return int(np.broadcast_shapes((n, ns), (wlen, 1))[0])
    except ValueError:
        return None


def u_bcast(arim, rng, w=None, n=None, family="random"):
    tfm = arim.im.tfm
    if w is None:
        n = int(rng.choice([1, 1, 2, 3, 4, 5]))
        L = n if rng.random() < 0.4 else int(rng.integers(0, 6))
        w = [float(v) for v in rng.choice([1.0, 2.0, 0.5, 3.0, 0.25, -1.0, 0.0], size=L)]
    ns = 2
    rows = broadcast_rows(n, ns, len(w))
    scalar = len(w) == 1 and rng.random() < 0.5
    if rows is not None and rows != n:
        kind, exp, what = 2, [], f"numpy would broadcast to {rows} rows for {n} timetraces: the library is not run"
    else:
        spelled = (w[0] if rng.random() < 0.5 else np.float64(w[0])) if scalar else list(w)
        fl = tfm.FocalLaw(np.zeros((1, 1)), np.zeros((1, 1)), None, spelled)
        try:
            out = fl.weigh_timetraces(np.ones((n, ns)))
            if out.shape == (n, ns) and np.array_equal(out[:, 0], out[:, 1]):
                kind, exp, what = 0, [float(v) for v in out[:, 0]], [float(v) for v in out[:, 0]]
            else:
                kind, exp, what = 9, [], f"result of shape {out.shape}"
        except ValueError as e:
            kind, exp, what = 1, [], _exc(e)
    lit = f"UBcast {clist(w, cfloat)} {cZ(n)} {cZ(kind)} {clist(exp, cfloat)}"
    return Case("UBcast", lit, f"UBcast:{family}:{['GOk', 'GRaise', 'GShapeDrift'][kind] if kind < 3 else 'other'}"
                + (":one weight" if len(w) == 1 else ":len(w)=n" if len(w) == n else ""),
                dict(weights=w, numtimetraces=n, given_as="float" if scalar else "list", arim=what),
                "Model.TfmGlue.bcast_weights vs FocalLaw(.., timetrace_weights=w).weigh_timetraces(ones((n, ns)))[:, 0] "
                "(GShapeDrift: np.broadcast_shapes only)",
                [f"bcast_weights NumF {clist(w, cfloat)} (Z.to_nat {cZ(n)})"])


def _namespace_view(ttx, trx):
    return SimpleNamespace(tx_path=SimpleNamespace(rays=SimpleNamespace(times=ttx)),
                           rx_path=SimpleNamespace(rays=SimpleNamespace(times=trx)))


def _probe(arim, coords):
    return arim.Probe(arim.geometry.Points(np.ascontiguousarray(coords, dtype=float), "Probe"), 1e6)


def gen_pairs(rng, ntx, nrx=None, pow2=False):
    """distinct (tx, rx) pairs: FMC, HMC (either orientation), random subsets, possibly permuted"""
    square = nrx is None or nrx == ntx
    nrx = ntx if nrx is None else nrx
    allp = [(i, j) for i in range(ntx) for j in range(nrx)]
    mode = str(rng.choice(["fmc", "hmc", "hmcrev", "subset", "subset", "halfmixed"] if square else ["fmc", "subset"]))
    if mode == "fmc":
        pairs = allp
    elif mode == "hmc":
        pairs = [(i, j) for i, j in allp if i <= j]
    elif mode == "hmcrev":
        pairs = [(j, i) for i, j in allp if i <= j]
    elif mode == "halfmixed":
        pairs = [((i, j) if rng.random() < 0.5 else (j, i)) for i, j in allp if i <= j]
    else:
        k = int(rng.integers(1, len(allp) + 1))
        pairs = [allp[i] for i in rng.choice(len(allp), size=k, replace=False)]
    if pow2 and len(pairs) & (len(pairs) - 1):
        k = 1 << (len(pairs).bit_length() - 1)
        pairs = [pairs[i] for i in sorted(rng.choice(len(pairs), size=k, replace=False))]
        mode += ":cut to 2^k"
    if rng.random() < 0.4:
        pairs = [pairs[i] for i in rng.permutation(len(pairs))]
        mode += ":permuted"
    # int64 only: every index dtype is one more numba specialisation of each kernel (about 1 s each); the dtypes of tx / rx are
    # exercised on default_weights_z (unit cases) and by the main C12 check
    dt = np.int64
    tx = np.ascontiguousarray(np.array([p[0] for p in pairs], dtype=dt))
    rx = np.ascontiguousarray(np.array([p[1] for p in pairs], dtype=dt))
    return tx, rx, mode


def u_complete(arim, rng, rec, pairs=None, family="random"):
    tfm, g = arim.im.tfm, arim.geometry
    if pairs is None:
        nel = int(rng.integers(1, 5))
        tx, rx, family = gen_pairs(rng, nel)
        if rng.random() < 0.3:      # reciprocal closure: complete
            ps = list(dict.fromkeys(list(zip(tx.tolist(), rx.tolist())) + list(zip(rx.tolist(), tx.tolist()))))
            tx, rx = np.array([p[0] for p in ps]), np.array([p[1] for p in ps])
            family += ":closed"
    else:
        tx, rx = np.array([p[0] for p in pairs]), np.array([p[1] for p in pairs])
    nel = int(max(tx.max(), rx.max())) + 1
    N = len(tx)
    frame = arim.Frame(np.zeros((N, 2)), arim.Time(0.0, 1.0, 2), tx, rx,
                       _probe(arim, np.stack([np.arange(nel) * 1.0, np.zeros(nel), np.zeros(nel)], axis=1)), None)
    complete = bool(frame.is_complete_assuming_reciprocity())
    use_amps = bool(rng.integers(0, 2))
    grid = g.Points(np.array([[0.0, 0.0, 1.0]]))
    amps = tfm.TxRxAmplitudes(np.ones((1, nel)), np.ones((1, nel))) if use_amps else None
    k = len(rec.msgs)
    tfm.contact_tfm(frame, grid, 1.0, amplitudes=amps)
    wc = warned(rec, k)
    k = len(rec.msgs)
    tfm.tfm_for_view(frame, grid, _namespace_view(np.ones((nel, 1)), np.ones((nel, 1))))
    wv = warned(rec, k)
    pl = clist([f"({cZ(a)}, {cZ(b)})" for a, b in zip(tx.tolist(), rx.tolist())])
    lit = f"UComplete {pl} {cbool(use_amps)} {cbool(complete)} {cbool(wc)} {cbool(wv)}"
    return Case("UComplete", lit, f"UComplete:{family.split(':')[0]}:{'complete' if complete else 'incomplete'}:{'amplitudes' if use_amps else 'no amplitudes'}",
                dict(tx=tx.tolist(), rx=rx.tolist(), amplitudes=use_amps,
                     arim=dict(is_complete_assuming_reciprocity=complete, contact_tfm_warned=wc, tfm_for_view_warned=wv)),
                "Model.TfmGlue.frame_complete / contact_tfm_warns / tfm_for_view_warns vs Frame.is_complete_assuming_reciprocity() / "
                "logger.warning records of contact_tfm / tfm_for_view",
                [f"frame_complete (map (fun p => mkScan (D:=Z) (Z.to_nat (fst p)) (Z.to_nat (snd p)) []) {pl})"])


# ---------------------------------------------------------------------------------------------------------------
# unit cases, part 3: rectangular boxes and maximum intensity
# ---------------------------------------------------------------------------------------------------------------
BOX_NAMES = ["xmin", "xmax", "ymin", "ymax", "zmin", "zmax"]


def rand_box(rng, coords, p_none=0.5):
    """bounds drawn among the coordinates present (closed bounds are hit) or nearby; each None with probability p_none"""
    b = []
    flat = np.asarray(coords, dtype=float).reshape(-1, 3)
    for k in range(6):
        if rng.random() < p_none:
            b.append(None)
            continue
        axis = k // 2
        if len(flat) and rng.random() < 0.7:
            v = float(flat[int(rng.integers(0, len(flat))), axis])
            if v != v:
                v = 0.0
        else:
            v = float(rng.integers(-8, 9)) / 2
        if rng.random() < 0.15:
            v += float(rng.choice([-0.25, 0.25]))
        b.append(v)
    if rng.random() < 0.03:
        b[int(rng.integers(0, 6))] = float("nan")
    return b


def spell_box(rng, b):
    out = {}
    for name, v in zip(BOX_NAMES, b):
        if v is None:
            if rng.random() < 0.5:
                out[name] = None
        elif float(v).is_integer() and rng.random() < 0.3:
            out[name] = int(v)
        else:
            out[name] = np.float64(v) if rng.random() < 0.3 else float(v)
    return out


def rand_grid_f(rng, s=None, nan=0.04):
    s = rand_shape(rng, maxsize=18) if s is None else s
    c = rng.integers(-8, 9, size=tuple(s) + (3,)).astype(float) / 2
    if c.size and rng.random() < nan:
        c.reshape(-1)[int(rng.integers(0, c.size))] = float("nan")
    return c


def u_rect(arim, rng, coords=None, b=None, family="random"):
    g = arim.geometry
    if coords is None:
        coords = rand_grid_f(rng)
        b = rand_box(rng, coords)
    coords, layout = with_layout(rng, np.asarray(coords, dtype=float))
    grid = g.Points(coords)
    d = grid.ndim
    kw = spell_box(rng, b)
    if rng.random() < 0.5:
        mask = grid.points_in_rectbox(**kw)
        how = "Points.points_in_rectbox(**kw)"
    elif rng.random() < 0.5:
        mask = grid.points_in_rectbox(*b)
        how = "Points.points_in_rectbox(xmin, xmax, ymin, ymax, zmin, zmax)"
    else:
        mask = g.points_in_rectbox(grid.x, grid.y, grid.z, **kw)
        how = "geometry.points_in_rectbox(x, y, z, **kw)"
    mask = np.asarray(mask)
    ok = mask.dtype == bool and mask.shape == grid.shape
    mt = ctree(mask, d, lambda v: cbool(bool(v))) if ok else "Leaf true"
    gt = ctree(np.asarray(grid.coords), d, cfpt)
    lit = f"URect {cbox(b)} {clist(grid.shape, cZ)} ({gt}) ({mt})"
    return Case("URect", lit, f"URect:{family}:ndim={d}:bounds={sum(v is not None for v in b)}",
                dict(box=dict(zip(BOX_NAMES, b)), spelled=repr(kw), call=how, shape=list(grid.shape), coords=np.asarray(grid.coords).tolist(),
                     memory_layout=layout, arim=mask.tolist() if ok else f"dtype {mask.dtype}, shape {mask.shape}"),
                "Model.TfmGlue.points_in_rectbox / in_rectbox vs Points.points_in_rectbox / geometry.points_in_rectbox",
                [f"option_map (fun a => of_nd (length (nats {clist(grid.shape, cZ)})) (points_in_rectbox NumF (box_of {cbox(b)}) _ a)) "
                 f"(to_nd (length (nats {clist(grid.shape, cZ)})) ({gt}))"])


PYTH = [(3, 4), (4, 3), (5, 12), (12, 5), (8, 15), (6, 8), (7, 24), (0, 5), (5, 0), (0, 0), (9, 12), (20, 21)]


def rand_res(rng, shape, cplx, nan=0.15):
    n = int(np.prod(shape, dtype=np.int64))
    if cplx:
        v = np.zeros(n, dtype=complex)
        for k in range(n):
            a, b = PYTH[int(rng.integers(0, len(PYTH)))]
            sc = float(rng.choice([0.25, 0.5, 1.0, 2.0]))
            v[k] = complex(a * sc * rng.choice([-1, 1]), b * sc * rng.choice([-1, 1]))
    else:
        v = rng.integers(-40, 41, size=n).astype(float) / 4
    if n and rng.random() < nan:
        for k in rng.choice(n, size=int(rng.integers(1, n + 1)) if rng.random() < 0.3 else 1, replace=False):
            v[k] = complex(float("nan"), float(rng.choice([0.0, float("nan")]))) if cplx else float("nan")
    return v.reshape(shape)


def _call_max(f):
    try:
        with np.errstate(all="ignore"):
            v = f()
        return 0, float(v), float(v)
    except ValueError as e:
        return 1, 0.0, _exc(e)


def u_max_area(arim, rng, res=None, area="random", family="random"):
    tfm, g = arim.im.tfm, arim.geometry
    if res is None:
        cplx = rng.random() < 0.4
        res = rand_res(rng, (int(rng.integers(0, 9)),), cplx)
    res = np.asarray(res)
    cplx = np.iscomplexobj(res)
    n = len(res)
    if isinstance(area, str):
        r = rng.random()
        area = None if r < 0.3 else (rng.random(n) < (0.0 if r < 0.4 else 0.5))
    R = tfm.TfmResult(res, g.Points(np.zeros((n, 3))))
    kind, exp, what = _call_max(lambda: R.maximum_intensity_in_area(None if area is None else np.asarray(area, dtype=bool)))
    sel = res if area is None else res[np.asarray(area, dtype=bool)]
    lit = (f"UMaxArea {cbool(cplx)} {clist(list(res), ccplx)} {copt(None if area is None else list(area), lambda m: clist([cbool(bool(x)) for x in m]))} "
           f"{cZ(kind)} {cfloat(exp)} {clist(list(sel), ccplx)}")
    return Case("UMaxArea", lit, f"UMaxArea:{family}:{'complex' if cplx else 'real'}:{'area None' if area is None else 'mask'}:"
                + ("ValueError" if kind else "nan" if exp != exp else "value") + (":with nan" if np.any(np.isnan(res)) else ""),
                dict(res=[[float(np.real(v)), float(np.imag(v))] for v in res], area=None if area is None else [bool(x) for x in area], arim=what),
                "Model.TfmGlue.maximum_intensity_in_area / mask_select / nanmax vs TfmResult.maximum_intensity_in_area(area) / res[area]",
                [f"maximum_intensity_in_area NumF isnanF (fabs_c {cbool(cplx)}) {clist(list(res), ccplx)} "
                 f"{copt(None if area is None else list(area), lambda m: clist([cbool(bool(x)) for x in m]))}"])


def u_max_box(arim, rng, coords=None, res=None, b=None, family="random"):
    tfm, g = arim.im.tfm, arim.geometry
    if coords is None:
        coords = rand_grid_f(rng)
        res = rand_res(rng, coords.shape[:-1], rng.random() < 0.4)
        b = rand_box(rng, coords, p_none=0.65)
    coords, layout = with_layout(rng, np.asarray(coords, dtype=float))
    res = np.asarray(res)
    if res.ndim >= 2 and rng.random() < 0.3:
        res = np.asfortranarray(res)
    cplx = np.iscomplexobj(res)
    grid = g.Points(coords)
    d = grid.ndim
    R = tfm.TfmResult(res, grid)
    kw = spell_box(rng, b)
    kind, exp, what = _call_max((lambda: R.maximum_intensity_in_rectbox(**kw)) if rng.random() < 0.6 else (lambda: R.maximum_intensity_in_rectbox(*b)))
    gt, rt = ctree(np.asarray(grid.coords), d, cfpt), ctree(res, d, ccplx)
    lit = f"UMaxBox {cbool(cplx)} {cbox(b)} {clist(grid.shape, cZ)} ({gt}) ({rt}) {cZ(kind)} {cfloat(exp)}"
    sn = f"(length (nats {clist(grid.shape, cZ)}))"
    return Case("UMaxBox", lit, f"UMaxBox:{family}:ndim={d}:{'complex' if cplx else 'real'}:" + ("ValueError" if kind else "nan" if exp != exp else "value"),
                dict(box=dict(zip(BOX_NAMES, b)), spelled=repr(kw), shape=list(grid.shape), coords=np.asarray(grid.coords).tolist(), memory_layout=layout,
                     res=np.stack([np.real(res), np.imag(res)], axis=-1).tolist(), arim=what),
                "Model.TfmGlue.maximum_intensity_in_rectbox_nd / maximum_intensity_in_rectbox vs TfmResult(res, grid).maximum_intensity_in_rectbox(...)",
                [f"match to_nd {sn} ({gt}), to_nd {sn} ({rt}) with Some a, Some r => "
                 f"maximum_intensity_in_rectbox_nd NumF isnanF (fabs_c {cbool(cplx)}) {sn} a r (box_of {cbox(b)}) | _, _ => None end"])


# ---------------------------------------------------------------------------------------------------------------
# pipeline cases: dyadic-exact scenes
# ---------------------------------------------------------------------------------------------------------------
def _issq(n):
    r = math.isqrt(n)
    return r * r == n


def exact_scene(rng, nel=None):
    """integer probe coordinates E (nel, 3) and a pool of integer points at integer distances from every element"""
    nel = int(nel or rng.integers(1, 5))
    fam = int(rng.integers(0, 4)) if nel <= 2 else int(rng.integers(1, 4))
    if fam == 0:
        E = [(0, 0, 0), (3, 0, 0)][:nel]
        pool = [(0, 0, 4), (0, 0, 0), (8, 0, 0), (1, 0, 0), (-4, 0, 0), (0, 4, 0), (3, 0, 4), (0, -4, 0), (3, 4, 0), (3, 0, -4),
                (0, 0, -4), (3, -4, 0), (-5, 0, 0), (12, 0, 0)]
    elif fam == 1:
        ax = int(rng.integers(0, 3))
        ev = rng.choice(np.arange(-12, 13), size=nel, replace=False)
        gv = rng.choice(np.arange(-14, 15), size=10, replace=False)
        E = [tuple(int(v) if a == ax else 0 for a in range(3)) for v in ev]
        pool = [tuple(int(v) if a == ax else 0 for a in range(3)) for v in gv]
    elif fam == 2:
        xs = rng.choice(np.array([0, 5, -5, 9, -9, 16, -16, 35, -35]), size=nel, replace=False)
        E = [(int(x), 0, 0) for x in xs]
        pool = [(0, 0, 12), (0, 0, -12), (0, 12, 0), (0, -12, 0)]
        if all(abs(x) in (0, 16) for x in xs):
            pool += [(0, 0, 30), (0, 0, 63), (0, -30, 0)]
    else:
        a, b, c = [(2, 3, 6), (1, 4, 8), (4, 4, 7), (2, 6, 9), (6, 6, 7), (3, 4, 12), (8, 9, 12)][int(rng.integers(0, 7))]
        corners = list(dict.fromkeys([(a, b, 0), (-a, b, 0), (a, -b, 0), (-a, -b, 0), (b, a, 0), (-b, a, 0), (b, -a, 0), (-b, -a, 0)]))
        E = [corners[i] for i in rng.choice(len(corners), size=min(nel, len(corners)), replace=False)]
        pool = [(0, 0, c), (0, 0, -c)]
    E, pool = np.array(E, dtype=np.int64), np.array(pool, dtype=np.int64)
    d2 = ((pool[:, None, :] - E[None, :, :]) ** 2).sum(axis=2)
    assert all(_issq(int(v)) for v in d2.ravel())
    return E, pool, int(math.isqrt(int(d2.max())))


def exact_time_axis(rng, dmax):
    m, kv, q = int(rng.integers(0, 11)), int(rng.integers(-2, 13)), int(rng.integers(0, 3))
    s, vel = 2.0 ** -m, 2.0 ** kv
    dt = s / vel * 2.0 ** q
    t0 = int(rng.integers(-9, 10)) * dt / 4
    lmax = 2 * dmax * 2.0 ** -q
    ns = int(min(40, max(1, rng.integers(int(0.5 * lmax) + 1, int(1.3 * lmax) + 4))))
    return s, vel, dt, t0, ns


def rand_data(rng, N, ns, cplx):
    d = rng.integers(-8, 9, size=(N, ns)).astype(np.float64)
    if cplx:
        d = d + 1j * rng.integers(-8, 9, size=(N, ns))
    return np.ascontiguousarray(d)


AMP_VALUES = np.array([1, -1, 0.5, 2, 0.25, -0.5, 3, 0, 1, 1])


def _real_view(arim, ttx, trx):
    """a real arim View whose two paths carry real Rays objects with the given times"""
    g = arim.geometry
    nel, P = ttx.shape
    pts_probe = g.Points(np.stack([np.arange(nel) * 1e-3, np.zeros(nel), np.zeros(nel)], axis=1), "P")
    pts_grid = g.Points(np.stack([np.arange(P) * 1e-3, np.zeros(P), np.full(P, 5e-3)], axis=1), "G")
    mat = arim.Material(6300.0, 3100.0)
    i_probe = arim.Interface(*g.default_oriented_points(pts_probe))
    i_grid = arim.Interface(*g.default_oriented_points(pts_grid))
    paths = []
    for name, times in (("L", ttx), ("T", trx)):
        path = arim.Path([i_probe, i_grid], [mat], [name], name=name)
        fp = arim.ray.FermatPath.from_path(path)
        order = "F" if (times.flags.f_contiguous and not times.flags.c_contiguous) else "C"
        path.rays = arim.ray.Rays(times, np.zeros((0, nel, P), dtype=np.int64, order=order), fp, order)
        paths.append(path)
    return arim.View(paths[0], paths[1], "L-T")


def pipeline_case(arim, rec, *, kind, family, tx, rx, data, ns, dt, t0, scheme, fill, shape, grid=None, probe=None, vel=1.0,
                  wmode=1, w=(), ttx=None, trx=None, amps=None, view="namespace", layout="C", spelling=None, vel_spelling=None):
    """run the real library (unless numpy would broadcast the weights to a wrong number of rows) and write the Coq literal"""
    tfm, g = arim.im.tfm, arim.geometry
    N = len(tx)
    cplx = bool(np.iscomplexobj(data))
    contact = kind in (0, 3)
    shape = tuple(int(v) for v in shape)
    nel = len(probe) if contact else int(max(int(tx.max()), int(rx.max()))) + 1
    pcoords = np.asarray(probe, dtype=float) if contact else np.stack([np.arange(nel) * 1e-3, np.zeros(nel), np.zeros(nel)], axis=1)
    frame = arim.Frame(data, arim.Time(t0, dt, ns), tx, rx, _probe(arim, pcoords), None)
    if contact:
        gobj = g.Points(grid, "Grid")
        assert gobj.shape == shape
    else:
        P0 = int(np.prod(shape, dtype=np.int64))
        gobj = g.Points(np.stack([np.arange(P0) * 1e-3, np.zeros(P0), np.full(P0, 5e-3)], axis=1).reshape(shape + (3,)), "Grid")
    # the kernels index lookup tables and amplitude tables by frame.tx / frame.rx without bound checks
    assert int(tx.min()) >= 0 and int(rx.min()) >= 0
    if contact:
        assert int(tx.max()) < nel and int(rx.max()) < nel
    else:
        assert int(tx.max()) < ttx.shape[0] and int(rx.max()) < trx.shape[0]
    aobj = None if amps is None else tfm.TxRxAmplitudes(np.ascontiguousarray(amps[0]), np.ascontiguousarray(amps[1]))
    interp = INTERP[scheme] if spelling is None else spelling
    kw = dict(fillvalue=fill, interpolation=interp)
    if scheme == 0 and spelling is None and fill == 0.0 and family.startswith("fixed"):
        kw = {}
    tw = {0: "default", 1: None, 2: (w[0] if len(w) else None), 3: [float(v) for v in w], 4: [[float(v) for v in w]]}[wmode]
    if wmode == 2 and vel_spelling == "np":
        tw = np.float64(tw)
    wlen = {2: 1, 3: len(w)}.get(wmode)
    rows = N if wlen is None else broadcast_rows(N, ns, wlen)
    drift = rows is not None and rows != N
    res_tree, what, warn, ek = "Node []", None, -1, None
    if drift:
        # numpy broadcasts (N, ns) * (len(w), 1) to `rows` != N rows: the kernels would read frame.tx / frame.rx out of bounds.
        # The library is NOT run; only the model's classification is compared.
        assert kind == 3, "only the explicit-weights stream may produce such inputs"
        ek, what = 2, f"not run: numpy would broadcast the weights to {rows} rows for {N} timetraces"
    else:
        v = vel if vel_spelling is None else (int(vel) if vel_spelling == "int" else np.float64(vel))
        vobj = None if contact else (_real_view(arim, ttx, trx) if view == "real" else _namespace_view(ttx, trx))
        k0 = len(rec.msgs)
        try:
            with np.errstate(all="ignore"):
                if contact:
                    r = tfm.contact_tfm(frame, gobj, v, amplitudes=aobj, timetrace_weights=tw, **kw)
                else:
                    r = tfm.tfm_for_view(frame, gobj, vobj, amplitudes=aobj, **kw)
            res = np.asarray(r.res)
            if not isinstance(r, tfm.TfmResult) or r.grid is not gobj:
                ek, what = 9, "the result is not a TfmResult on the given grid"
            else:
                ek, what = 0, np.stack([np.real(res), np.imag(res)], axis=-1).tolist()
                flat = res if kind in (0, 1) else res.reshape(-1)
                res_tree = ctree(flat, flat.ndim, ccplx)
        except Exception as e:  # noqa: BLE001 - whatever the library raises is the outcome "exception"
            ek, what = 1, _exc(e)
        warn = 1 if warned(rec, k0) else 0
    atol = 0.0
    if ek == 0 and N & (N - 1):
        fin = np.abs(res[np.isfinite(res)])
        atol = 2.0 ** -51 * (float(fin.max()) if fin.size else 0.0)
    scans = clist([f"({cZ(t)}, {cZ(r_)}, {clist(list(x), ccplx)})" for t, r_, x in zip(tx.tolist(), rx.tolist(), data)])
    gt = ctree(np.asarray(gobj.coords), len(shape), cfpt) if contact else "Node []"
    amp_lit = ("true " + ctab(amps[0], ccplx) + " " + ctab(amps[1], ccplx)) if amps is not None else "false [] []"
    lit = ("mkP {k} {cplx} {sch} {ns} {dt} {t0} {fill} {shape} ({grid}) {probe} {vel} {wmode} {w} {ttx} {trx} {mtx} {mrx} {amp} {scans} "
           "{ek} ({exp}) {atol} {warn}").format(
        k=cZ(kind), cplx=cbool(cplx), sch=cZ(scheme), ns=cZ(ns), dt=cfloat(dt), t0=cfloat(t0), fill=cpair(cfloat(fill), cfloat(0.0)),
        shape=clist(shape, cZ), grid=gt, probe=clist([cfpt(p) for p in pcoords]) if contact else "[]", vel=cfloat(vel),
        wmode=cZ(wmode), w=clist([float(v) for v in w], cfloat),
        ttx=ctab(ttx.tolist(), cfloat) if kind == 1 else "[]", trx=ctab(trx.tolist(), cfloat) if kind == 1 else "[]",
        mtx=carr(ttx, cfloat) if kind == 2 else EMPTY_ARR, mrx=carr(trx, cfloat) if kind == 2 else EMPTY_ARR,
        amp=amp_lit, scans=scans, ek=cZ(ek), exp=res_tree, atol=cfloat(atol), warn=cZ(warn))
    info = dict(function=P_KIND[kind], family=family, grid_shape=list(shape), tx=tx.tolist(), rx=rx.tolist(), index_dtype=str(tx.dtype),
                timetraces=np.stack([np.real(data), np.imag(data)], axis=-1).tolist() if cplx else np.asarray(data).tolist(),
                time=dict(start=float(t0).hex(), step=float(dt).hex(), num=ns), interpolation=repr(interp), fillvalue=fill,
                amplitudes=None if amps is None else [np.asarray(amps[0]).tolist(), np.asarray(amps[1]).tolist()],
                arim=dict(outcome={0: "TfmResult", 1: "exception", 2: "shape drift (not run)"}.get(ek, "other"), res_or_error=what, warned=warn),
                tolerance=atol)
    if contact:
        info.update(grid=np.asarray(gobj.coords).tolist(), grid_memory_layout=layout, probe=pcoords.tolist(), velocity=float(vel).hex(),
                    velocity_spelling=vel_spelling or "float", timetrace_weights=repr(tw))
    else:
        info.update(times_tx=ttx.tolist(), times_rx=trx.tolist(),
                    order_tx="F" if (ttx.flags.f_contiguous and not ttx.flags.c_contiguous) else "C",
                    order_rx="F" if (trx.flags.f_contiguous and not trx.flags.c_contiguous) else "C", view_object=view)
    out = {0: "ok", 1: "raises", 2: "drift"}.get(ek, "other")
    c = Case("P", lit, f"{P_KIND[kind]}:{family}:{out}", info, P_CORR[kind])
    c.exprs = ["p_checks c0", "p_model c0", "p_model_warns c0"]
    return c


# ---------------------------------------------------------------------------------------------------------------
# pipeline generators
# ---------------------------------------------------------------------------------------------------------------
def _scheme_fill(rng):
    scheme = int(rng.integers(0, 2))
    fill = [0.0, 0.0, float("nan"), -7.0][int(rng.integers(0, 4))]
    spelling = None
    if rng.random() < 0.15:
        spelling = ["Nearest", "LINEAR"][scheme] if rng.random() < 0.5 else ["NEAREST", "Linear"][scheme]
    return scheme, fill, spelling


def _vel_spelling(rng, vel):
    r = rng.random()
    if r < 0.2 and float(vel).is_integer():
        return "int"
    return "np" if r < 0.35 else None


def _amps(rng, P, ntx, nrx):
    return (np.ascontiguousarray(rng.choice(AMP_VALUES, size=(P, ntx))), np.ascontiguousarray(rng.choice(AMP_VALUES, size=(P, nrx))))


def _bad_amps(rng, amps):
    """amplitude tables of a wrong shape (FocalLaw asserts before any kernel runs)"""
    atx, arx = amps
    P, n = atx.shape
    which = int(rng.integers(0, 4))
    if which == 0:
        atx = np.ascontiguousarray(np.vstack([atx, atx[:1]]))
    elif which == 1:
        arx = np.ascontiguousarray(arx[:-1]) if P > 1 else np.ascontiguousarray(np.vstack([arx, arx]))
    elif which == 2:
        atx = np.ascontiguousarray(np.hstack([atx, atx[:, :1]]))
    else:
        arx = np.ascontiguousarray(np.hstack([arx, arx[:, :1]]))
    return atx, arx


def gen_contact_nd(arim, rec, rng, error=None):
    nel = int(rng.integers(1, 5))
    E, pool, dmax = exact_scene(rng, nel)
    nel = len(E)
    s, vel, dt, t0, ns = exact_time_axis(rng, dmax)
    P = 0 if (error is None and rng.random() < 0.05) else int(rng.integers(1, 10))
    shape = shape_with(rng, P)
    G = pool[rng.integers(0, len(pool), size=P)].reshape(shape + (3,)) * s
    G, layout = with_layout(rng, G.astype(float))
    tx, rx, mode = gen_pairs(rng, nel, pow2=rng.random() < 0.6)
    N = len(tx)
    cplx = error is None and rng.random() < 0.12
    data = rand_data(rng, N, ns, cplx)
    scheme, fill, spelling = _scheme_fill(rng)
    wmode = int(rng.choice([0, 0, 1, 3]))
    w = [float(v) for v in rng.choice([1, 2, 0.5, 3, 0.25], size=N)] if wmode == 3 else []
    amps = _amps(rng, P, nel, nel) if (P and not cplx and rng.random() < 0.3) else None
    fam = f"ndim={len(shape)}:{mode.split(':')[0]}:{'amp' if amps else 'noamp'}:{['nearest', 'linear'][scheme]}:w={['default', 'None', '', 'list'][wmode]}"
    if P == 0:
        fam += ":empty grid"
    if error == "amps":
        amps = _bad_amps(rng, _amps(rng, P, nel, nel))
        fam = "error:amplitudes of a wrong shape"
    elif error == "weights":
        if N == 1:      # a one-timetrace frame with a wrong number of weights is the shape-drift input: never given to the library here
            wmode, w, error = 3, [2.0], None
            fam = "one timetrace, one weight"
        else:
            L = int(rng.choice([k for k in (0, 2, 3, N - 1, N + 1, 2 * N) if k not in (1, N)]))
            wmode, w = 3, [float(v) for v in rng.choice([1, 2, 0.5], size=L)]
            fam = "error:weights of a wrong length"
    elif error == "lanczos+amps":
        amps, scheme, spelling = _amps(rng, P, nel, nel), 2, None
        fam = "error:lanczos with amplitudes"
    return pipeline_case(arim, rec, kind=0, family=fam, tx=tx, rx=rx, data=data, ns=ns, dt=dt, t0=t0, scheme=scheme, fill=fill,
                         shape=shape, grid=G, probe=E * s, vel=vel, wmode=wmode, w=w, amps=amps, layout=layout, spelling=spelling,
                         vel_spelling=_vel_spelling(rng, vel))


def _ray_times(rng, nel, P, ns, dt, m):
    a = rng.integers(-3, 2 * ns + 4, size=(nel, P))
    t = (a + m) * (dt / 4)
    t = np.ascontiguousarray(t.astype(float))
    return np.asfortranarray(t) if rng.random() < 0.5 else t


def gen_view(arim, rec, rng, kind, error=None):
    """tfm_for_view on hand-made ray times sitting on quarter samples; kind 1: N-d grid, kind 2: memory order"""
    P = int(rng.integers(1, 9))
    dt = 2.0 ** -int(rng.choice([0, 1, 3, 6, 20]))
    m = int(rng.integers(-9, 10))
    t0 = m * dt / 4
    ns = int(rng.integers(1, 13))
    real_view = error is None and rng.random() < 0.5
    ntx = int(rng.integers(1, 5))
    nrx = ntx if (real_view or rng.random() < 0.7) else int(rng.integers(1, 5))
    ttx, trx = _ray_times(rng, ntx, P, ns, dt, 0), _ray_times(rng, nrx, P, ns, dt, m)
    tx, rx, mode = gen_pairs(rng, ntx, nrx, pow2=rng.random() < 0.6)
    N = len(tx)
    cplx = error is None and rng.random() < 0.12
    data = rand_data(rng, N, ns, cplx)
    scheme, fill, spelling = _scheme_fill(rng)
    amps = _amps(rng, P, ntx, nrx) if (not cplx and rng.random() < 0.3) else None
    shape = shape_with(rng, P) if kind == 1 else (P,)
    order = lambda a: "F" if (a.flags.f_contiguous and not a.flags.c_contiguous) else "C"    # noqa: E731
    fam = (f"ndim={len(shape)}:" if kind == 1 else "") + f"{order(ttx)}{order(trx)}:{mode.split(':')[0]}:{'amp' if amps else 'noamp'}:" \
        f"{['nearest', 'linear'][scheme]}:{'View+Rays' if real_view else 'namespace'}" + ("" if ntx == nrx else ":numtx!=numrx")
    if error == "grid":         # more OR FEWER grid points than columns of the ray times: res.reshape(grid.shape) raises ValueError
        P0 = int(rng.integers(max(0, P - 3), P)) if rng.random() < 0.5 else P + int(rng.integers(1, 4))
        shape = shape_with(rng, P0)
        fam = f"error:grid {'smaller' if P0 < P else 'larger'} than the ray times"
        if amps is not None and P0 and rng.random() < 0.5:    # amplitudes sized for the grid: FocalLaw asserts (tfm.py:228)
            amps = _amps(rng, P0, ntx, nrx)
            fam += ", amplitudes sized for the grid"
    elif error == "columns":    # the two ray-time tables have different numbers of columns: FocalLaw asserts (tfm.py:214)
        P2 = P - 1 if (P > 1 and rng.random() < 0.5) else P + 1
        if rng.random() < 0.5:
            trx = _ray_times(rng, nrx, P2, ns, dt, m)
            which = "rx"
        else:
            ttx = _ray_times(rng, ntx, P2, ns, dt, 0)
            which = "tx"
        P0 = int(rng.choice([P, P2]))       # the grid has the width of one of the two tables (the smaller or the larger)
        shape = shape_with(rng, P0) if kind == 1 else (P0,)
        amps = None
        odd, odd_width = (which, P2) if P0 == P else ({"tx": "rx", "rx": "tx"}[which], P)
        fam = f"error:ray times of different widths ({odd} table {'wider' if odd_width > P0 else 'narrower'} than the grid)"
    elif error == "amps":
        amps = _bad_amps(rng, _amps(rng, P, ntx, nrx))
        fam = "error:amplitudes of a wrong shape"
    elif error == "lanczos+amps":
        amps, scheme, spelling = _amps(rng, P, ntx, nrx), 2, None
        fam = "error:lanczos with amplitudes"
    return pipeline_case(arim, rec, kind=kind, family=fam, tx=tx, rx=rx, data=data, ns=ns, dt=dt, t0=t0, scheme=scheme, fill=fill,
                         shape=shape, ttx=ttx, trx=trx, amps=amps, view="real" if real_view else "namespace", spelling=spelling)


def gen_x(arim, rec, rng, wkind):
    """contact_tfm with every spelling of timetrace_weights, on frames of 1 .. 16 timetraces (1-d grid)"""
    nel = int(rng.integers(1, 4))
    E, pool, dmax = exact_scene(rng, nel)
    nel = len(E)
    s, vel, dt, t0, ns = exact_time_axis(rng, dmax)
    P = int(rng.integers(1, 5))
    G = (pool[rng.integers(0, len(pool), size=P)] * s).astype(float)
    tx, rx, mode = gen_pairs(rng, nel, pow2=rng.random() < 0.6)
    if wkind in ("drift", "one") or rng.random() < 0.25:
        k = int(rng.integers(0, len(tx)))
        tx, rx, mode = tx[k:k + 1].copy(), rx[k:k + 1].copy(), "one timetrace"
    N = len(tx)
    data = rand_data(rng, N, ns, False)
    scheme, fill, spelling = _scheme_fill(rng)
    vals = [1.0, 2.0, 0.5, 3.0, 0.25]
    if wkind == "default":
        wmode, w = 0, []
    elif wkind == "none":
        wmode, w = 1, []
    elif wkind == "scalar":
        wmode, w = 2, [float(rng.choice(vals))]
    elif wkind in ("full", "one"):
        wmode, w = 3, [float(v) for v in rng.choice(vals, size=N if wkind == "full" else 1)]
    elif wkind == "wrong":      # N >= 2: ValueError;  N == 1: shape drift (not run)
        L = int(rng.choice([k for k in (0, 2, 3, 4, N - 1, N + 1, 2 * N) if k not in (1, N) and k >= 0]))
        wmode, w = 3, [float(v) for v in rng.choice(vals, size=L)]
    elif wkind == "drift":
        L = int(rng.choice([0, 2, 3, 4, 7]))
        wmode, w = 3, [float(v) for v in rng.choice(vals, size=L)]
    else:                       # ndim 2
        wmode, w = 4, [float(v) for v in rng.choice(vals, size=N)]
    fam = f"w={wkind}:{'one timetrace' if N == 1 else 'N>=2'}:{['nearest', 'linear'][scheme]}"
    return pipeline_case(arim, rec, kind=3, family=fam, tx=tx, rx=rx, data=data, ns=ns, dt=dt, t0=t0, scheme=scheme, fill=fill,
                         shape=(P,), grid=G, probe=E * s, vel=vel, wmode=wmode, w=w, spelling=spelling,
                         vel_spelling="np" if rng.random() < 0.3 else None)


# ---------------------------------------------------------------------------------------------------------------
# the fixed examples of notes/prover_C12_TIE.md
# ---------------------------------------------------------------------------------------------------------------
EX_GRID3 = np.array([[[(0, 0, 4), (0, 0, 0), (8, 0, 0)]], [[(1, 0, 0), (-4, 0, 0), (0, 4, 0)]]], dtype=float)   # shape (2, 1, 3)
EX_GRID = np.array([(0, 0, 4), (3, 0, 4)], dtype=float)
EX_PROBE = np.array([(0, 0, 0), (3, 0, 0)], dtype=float)
FMC2 = [(0, 0), (0, 1), (1, 0), (1, 1)]
HMC2 = [(0, 0), (0, 1), (1, 1)]


def _ex_frame(pairs, ns=12):
    tx = np.array([p[0] for p in pairs], dtype=np.int64)
    rx = np.array([p[1] for p in pairs], dtype=np.int64)
    data = np.array([[100 * min(i, j) + 10 * max(i, j) + k for k in range(ns)] for i, j in pairs], dtype=float)
    return tx, rx, data


def fixed_units(arim, rng, rec):
    nn = [None] * 6
    out = [u_grid(arim, rng, EX_GRID3, "C", [[1, 0, 2], [1, 1, 0], [0, 0]], "fixed"),
           u_grid(arim, rng, EX_GRID3, "F", [[1, 0, 2], [1, 1, 0], [0, 0]], "fixed"),
           u_reshape(arim, rng, False, [10, 11, 12, 13, 14, 15], (3, 2), "fixed"),
           u_reshape(arim, rng, False, [10, 11, 12, 13, 14], (3, 2), "fixed"),
           u_reshape(arim, rng, False, [7], (), "fixed"),
           u_reshape(arim, rng, False, [], (2, 0), "fixed"),
           u_reshape(arim, rng, True, EX_GRID3.reshape(6, 3), (2, 1, 3), "fixed"),
           u_weights(arim, rng, [0, 0, 2, 1], [0, 1, 1, 0], "fixed"),
           u_weights(arim, rng, [0, 0, 0], [1, 1, 0], "fixed:repeated pair"),
           u_weights(arim, rng, [5, -3, 7, 7], [7, 5, 5, -3], "fixed:negative values"),
           u_weights(arim, rng, [0, 0, 0], [1, 1], "fixed:length mismatch"),
           u_weights(arim, rng, [], [], "fixed:empty"),
           u_weights(arim, rng, [], [3], "fixed:length mismatch"),
           u_arr(arim, rng, np.array([[1, 2, 3], [4, 5, 6.0]]), "fixed"),
           u_arr(arim, rng, np.asfortranarray(np.array([[1, 2, 3], [4, 5, 6.0]])), "fixed"),
           u_shape(arim, rng, (6,), (2, 1, 3), "fixed"),
           u_shape(arim, rng, (2, 1, 3), (2, 1, 3), "fixed")]
    for w, n in (([2.0], 4), ([1.0, 2.0, 3.0, 4.0], 4), ([1.0, 1.0, 1.0], 4), ([3.0], 1), ([1.0, 1.0, 1.0], 1), ([], 1), ([], 3)):
        out.append(u_bcast(arim, rng, w, n, "fixed"))
    for pairs in (HMC2, FMC2, [(1, 1), (0, 1), (0, 0)], [(0, 1)]):
        out.append(u_complete(arim, rng, rec, pairs, "fixed"))
    for b in (nn, [0, 0] + nn[2:], [3] + nn[1:], [10] + nn[1:]):
        out.append(u_max_box(arim, rng, EX_GRID, np.array([1.0, -5.0]), b, "fixed"))
    out.append(u_max_box(arim, rng, EX_GRID, np.array([3 + 4j, -5.0]), [None, 0] + nn[2:], "fixed"))
    out.append(u_max_box(arim, rng, EX_GRID3, np.array([[[1.0, -5, 2]], [[-9, 3, 4]]]), [None, 0] + nn[2:], "fixed"))
    out.append(u_max_area(arim, rng, np.array([1.0, -5.0]), None, "fixed"))
    out.append(u_max_area(arim, rng, np.array([float("nan"), float("nan")]), None, "fixed:all nan"))
    out.append(u_max_area(arim, rng, np.array([1.0, -5.0]), [False, False], "fixed:empty"))
    out.append(u_rect(arim, rng, EX_GRID3, [None, 0] + nn[2:], "fixed"))
    return out


def fixed_pipelines(arim, rec, rng):
    out = []

    def contact(pairs, grid, shape, scheme=0, t0=0.0, fill=0.0, layout="C", kind=0, wmode=0, w=(), name=""):
        tx, rx, data = _ex_frame(pairs)
        G, lay = with_layout(rng, np.asarray(grid, dtype=float), layout)
        out.append(pipeline_case(arim, rec, kind=kind, family="fixed:" + name, tx=tx, rx=rx, data=data, ns=12, dt=1.0, t0=t0, scheme=scheme,
                                 fill=fill, shape=shape, grid=G, probe=EX_PROBE, vel=1.0, wmode=wmode, w=w, layout=lay))

    contact(FMC2, EX_GRID3, (2, 1, 3), name="contact_nd FMC nearest")
    contact(FMC2, EX_GRID3, (2, 1, 3), layout="F", name="contact_nd FMC nearest, F-ordered coords")
    contact(HMC2, EX_GRID3, (2, 1, 3), scheme=1, t0=0.5, fill=-7.0, name="contact_nd HMC linear fill -7")
    contact(FMC2, EX_GRID3.reshape(6, 3), (6,), name="1-d call")
    contact(FMC2, [(-4, 0, 0), (0, 0, 4), (-4, 0, 0)], (3,), name="sub-list")
    contact([(1, 1), (0, 1), (0, 0)], EX_GRID, (2,), name="permuted HMC")
    for name, wmode, w, pairs in (("XArray [2]", 3, [2.0], FMC2), ("XScalar 2", 2, [2.0], FMC2), ("XArray [1,2,3,4]", 3, [1.0, 2.0, 3.0, 4.0], FMC2),
                                  ("XArray [1,1,1]", 3, [1.0, 1.0, 1.0], FMC2), ("XNd", 4, [1.0, 1.0, 1.0, 1.0], FMC2),
                                  ("one timetrace, XArray [3]", 3, [3.0], [(0, 1)]),
                                  ("one timetrace, XArray [1,1,1] (shape drift, not run)", 3, [1.0, 1.0, 1.0], [(0, 1)]),
                                  ("one timetrace, XArray [] (shape drift, not run)", 3, [], [(0, 1)])):
        contact(pairs, EX_GRID, (2,), kind=3, wmode=wmode, w=w, name=name)
    tC, rC = np.array([[4, 5], [5, 4.0]]), np.array([[1, 2], [3, 1.0]])
    tx, rx, data = _ex_frame(FMC2)
    for name, a, b in (("C,C", tC, rC), ("F,C", np.asfortranarray(tC), rC), ("F,F", np.asfortranarray(tC), np.asfortranarray(rC))):
        out.append(pipeline_case(arim, rec, kind=2, family="fixed:tfm_for_view_mem " + name, tx=tx, rx=rx, data=data, ns=12, dt=1.0, t0=0.5,
                                 scheme=1, fill=0.0, shape=(2,), ttx=a, trx=b))
    out.append(pipeline_case(arim, rec, kind=1, family="fixed:tfm_for_view_nd shape (2,1)", tx=tx, rx=rx, data=data, ns=12, dt=1.0, t0=0.5,
                             scheme=1, fill=0.0, shape=(2, 1), ttx=tC, trx=rC))
    # ray times with more / fewer columns than the grid has points, tables of two widths (the library raises)
    for name, shape, a, b in (("grid (1,) and 2 columns", (1,), tC, rC), ("grid (3,) and 2 columns", (3,), tC, rC),
                              ("grid () and 2 columns", (), tC, rC), ("grid (0,) and 2 columns", (0,), tC, rC),
                              ("grid (1,), rx table wider", (1,), tC[:, :1].copy(), rC), ("grid (1,), tx table wider", (1,), tC, rC[:, :1].copy()),
                              ("grid (2,), rx table narrower", (2,), tC, rC[:, :1].copy())):
        out.append(pipeline_case(arim, rec, kind=1, family="fixed:tfm_for_view_nd " + name, tx=tx, rx=rx, data=data, ns=12, dt=1.0, t0=0.5,
                                 scheme=1, fill=0.0, shape=shape, ttx=a, trx=b))
    tx, rx, data = _ex_frame(HMC2)
    out.append(pipeline_case(arim, rec, kind=1, family="fixed:tfm_for_view_nd HMC (warning)", tx=tx, rx=rx, data=data, ns=12, dt=1.0, t0=0.5,
                             scheme=1, fill=0.0, shape=(1, 2), ttx=tC, trx=rC, view="real"))
    return out


# ---------------------------------------------------------------------------------------------------------------
def _bool_lists(raw):
    m = re.search(r"=\s*\[(.*)\]\s*:\s*list \(list bool\)", raw, flags=re.S)
    if not m:
        return []
    return [[x.strip() == "true" for x in inner.split(";")] if inner.strip() else [] for inner in re.findall(r"\[([^\[\]]*)\]", m.group(1))]


def _report(chk, cases, bad, group):
    """which observables disagree on the first disagreeing cases (one coqc call), then one report per (function, observable),
    at most 6 per group, each with the model's answers computed by coqc"""
    if not bad:
        return
    shown = bad[:40]
    is_p = cases[shown[0]].tag == "P"
    typ, fn = ("pcase", "p_checks") if is_p else ("ucase", "u_checks")
    try:
        raw = chk.coq_values(f"tie_C12_which_{group}", COQ_IMPORTS + f"Definition cs : list {typ} := [\n" + ";\n".join(cases[b].lit for b in shown) + "].\n",
                             [f"map {fn} cs"])
        flags = _bool_lists(raw)
    except RuntimeError:
        flags = []
    if len(flags) != len(shown):
        flags = [[] for _ in shown]
    seen = {}
    for b, fl in zip(shown, flags):
        c = cases[b]
        names = P_OBS if is_p else U_OBS[c.tag]
        failing = [names[k] if k < len(names) else f"check {k}" for k, ok in enumerate(fl) if not ok] or ["case"]
        who = c.info.get("function", c.tag) if is_p else c.tag
        key = f"tie:{who}:{failing[0].split(' ')[0]}"
        if key in seen or len(seen) >= 6:
            continue
        seen[key] = True
        try:
            if is_p:
                raw = chk.coq_values(f"tie_C12_diag_{group}_{b}", COQ_IMPORTS + f"Definition c0 : pcase := {c.lit}.\n", c.exprs)
            else:
                raw = chk.coq_values(f"tie_C12_diag_{group}_{b}", COQ_IMPORTS, [f"u_checks ({c.lit})"] + c.exprs)
            model = " ".join(raw.split())[:6000]
        except RuntimeError as e:       # the diagnostic file itself does not compile: still a disagreement
            model = f"(diagnostics unavailable: {str(e)[-300:]})"
        chk.violation(key,
                      f"tie C12: the glue model (Model/TfmGlue.v) and arim disagree on {', '.join(failing)} "
                      f"(input family {c.family}; {len(bad)} of {len(cases)} {group} cases disagree in this run)",
                      dict(c.info, input_family=c.family, disagreeing_observables=failing, correspondence=c.corr,
                           model_answers=model, case_number=b, disagreeing_case_numbers=bad[:200],
                           disagreeing_families=sorted({cases[x].family for x in bad})[:60], coq_case=c.lit[:20000]),
                      failing_input_found=False)


def run(chk, arim, rng, quick):
    import numba
    import arim.im.tfm   # noqa: F401
    import arim.ray      # noqa: F401
    import arim.ut       # noqa: F401
    k = 1 if quick else 10
    old_threads = numba.get_num_threads()
    numba.set_num_threads(1)        # the kernels are `prange` loops: one thread avoids ~70 ms of thread start-up per call
    units, pipes = [], []
    try:
        with warning_recorder() as rec:
            units += fixed_units(arim, rng, rec)
            units += [u_grid(arim, rng) for _ in range(60 * k)]
            units += [u_reshape(arim, rng, False) for _ in range(40 * k)] + [u_reshape(arim, rng, True) for _ in range(30 * k)]
            units += [u_take(arim, rng) for _ in range(30 * k)]
            units += [u_weights(arim, rng) for _ in range(60 * k)]
            units += [u_arr(arim, rng) for _ in range(40 * k)]
            units += [u_shape(arim, rng) for _ in range(30 * k)]
            units += [u_bcast(arim, rng) for _ in range(50 * k)]
            units += [u_complete(arim, rng, rec) for _ in range(30 * k)]
            units += [u_rect(arim, rng) for _ in range(50 * k)]
            units += [u_max_area(arim, rng) for _ in range(50 * k)]
            units += [u_max_box(arim, rng) for _ in range(40 * k)]

            pipes += fixed_pipelines(arim, rec, rng)
            pipes += [gen_contact_nd(arim, rec, rng) for _ in range(90 * k)]
            for err, cnt in (("amps", 8), ("weights", 8), ("lanczos+amps", 4)):
                pipes += [gen_contact_nd(arim, rec, rng, err) for _ in range(cnt * k)]
            for kind in (1, 2):
                pipes += [gen_view(arim, rec, rng, kind) for _ in range(45 * k)]
                for err, cnt in ((("grid", 10) if kind == 1 else ("columns", 3)), ("columns", 5), ("amps", 5), ("lanczos+amps", 2)):
                    pipes += [gen_view(arim, rec, rng, kind, err) for _ in range(cnt * k)]
            for wkind, cnt in (("default", 6), ("none", 6), ("scalar", 10), ("full", 10), ("one", 10), ("wrong", 12), ("drift", 10), ("nd", 6)):
                pipes += [gen_x(arim, rec, rng, wkind) for _ in range(cnt * k)]
    finally:
        numba.set_num_threads(old_threads)
    for c in units + pipes:
        chk.count(tie_C12=":".join(c.family.split(":")[:3]))
    never_run = sum(1 for c in pipes if c.info["arim"]["outcome"].startswith("shape drift"))

    ubad = chk.coq_failing("tie_C12_unit", COQ_IMPORTS, "ucase", [c.lit for c in units], "check_u", shard=120, jobs=8)
    pbad = chk.coq_failing("tie_C12_pipe", COQ_IMPORTS, "pcase", [c.lit for c in pipes], "check_p", shard=40, jobs=8)
    _report(chk, units, ubad, "unit")
    _report(chk, pipes, pbad, "pipeline")
    n_obs = sum(len(U_OBS[c.tag]) for c in units) + 3 * len(pipes)
    chk.cov["tie_C12"] = {"unit_cases": len(units), "pipeline_cases": len(pipes), "comparisons": n_obs,
                          "disagreements": len(ubad) + len(pbad),
                          "shape_drift_inputs_classified_without_running_the_library": never_run}
    return n_obs
