"""Tie of Model/TfmGlue.v (C12) to the real library, evaluated on every run of the check.

Correspondence (see .work/prover_C12_TIE.md); the model runs inside coqc by vm_compute at run time:

  unit cases (discrete values exactly, binary64 values bit for bit)
    nd_flatten / shape_size / nd_okb / ndindex / nd_get / ravel   vs  Points.to_1d_points().coords, .size, .numpoints,
                                                                      Points.enumerate(), grid[idx], np.ravel_multi_index
    np_reshape / nd_reshape           vs  np.reshape(flat, s), Points.reshape(s)                 (ValueError = None)
    take_idx / take_cols              vs  l[idx], t[:, idx], Points.coords[idx]                   (IndexError = None)
    default_weights_z                 vs  arim.ut.default_timetrace_weights(tx, rx)   (lists / numpy integers of any dtype)
    arr2: a_rows, a_T, a_ascontiguous, a_asfortran, a_of_rows, a_get
                                      vs  a.tolist(), a.T, np.ascontiguousarray, Rays.to_fortran_order().times,
                                          FocalLaw(a.T, a.T).lookup_times_tx, np.array(rows), a[i, j]  (buffer = ravel("K"))
    lookup_shape_ok / tfm_result      vs  lookup_times.shape == (n, e) / TfmResult.__init__ (AssertionError)
    bcast_weights                     vs  FocalLaw(.., timetrace_weights=w).weigh_timetraces(ones((n, ns)))
                                          (GShapeDrift: compared with np.broadcast_shapes only, the library is NOT run)
    frame_complete / contact_tfm_warns / tfm_for_view_warns
                                      vs  Frame.is_complete_assuming_reciprocity(), the logger.warning records of real
                                          contact_tfm / tfm_for_view calls
    in_rectbox / points_in_rectbox    vs  Points.points_in_rectbox, geometry.points_in_rectbox
    nanmax / mask_select / maximum_intensity_in_area / maximum_intensity_in_rectbox(_nd) / abs_real / abs_cplx
                                      vs  TfmResult.maximum_intensity_in_area / _in_rectbox, res[area]
  pipeline cases (NumF on dyadic-exact inputs; exact when numtimetraces is a power of two, else 2^-51 relative:
  numba fastmath turns `/ numtimetraces` into a multiplication by the reciprocal)
    contact_tfm_nd      vs  arim.im.tfm.contact_tfm on a Points grid of any shape and memory layout
    tfm_for_view_nd     vs  arim.im.tfm.tfm_for_view, grid of any shape
    tfm_for_view_mem    vs  arim.im.tfm.tfm_for_view with C- / Fortran-ordered rays.times
    contact_tfm_x       vs  contact_tfm(timetrace_weights = "default" / None / float / list / nested list):
                            GOk / GRaise / GShapeDrift.  An input that numpy would broadcast to a number of rows
                            different from frame.numtimetraces (GShapeDrift: out-of-bounds reads in the kernels) is
                            NEVER given to the library; only the model's classification is compared there.

Restrictions (the model is not faithful there, see the final report of the tie): default_weights_z on two EMPTY lists
(the library raises ValueError from np.nditer); tfm_for_view_nd on a grid with FEWER points than the ray times have
columns (the model truncates, the library raises ValueError in reshape); tables with no row do not know their number
of columns (lookup_shape_ok, take_cols, amplitudes are not given such tables).
"""
import logging
import math
import re
from contextlib import contextmanager
from types import SimpleNamespace

import numpy as np

from common import cZ, cfloat, clist, cpair, cbool, copt

COQ_IMPORTS = """From Coq Require Import ZArith List Bool Arith PrimFloat.
From Arim Require Import Base.Num Base.NumF Base.ListX Model.MinPlus Model.Fermat Model.Das Model.Frame Model.Tfm Model.TfmGlue.
Import ListNotations.
(* ---- tie-side encodings (no model content): N-d arrays as trees, bit-exact float equality ---- *)
Inductive tree (A : Type) := Leaf (a : A) | Node (l : list (tree A)).
Arguments Leaf {A}. Arguments Node {A}.
Fixpoint to_nd {A} (d : nat) : tree A -> option (ndt A d) :=
  match d return tree A -> option (ndt A d) with
  | O => fun t => match t with Leaf a => Some a | Node _ => None end
  | S d' => fun t => match t with Node l => mapM (to_nd d') l | Leaf _ => None end
  end.
Fixpoint of_nd {A} (d : nat) : ndt A d -> tree A :=
  match d return ndt A d -> tree A with
  | O => fun a => Leaf a
  | S d' => fun l => Node (map (of_nd d') l)
  end.
Fixpoint nd_all2 {A B} (e : A -> B -> bool) (d : nat) : ndt A d -> ndt B d -> bool :=
  match d return ndt A d -> ndt B d -> bool with
  | O => e
  | S d' => list_all2 (nd_all2 e d')
  end.
Definition feq (a b : float) : bool := PrimFloat.eqb a b || (negb (PrimFloat.eqb a a) && negb (PrimFloat.eqb b b)).
Definition isnanF (x : float) : bool := negb (PrimFloat.eqb x x).
Definition zpt : Type := (Z * Z * Z)%type.
Definition fpt : Type := (float * float * float)%type.
Definition zpt_eqb (a b : zpt) : bool :=
  let '(x, y, z) := a in let '(u, v, w) := b in Z.eqb x u && Z.eqb y v && Z.eqb z w.
Definition nats (l : list Z) : list nat := map Z.to_nat l.
Definition zs (l : list nat) : list Z := map Z.of_nat l.
Definition ozeqb (a : option nat) (b : option Z) : bool := option_eqb Z.eqb (option_map Z.of_nat a) b.
(* a tree against a model array of shape s *)
Definition nd_is {A B} (e : A -> B -> bool) (d : nat) (got : ndt A d) (exp : tree B) : bool :=
  match to_nd d exp with Some x => nd_all2 e d got x | None => false end.
(* outcome of a call: kind 0 = a value, 1 = an exception *)
Definition opt_is {A B} (e : A -> B -> bool) (got : option A) (kind : Z) (exp : B) : bool :=
  match got with Some a => Z.eqb kind 0 && e a exp | None => Z.eqb kind 1 end.
Definition arrL (A : Type) : Type := (Z * Z * bool * list A)%type.
Definition arr_of {A} (x : arrL A) : arr2 A := let '(m, p, f, b) := x in mkArr2 (Z.to_nat m) (Z.to_nat p) f b.
(* equality of 2-d arrays with their memory order; the order flag is not observable when a dimension is <= 1 *)
Definition arr_same {A} (e : A -> A -> bool) (a : arr2 A) (x : arrL A) : bool :=
  let b := arr_of x in
  Nat.eqb (a_m a) (a_m b) && Nat.eqb (a_p a) (a_p b) && list_eqb e (a_buf a) (a_buf b)
  && (Bool.eqb (a_forder a) (a_forder b) || Nat.leb (a_m a) 1 || Nat.leb (a_p a) 1).
Definition obox : Type := list (option float).
Definition box_of (l : obox) : rectbox (T:=float) :=
  mkBox (nth 0 l None) (nth 1 l None) (nth 2 l None) (nth 3 l None) (nth 4 l None) (nth 5 l None).
Definition fabs_c (cplx : bool) (v : float * float) : float := if cplx then abs_cplx NumF v else abs_real NumF (fst v).
Definition glue_code {A} (g : glue_result A) : Z := match g with GOk _ => 0 | GRaise => 1 | GShapeDrift => 2 end%Z.

(* ---- unit cases ---- *)
Inductive ucase :=
  (* shape, grid.coords, to_1d_points().coords, size, numpoints, list(np.ndindex(shape)),
     probes: multi-index, grid[idx] (None = IndexError / not a full index), np.ravel_multi_index (None = ValueError) *)
  | UGrid (s : list Z) (g : tree zpt) (flat : list zpt) (size np_ : Z) (ndi : list (list Z))
          (probes : list (list Z * bool * option zpt * option Z))
  (* np.reshape(flat, s) / Points.reshape(s): kind 0 value / 1 ValueError *)
  | UReshapeZ (s : list Z) (flat : list Z) (kind : Z) (exp : tree Z)
  | UReshapeP (s : list Z) (flat : list zpt) (kind : Z) (exp : tree zpt)
  | UTake (idx : list Z) (l : list Z) (exp : option (list Z)) (t : list (list Z)) (expc : option (list (list Z)))
  | UWeights (tx rx : list Z) (exp : option (list Z))
  (* a 2-d array, its tolist(), .T, ascontiguousarray(a), asfortranarray(a) (= Rays.to_fortran_order().times),
     FocalLaw(a.T, a.T).lookup_times_tx, np.array(rows), the entries a[i, j] of `gets` *)
  | UArr (a : arrL Z) (rows : list (list Z)) (aT aC aF aTC aR : arrL Z) (gets : list (Z * Z * Z))
  | UShape (lt : list (list Z)) (n e : Z) (exp : bool) (rs gs : list Z) (exp2 : bool)
  | UBcast (w : list float) (n : Z) (kind : Z) (exp : list float)
  | UComplete (pairs : list (Z * Z)) (amps : bool) (complete warns_contact warns_view : bool)
  | URect (b : obox) (s : list Z) (g : tree fpt) (exp : tree bool)
  (* res (flat), complex?, area (None / mask), maximum_intensity_in_area: kind 0 value / 1 ValueError; res[area] *)
  | UMaxArea (cplx : bool) (res : list (float * float)) (area : option (list bool)) (kind : Z) (exp : float)
             (sel : list (float * float))
  | UMaxBox (cplx : bool) (b : obox) (s : list Z) (g : tree fpt) (res : tree (float * float)) (kind : Z) (exp : float).

Definition cfeq (a b : float * float) : bool := feq (fst a) (fst b) && feq (snd a) (snd b).

Definition u_checks (c : ucase) : list bool :=
  match c with
  | UGrid s g flat size np_ ndi probes =>
      let sn := nats s in let d := length sn in
      match to_nd d g with
      | None => [false]
      | Some a =>
          [ nd_okb sn a;
            list_eqb zpt_eqb (nd_flatten d a) flat;
            Z.eqb (Z.of_nat (shape_size sn)) size && Z.eqb (Z.of_nat (shape_size sn)) np_;
            list_eqb (list_eqb Z.eqb) (map zs (ndindex sn)) ndi;
            forallb (fun pr => let '(idx, full, ev, er) := pr in
                       (negb full || option_eqb zpt_eqb (nd_get d a (nats idx)) ev)
                       && ozeqb (ravel sn (nats idx)) er) probes;
            (* the k-th multi-index of ndindex holds element k of the flat array *)
            list_eqb (option_eqb zpt_eqb) (map (nd_get d a) (ndindex sn)) (map Some flat) ]
      end
  | UReshapeZ s flat kind exp =>
      let sn := nats s in
      [ match np_reshape 0%Z sn flat with
        | Some a => Z.eqb kind 0 && nd_is Z.eqb (length sn) a exp
        | None => Z.eqb kind 1 end ]
  | UReshapeP s flat kind exp =>
      let sn := nats s in
      [ match np_reshape (0, 0, 0)%Z sn flat with
        | Some a => Z.eqb kind 0 && nd_is zpt_eqb (length sn) a exp
        | None => Z.eqb kind 1 end ]
  | UTake idx l exp t expc =>
      [ option_eqb (list_eqb Z.eqb) (take_idx (nats idx) l) exp;
        option_eqb (list_eqb (list_eqb Z.eqb)) (take_cols (nats idx) t) expc ]
  | UWeights tx rx exp => [ option_eqb (list_eqb Z.eqb) (default_weights_z tx rx) exp ]
  | UArr a rows aT aC aF aTC aR gets =>
      let x := arr_of a in
      [ list_eqb (list_eqb Z.eqb) (a_rows 0%Z x) rows;
        arr_same Z.eqb (a_T x) aT;
        arr_same Z.eqb (a_ascontiguous 0%Z x) aC;
        arr_same Z.eqb (a_asfortran 0%Z x) aF;
        arr_same Z.eqb (a_ascontiguous 0%Z (a_T x)) aTC;
        arr_same Z.eqb (a_of_rows (a_p x) rows) aR;
        forallb (fun g => let '(i, j, v) := g in Z.eqb (a_get 0%Z x (Z.to_nat i) (Z.to_nat j)) v) gets ]
  | UShape lt n e exp rs gs exp2 =>
      [ Bool.eqb (lookup_shape_ok (T:=Z) lt (Z.to_nat n) (Z.to_nat e)) exp;
        Bool.eqb (tfm_result (nats rs) (nats gs)) exp2 ]
  | UBcast w n kind exp =>
      let r := bcast_weights NumF w (Z.to_nat n) in
      [ Z.eqb (glue_code r) kind;
        match r with GOk w' => list_eqb feq w' exp | _ => true end ]
  | UComplete pairs amps complete wc wv =>
      let ss := map (fun p => mkScan (D:=Z) (Z.to_nat (fst p)) (Z.to_nat (snd p)) []) pairs in
      [ Bool.eqb (frame_complete ss) complete;
        Bool.eqb (contact_tfm_warns (if amps then Some ([], []) else None) ss) wc;
        Bool.eqb (tfm_for_view_warns ss) wv ]
  | URect b s g exp =>
      let d := length (nats s) in
      match to_nd d g with
      | None => [false]
      | Some a => [ nd_is Bool.eqb d (points_in_rectbox NumF (box_of b) d a) exp;
                    list_eqb Bool.eqb (map (in_rectbox NumF (box_of b)) (nd_flatten d a))
                                      (match to_nd d exp with Some m => nd_flatten d m | None => [] end) ]
      end
  | UMaxArea cplx res area kind exp sel =>
      [ opt_is feq (maximum_intensity_in_area NumF isnanF (fabs_c cplx) res area) kind exp;
        list_eqb cfeq (match area with Some m => mask_select res m | None => res end) sel;
        opt_is feq (nanmax NumF isnanF (map (fabs_c cplx) sel)) kind exp ]
  | UMaxBox cplx b s g res kind exp =>
      let d := length (nats s) in
      match to_nd d g, to_nd d res with
      | Some a, Some r =>
          [ opt_is feq (maximum_intensity_in_rectbox_nd NumF isnanF (fabs_c cplx) d a r (box_of b)) kind exp;
            opt_is feq (maximum_intensity_in_rectbox NumF isnanF (fabs_c cplx) (nd_flatten d a) (nd_flatten d r) (box_of b)) kind exp ]
      | _, _ => [false]
      end
  end.
Definition check_u (c : ucase) : bool := forallb (fun b => b) (u_checks c).
(* ---- pipeline cases (binary64, exact on dyadic inputs) ---- *)
Record pcase := mkP {
  p_kind : Z;             (* 0 contact_tfm_nd, 1 tfm_for_view_nd, 2 tfm_for_view_mem, 3 contact_tfm_x *)
  p_cplx : bool; p_scheme : Z; p_ns : Z; p_dt : float; p_t0 : float; p_fill : float * float;
  p_shape : list Z;       (* grid.shape *)
  p_grid : tree fpt;      (* grid.coords (contact) *)
  p_probe : list fpt; p_vel : float;
  p_wmode : Z;            (* 0 "default", 1 None, 2 a float (hd p_w), 3 a list, 4 a nested list (ndim 2) *)
  p_w : list float;
  p_ttx : list (list float); p_trx : list (list float);   (* rays.times.tolist() (kind 1) *)
  p_atx_mem : arrL float; p_arx_mem : arrL float;          (* rays.times with its memory order (kind 2) *)
  p_amp : bool; p_atx : list (list (float * float)); p_arx : list (list (float * float));
  p_scans : list (Z * Z * list (float * float));
  p_exp_kind : Z;         (* 0 a TfmResult, 1 an exception, 2 shape drift (the library is NOT run) *)
  p_exp : tree (float * float);   (* TfmResult.res *)
  p_atol : float;
  p_warn : Z }.           (* 1 / 0: the logger warned / did not; -1 not observed *)

Section PExec.
  Context {D : Type} (V : Data float D) (inj : float * float -> D) (proj : D -> float * float).
  Definition p_ss (c : pcase) : list (scan D) :=
    map (fun s => mkScan (Z.to_nat (fst (fst s))) (Z.to_nat (snd (fst s))) (map inj (snd s))) (p_scans c).
  Definition p_amps (c : pcase) : option (list (list D) * list (list D)) :=
    if p_amp c then Some (map (map inj) (p_atx c), map (map inj) (p_arx c)) else None.
  Definition p_sc (c : pcase) : scheme :=
    if (p_scheme c =? 0)%Z then Nearest else if (p_scheme c =? 1)%Z then Linear else Lanczos 3.
  (* the model's answer: outcome code and image *)
  Definition p_answer (c : pcase) : Z * tree (float * float) :=
    let s := nats (p_shape c) in let d := length s in
    let ss := p_ss c in let amps := p_amps c in let fill := inj (p_fill c) in
    let bad := (9%Z, Node []) in
    let of_opt (d : nat) (o : option (ndt D d)) :=
      match o with Some img => (0%Z, of_nd d (nd_map proj d img)) | None => (1%Z, Node []) end in
    match p_kind c with
    | 0%Z =>
        match to_nd d (p_grid c) with
        | None => bad
        | Some grid =>
            let wa := if (p_wmode c =? 0)%Z then WDefault else if (p_wmode c =? 1)%Z then WNone else WGiven (p_w c) in
            of_opt d (contact_tfm_nd NumF V (p_sc c) (p_ns c) (p_dt c) (p_t0 c) fill wa s grid (p_probe c) (p_vel c) amps ss)
        end
    | 1%Z => of_opt d (tfm_for_view_nd NumF V (p_sc c) (p_ns c) (p_dt c) (p_t0 c) fill s
                                       (mkRays (p_ttx c) []) (mkRays (p_trx c) []) amps ss)
    | 2%Z => of_opt 1 (tfm_for_view_mem NumF V (p_sc c) (p_ns c) (p_dt c) (p_t0 c) fill
                                        (arr_of (p_atx_mem c)) (arr_of (p_arx_mem c)) amps ss)
    | 3%Z =>
        match to_nd 1 (p_grid c) with
        | None => bad
        | Some grid =>
            let wx := if (p_wmode c =? 0)%Z then XDefault else if (p_wmode c =? 1)%Z then XNone
                      else if (p_wmode c =? 2)%Z then XScalar (hd zero (p_w c))
                      else if (p_wmode c =? 3)%Z then XArray (p_w c) else XNd in
            match contact_tfm_x NumF V (p_sc c) (p_ns c) (p_dt c) (p_t0 c) fill wx grid (p_probe c) (p_vel c) amps ss with
            | GOk img => of_opt 1 (Some img)
            | GRaise => (1%Z, Node [])
            | GShapeDrift => (2%Z, Node [])
            end
        end
    | _ => bad
    end.
  Definition p_warns (c : pcase) : bool :=
    if ((p_kind c =? 0) || (p_kind c =? 3))%Z then contact_tfm_warns (p_amps c) (p_ss c) else tfm_for_view_warns (p_ss c).
End PExec.

Fixpoint tree_close (atol : float) (a b : tree (float * float)) {struct a} : bool :=
  match a, b with
  | Leaf x, Leaf y => cclose atol x y
  | Node l, Node m =>
      (fix go (l : list (tree (float * float))) (m : list (tree (float * float))) : bool :=
         match l, m with
         | [], [] => true
         | x :: l', y :: m' => tree_close atol x y && go l' m'
         | _, _ => false
         end) l m
  | _, _ => false
  end.
Definition p_model (c : pcase) : Z * tree (float * float) :=
  if p_cplx c then p_answer (DataCplx NumF) (fun v => v) (fun v => v) c
  else p_answer (DataReal NumF) fst (fun v => (v, zero)) c.
Definition p_model_warns (c : pcase) : bool :=
  if p_cplx c then p_warns (fun v => v) c else p_warns fst c.
Definition p_checks (c : pcase) : list bool :=
  let '(k, img) := p_model c in
  [ Z.eqb k (p_exp_kind c);
    negb (Z.eqb k 0) || negb (Z.eqb (p_exp_kind c) 0) || tree_close (p_atol c) img (p_exp c);
    Z.eqb (p_warn c) (-1) || Bool.eqb (p_model_warns c) (Z.eqb (p_warn c) 1) ].
Definition check_p (c : pcase) : bool := forallb (fun b => b) (p_checks c).
"""
