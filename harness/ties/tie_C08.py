"""Tie of Model/AmplitudesGlue.v (C08, the glue around the model coefficients) to the real library, evaluated on every
run of the check.  See notes/prover_C08_TIE.md; the model side is computed by coqc (vm_compute, exact rationals NumQ)
during the run.

Correspondence:

  slice_indices n a b s                  vs  list(range(n))[a:b:s]  and  range(*slice(a, b, s).indices(n))
  mask_indices n m                       vs  np.arange(n)[np.array(m, bool)]                  (IndexError on a wrong length; [] accepted on any axis)
  guard_ndim n sel                       vs  np.empty(n)[sel].ndim  (the guard of the function class, model.py:1493)
  index2 ng ne A sel                     vs  A[sel] for A = np.arange(ng*ne).reshape(ng, ne)   (selectors without None;
                                             EUnmodelled = two consuming items: not compared)
  model_amplitudes_factory + mo_shape / ma_numelements / ma_numpoints / ma_numtimetraces / class (ScatFn | ScatMat)
                                         vs  arim.model.model_amplitudes_factory(tx, rx, view, RayWeights, scattering,
                                             scat_angle) on real Path / View objects (block_in_immersion.make_paths /
                                             make_views): KeyError / AssertionError and their order, .shape,
                                             .numelements, .numpoints, .numtimetraces, the class of the object
  mo_getitem NumQ pi ob sel (getitem_fn_sel / getitem_mat_sel, gather, index2, arr_take, bzip, idx_ok_fn / idx_ok_mat, gufunc)
                                         vs  model_amplitudes[sel]: value (1-d / 2-d, every entry) or exception kind
  ray_weights_for_views_full (keys of the five dictionaries, None = raises)
                                         vs  block_in_immersion.ray_weights_for_views(views, frequency, width, use_*,
                                             save_debug) on traced / untraced real paths, subsets of views

Numbers: every input is a dyadic k/64 of a few bits and the scattering function a polynomial with integer coefficients,
so the library's binary64 arithmetic is exact; the values are compared EXACTLY with the model's rationals (function
class, constant matrices).  Non-constant scattering matrices: pi is the binary64 pi in the model, values within 1e-9.

SAFETY (note, finding (b)): the matrix class has no guard and numba reads out of bounds.  The model is asked FIRST
(pass 1) for the outcome class of every index; the library is never run where the model answers EUnmodelled; matrix
class objects are never generated with element indices outside [-numelements, numelements); and an independent
Python-side guard (length of the last axis of np.empty((ng, ne))[sel] against the element indices) must agree.
"""
import fractions
import time
from concurrent.futures import ThreadPoolExecutor

import numpy as np

from common import cZ, cbool, clist, cpair, copt

Fr = fractions.Fraction
PI_Q = Fr(float(np.pi))

PRELUDE = r"""From Coq Require Import List ZArith Bool Arith QArith Qabs.
From Arim Require Import Base.Num Base.NumQ Model.Interface Model.Weights Model.Amplitudes Model.Pipeline Model.AmplitudesGlue.
Import ListNotations.
Local Open Scope Z_scope.
Definition code_of (e : gerr) : Z :=
  match e with EIndex => 1 | EValue => 2 | EKey => 3 | EAssertion => 4 | EType => 5 | EUnmodelled => -1 end.
Definition PIQ : Q := (""" + f"{PI_Q.numerator} # {PI_Q.denominator}" + r""")%Q.
Definition dq (z : Z) : Q := (z # 64)%Q.
Definition zc : Type := (Z * Z)%type.
Definition cqz (p : zc) : Q * Q := (dq (fst p), dq (snd p)).
Definition mode_of (z : Z) : wmode := if z =? 0 then ModeL else ModeT.
Definition skey_of (z : Z) : skey := (mode_of (z / 2), mode_of (z mod 2)).
Definition dt_of (z : Z) : idx_dtype :=
  match z with 0 => DtInt | 1 => DtUInt | 2 => DtUInt64 | 3 => DtBool | _ => DtFloat end.
Inductive zscat := ZFn (c : list Z) | ZMat (M : list (list zc)).
Definition poly (c : list Z) (x y : Q) : Q * Q :=
  let g := fun k : nat => inject_Z (nth k c 0) in
  (g 0%nat + g 1%nat * x + g 2%nat * y + g 3%nat * x * y,
   g 4%nat + g 5%nat * x + g 6%nat * y + g 7%nat * x * y)%Q.
Definition scat_of (s : zscat) : scattering (T := Q) :=
  match s with ZFn c => ScatFn (poly c) | ZMat M => ScatMat (map (map cqz) M) end.
Record zobj := mkZ {
  z_tx : Z * list Z; z_rx : Z * list Z;            (* dtype code, values *)
  z_view : Z * Z * Z;                              (* number of the tx path, of the rx path, scat key 0 LL 1 LT 2 TL 3 TT *)
  z_txd : list (Z * list (list zc)); z_rxd : list (Z * list (list zc));
  z_angd : list (Z * list (list Z));
  z_scat : list (Z * zscat);
  z_angle : Z }.
Definition kd {A B} (f : A -> B) (d : list (Z * A)) : list (nat * B) := map (fun e => (Z.to_nat (fst e), f (snd e))) d.
Definition fac (o : zobj) : gres (ma_object (T := Q)) :=
  let '(a, b, k) := z_view o in
  model_amplitudes_factory (mkIdx (dt_of (fst (z_tx o))) (snd (z_tx o))) (mkIdx (dt_of (fst (z_rx o))) (snd (z_rx o)))
    (mkView (Z.to_nat a) (Z.to_nat b) (skey_of k))
    (mkRW (kd (map (map cqz)) (z_txd o)) (kd (map (map cqz)) (z_rxd o)) None None (kd (map (map dq)) (z_angd o)))
    (map (fun e => (skey_of (fst e), scat_of (snd e))) (z_scat o)) (dq (z_angle o)).
Definition gi (o : zobj) (sel : selector) : gres (arr (Q * Q)) :=
  match fac o with GOk ob => mo_getitem NumQ PIQ ob sel | GRaise e => GRaise e end.
(* pass 1: the outcome class of every index (10: 1-d value, 20: 2-d value, else the code of the raise, -1 unmodelled;
   -7: the factory itself does not return an object) *)
Definition oclass (o : zobj) (sels : list selector) : list Z :=
  match fac o with
  | GOk ob => map (fun sel => match mo_getitem NumQ PIQ ob sel with
                              | GOk (A1 _) => 10 | GOk (A2 _) => 20 | GRaise e => code_of e end) sels
  | GRaise _ => map (fun _ => -7) sels
  end.
Definition oclasses (l : list (zobj * list selector)) : list Z := flat_map (fun c => oclass (fst c) (snd c)) l.
(* the library's answers *)
Definition zq : Type := ((Z * Z) * (Z * Z))%type.                       (* (num, den) of the real and imaginary parts *)
Inductive outcome := OArr (a : arr zq) | OErr (c : Z) | OOther.
Definition qz (p : Z * Z) : Q := Qmake (fst p) (Z.to_pos (snd p)).
Definition closeq (exact : bool) (a b : Q) : bool :=
  if exact then Qeq_bool a b else Qle_bool (Qabs (a - b)) ((1 # 1000000000) * (1 + Qabs b)).
Definition ceq (exact : bool) (m : Q * Q) (g : zq) : bool :=
  closeq exact (fst m) (qz (fst g)) && closeq exact (snd m) (qz (snd g)).
Fixpoint all2 {A B} (f : A -> B -> bool) (l1 : list A) (l2 : list B) : bool :=
  match l1, l2 with
  | [], [] => true
  | x :: l1', y :: l2' => f x y && all2 f l1' l2'
  | _, _ => false
  end.
Definition arr_ok {A B} (f : A -> B -> bool) (m : arr A) (g : arr B) : bool :=
  match m, g with A1 r, A1 s => all2 f r s | A2 r, A2 s => all2 (all2 f) r s | _, _ => false end.
Definition item_ok (exact : bool) (r : gres (arr (Q * Q))) (o : outcome) : bool :=
  match r with
  | GRaise EUnmodelled => true
  | GRaise e => match o with OErr c => code_of e =? c | _ => false end
  | GOk a => match o with OArr g => arr_ok (ceq exact) a g | _ => false end
  end.
Definition zres {A} (r : gres A) (ec : Z) (ok : A -> bool) : bool :=
  match r with
  | GOk a => (ec =? 0) && ok a
  | GRaise e => code_of e =? ec
  end.
Definition zl_eqb (a b : list Z) : bool := all2 Z.eqb a b.
Definition zrows (ng ne : Z) : list (list Z) :=
  map (fun g => map (fun e => Z.of_nat g * ne + Z.of_nat e) (seq 0 (Z.to_nat ne))) (seq 0 (Z.to_nat ng)).
Definition keys {A} (d : list (nat * A)) : list Z := map (fun e => Z.of_nat (fst e)) d.
Fixpoint insz (x : Z) (l : list Z) : list Z :=
  match l with [] => [x] | y :: l' => if x <=? y then x :: l else y :: insz x l' end.
Definition sortz (l : list Z) : list Z := fold_right insz [] l.
(* ray_weights_for_views: the set-up of Props.C08.ray_weights_full_example (the contents of the rays do not matter for
   the structure of the result); paths are numbered, `traced` says which were ray-traced *)
Local Open Scope Q_scope.
Definition cq (x y : Q) : Q * Q := (x, y).
Definition water : material (Q * Q) := mkMaterial (cq 1000 0) (cq 1500 0) (cq 0 0).
Definition steel : material (Q * Q) := mkMaterial (cq 8000 0) (cq 6000 0) (cq 3000 0).
Definition ray0 := mkRay 0 [mkIface FluidSolid true water steel water ModeL ModeL (cq 0 0)]
                         [1500; 6000] [1; 3#4] [None; Some (AttConstant 0)] ModeL.
Definition gp (k : nat) (traced : bool) := mkGPath (mkPath water steel [[ray0]] [[inject_Z (Z.of_nat k) / 4]] [[1]]) traced.
Local Open Scope Z_scope.
Definition rwv (traced : list bool) (views : list (Z * Z)) (width ud ub ut ua dbg : bool) :=
  ray_weights_for_views_full NumQ (map (fun e => gp (fst e) (snd e)) (combine (seq 0 (length traced)) traced))
    (map (fun v => mkView (Z.to_nat (fst v)) (Z.to_nat (snd v)) (ModeL, ModeL)) views) 24000%Q
    (if width then Some (1 # 1000)%Q else None) ud ub ut ua dbg.
Definition rw_struct (r : option (ray_weights_nt (T := Q))) :=
  match r with
  | None => None
  | Some R => Some (sortz (keys (rw_txd R)), sortz (keys (rw_rxd R)), sortz (keys (rw_angd R)),
                    (match rw_txdbg R with None => None | Some d => Some (sortz (keys d)) end,
                     match rw_rxdbg R with None => None | Some d => Some (sortz (keys d)) end))
  end.
Definition oz_eqb (a b : option (list Z)) : bool :=
  match a, b with None, None => true | Some x, Some y => zl_eqb x y | _, _ => false end.
Inductive tcase :=
| CSlice (n : Z) (a b s : option Z) (ec : Z) (got got2 : list Z)
| CMask (n : Z) (m : list bool) (ec : Z) (got : list Z)
| CGuard (n : Z) (sel : selector) (ec : Z) (nd : Z)
| CIndex2 (ng ne : Z) (sel : selector) (ec : Z) (got : arr Z)
| CFac (o : zobj) (ec : Z) (shape : Z * Z) (numel numpoints ntt : Z) (is_mat : bool)
| CGet (o : zobj) (exact : bool) (items : list (selector * outcome))
| CRwv (traced : list bool) (views : list (Z * Z)) (flags : list bool) (raised : bool)
       (got : list Z * list Z * list Z * (option (list Z) * option (list Z))).
Definition fl (l : list bool) (k : nat) : bool := nth k l false.
Definition check (c : tcase) : bool :=
  match c with
  | CSlice n a b s ec got got2 =>
      zres (slice_indices (Z.to_nat n) a b s) ec (fun l => zl_eqb l got && zl_eqb l got2)
  | CMask n m ec got => zres (mask_indices (Z.to_nat n) m) ec (fun l => zl_eqb l got)
  | CGuard n sel ec nd => zres (guard_ndim (Z.to_nat n) sel) ec (fun d => Z.of_nat d =? nd)
  | CIndex2 ng ne sel ec got =>
      match index2 (Z.to_nat ng) (Z.to_nat ne) (zrows ng ne) sel with
      | GRaise EUnmodelled => true
      | r => zres r ec (fun a => arr_ok Z.eqb a got)
      end
  | CFac o ec shape numel numpoints ntt is_mat =>
      zres (fac o) ec (fun ob =>
        (Z.of_nat (fst (mo_shape ob)) =? fst shape) && (Z.of_nat (snd (mo_shape ob)) =? snd shape)
        && (Z.of_nat (ma_numelements (mo_amp ob)) =? numel) && (Z.of_nat (ma_numpoints (mo_amp ob)) =? numpoints)
        && (Z.of_nat (ma_numtimetraces (mo_amp ob)) =? ntt)
        && Bool.eqb (match mo_scat ob with ScatMat _ => true | ScatFn _ => false end) is_mat)
  | CGet o exact items => forallb (fun it => item_ok exact (gi o (fst it)) (snd it)) items
  | CRwv traced views f raised got =>
      match rw_struct (rwv traced views (fl f 0) (fl f 1) (fl f 2) (fl f 3) (fl f 4) (fl f 5)) with
      | None => raised
      | Some (a, b, c, (d, e)) =>
          let '(a', b', c', (d', e')) := got in
          negb raised && zl_eqb a a' && zl_eqb b b' && zl_eqb c c' && oz_eqb d d' && oz_eqb e e'
      end
  end.
(* for the report of a disagreement *)
Definition qp (q : Q) := let r := Qred q in (Qnum r, Zpos (Qden r)).
Definition show_arr (r : gres (arr (Q * Q))) :=
  match r with
  | GOk a => GOk (arr_map (fun z => (qp (fst z), qp (snd z))) a)
  | GRaise e => GRaise e
  end.
Definition show_fac (o : zobj) :=
  match fac o with
  | GOk ob => GOk (mo_shape ob, ma_numelements (mo_amp ob), ma_numpoints (mo_amp ob), ma_numtimetraces (mo_amp ob),
                   match mo_scat ob with ScatMat _ => true | ScatFn _ => false end)
  | GRaise e => GRaise e
  end.
"""

ERR = {0: "no error", 1: "IndexError", 2: "ValueError", 3: "KeyError", 4: "AssertionError", 5: "TypeError",
       99: "another exception"}
OCLASS = {10: "1-d value", 20: "2-d value", -1: "EUnmodelled", -7: "factory raised", 1: "IndexError", 2: "ValueError",
          3: "KeyError", 4: "AssertionError", 5: "TypeError"}
KEYS = ["LL", "LT", "TL", "TT"]
DTYPES = {"int64": 0, "int32": 0, "int16": 0, "int8": 0, "uint8": 1, "uint16": 1, "uint32": 1, "uint64": 2, "bool": 3,
          "float64": 4, "float32": 4}


def exc_code(e):
    for code, cls in ((1, IndexError), (3, KeyError), (2, ValueError), (4, AssertionError), (5, TypeError)):
        if isinstance(e, cls):
            return code
    return 99


def call(fn, *a, **k):
    try:
        return 0, fn(*a, **k), ""
    except Exception as e:  # noqa: BLE001   (every exception is an observable outcome here)
        return exc_code(e), None, f"{type(e).__name__}: {e}"[:200]


def czl(l):
    return clist([cZ(x) for x in l])


def coz(x):
    return copt(x, cZ)


# -- selectors: model form = list of items ('int', z) | ('slice', a, b, s) | ('list', l) | ('mask', m) | 'dots' | 'none' ----
def csel(items):
    out = []
    for it in items:
        if it == "dots":
            out.append("GDots")
        elif it == "none":
            out.append("GNone")
        elif it[0] == "int":
            out.append(f"GInt {cZ(it[1])}")
        elif it[0] == "slice":
            out.append(f"GSlice {coz(it[1])} {coz(it[2])} {coz(it[3])}")
        elif it[0] == "list":
            out.append(f"GList {czl(it[1])}")
        else:
            out.append(f"GMask {clist([cbool(b) for b in it[1]])}")
    return clist(out)


class _CallableS:
    """a callable object without .shape (the factory dispatches on the attribute)"""

    def __init__(self, c):
        self.c = c

    def __call__(self, x, y):
        c = self.c
        return (c[0] + c[1] * x + c[2] * y + c[3] * x * y) + 1j * (c[4] + c[5] * x + c[6] * y + c[7] * x * y)


class _Tie:
    def __init__(self, chk, arim, rng, quick):
        import arim.model as model
        import arim.models.block_in_immersion as bim
        import arim.ray as aray
        self.chk, self.arim, self.rng, self.Q = chk, arim, rng, quick
        self.model, self.bim, self.aray = model, bim, aray
        self.cases = []           # (literal, family, replay, model expression)
        self.n = 0
        self.unmodelled = 0
        self.paths, self.views = self.make_setup(1, trace=False)
        self.plist = list(self.paths.values())
        self.pnames = list(self.paths.keys())
        pid = {id(p): k for k, p in enumerate(self.plist)}
        self.view_of = {(pid[id(v.tx_path)], pid[id(v.rx_path)]): v for v in self.views.values()}
        assert len(self.view_of) == len(self.plist) ** 2

    # -- real Path / View objects -----------------------------------------------------------------------------------
    def make_setup(self, nrefl, trace):
        arim, bim = self.arim, self.bim
        water = arim.Material(longitudinal_vel=1500., density=1000., state_of_matter="liquid")
        steel = arim.Material(longitudinal_vel=6000., transverse_vel=3000., density=8000., state_of_matter="solid",
                              longitudinal_att=arim.material_attenuation_factory("constant", 0.0),
                              transverse_att=arim.material_attenuation_factory("constant", 0.0))

        def op(pts, name):
            p = arim.Points(np.array(pts, float), name)
            return arim.geometry.OrientedPoints(p, arim.geometry.default_orientations(p))

        probe, fw = op([[0, 0, -1.]], "Probe"), op([[0, 0, 0.]], "Frontwall")
        bw, sc = op([[0, 0, 2.]], "Backwall"), op([[0, 0, .75]], "Scat")
        interfaces = bim.make_interfaces(water, probe, fw, bw, sc)
        paths = bim.make_paths(steel, water, interfaces, max_number_of_reflection=nrefl)
        views = bim.make_views_from_paths(paths)
        if trace:
            self.aray.ray_tracing_for_paths(list(paths.values()))
        return paths, views

    def add(self, lit, family, kind, replay, model_expr):
        self.cases.append((lit, family, replay, model_expr))
        self.chk.count(tie_C08=f"{family}:{kind}")
        self.n += 1

    def ri(self, lo, hi):
        """integer in lo..hi (inclusive)"""
        return int(self.rng.integers(lo, hi + 1))

    def pick(self, l):
        return l[int(self.rng.integers(len(l)))]

    # -- (1) slices and masks -------------------------------------------------------------------------------------------
    def fam_slices(self):
        rng = self.rng
        cases = [(5, None, None, -2), (5, -2, None, None), (5, 7, -9, -1), (5, 1, 1, None), (5, None, None, 0)]
        for n in (0, 1, 5):
            cases += [(n, a, b, s) for a, b, s in [(None, None, None), (1, None, None), (None, None, -1), (None, -1, 2),
                                                   (4, 0, -2), (-9, 9, 3), (0, 5, 0), (3, 1, 1), (None, 2, -1)]]
        for _ in range(60 if self.Q else 700):
            n = self.pick([0, 1, 2, 3, 5, 8, 13])

            def bound():
                u = rng.random()
                return None if u < 0.25 else self.ri(-n - 3, n + 3) if u < 0.95 else self.ri(-10 ** 6, 10 ** 6)
            s = self.pick([None, None, 1, 1, -1, -1, 2, -2, 3, -3, 7, -7, 0, 10 ** 9, -10 ** 9])
            cases.append((n, bound(), bound(), s))
        for n, a, b, s in cases:
            ec, got, msg = call(lambda: list(range(n))[a:b:s])
            ec2, got2, msg2 = call(lambda: list(range(*slice(a, b, s).indices(n))))
            if ec2 != ec:
                got2 = [-1]
            self.add(f"CSlice {cZ(n)} {coz(a)} {coz(b)} {coz(s)} {cZ(ec)} {czl(got or [])} {czl(got2 or [])}", "slice_indices",
                     ERR[ec] if ec else ("empty" if not got else "reversed" if (s or 1) < 0 else "forward"),
                     {"correspondence": "Model.AmplitudesGlue.slice_indices vs list(range(n))[a:b:s] and slice(a,b,s).indices(n)",
                      "n": n, "start": a, "stop": b, "step": s, "impl": got if ec == 0 else msg, "impl_indices": got2 if ec2 == 0 else msg2},
                     f"slice_indices (Z.to_nat {cZ(n)}) {coz(a)} {coz(b)} {coz(s)}")
        for _ in range(30 if self.Q else 300):
            n = self.ri(0, 6)
            ln = n if rng.random() < 0.6 else 0 if rng.random() < 0.25 else self.ri(0, 7)   # 0: accepted on every axis
            m = [bool(rng.random() < 0.5) for _ in range(ln)]
            ec, got, msg = call(lambda: np.arange(n)[np.array(m, dtype=bool)].tolist())
            self.add(f"CMask {cZ(n)} {clist([cbool(b) for b in m])} {cZ(ec)} {czl(got or [])}", "mask_indices",
                     ERR[ec] if ec else "ok, empty mask on a non-empty axis" if (not m and n > 0) else "ok",
                     {"correspondence": "Model.AmplitudesGlue.mask_indices vs np.arange(n)[mask]", "n": n, "mask": m,
                      "impl": got if ec == 0 else msg},
                     f"mask_indices (Z.to_nat {cZ(n)}) {clist([cbool(b) for b in m])}")

    # -- selectors ---------------------------------------------------------------------------------------------------------
    def gen_item(self, n, valid):
        """one consuming item on an axis of length n: (python object, model form)"""
        rng = self.rng
        u = rng.random()
        if u < 0.3:                      # integer
            if valid and n > 0:
                z = self.ri(-n, n - 1)
            else:
                z = self.pick([n, -n - 1, n + 2, -n - 3]) if not valid else 0
            return (np.int64(z) if rng.random() < 0.2 else z), ("int", z)
        if u < 0.6:                      # slice
            def bound():
                v = rng.random()
                return None if v < 0.35 else self.ri(-n - 2, n + 2)
            s = self.pick([None, None, None, 1, -1, -1, 2, -2, 3]) if valid else 0
            a, b = bound(), bound()
            return slice(a, b, s), ("slice", a, b, s)
        if u < 0.82:                     # index list
            k = self.ri(0, 4)
            l = [self.ri(-n, n - 1) for _ in range(k)] if n > 0 else []
            if not valid:
                l.insert(self.ri(0, len(l)), self.pick([n, -n - 1, n + 3]))
            if not l or rng.random() < 0.5:
                return np.array(l, dtype=np.int64), ("list", l)
            return list(l), ("list", l)
        # numpy accepts a boolean index of size 0 on ANY axis and selects nothing: Model mask_indices [] = GOk []; so an empty
        # mask is a VALID item on every axis, and an invalid mask has a length that is neither n nor 0
        if valid:
            ln = 0 if rng.random() < 0.2 else n
        else:
            ln = self.pick([n + 1, n - 1 if n > 1 else n + 3, n + 2])
        m = [bool(rng.random() < 0.5) for _ in range(ln)]
        if not m or rng.random() < 0.5:
            return np.array(m, dtype=bool), ("mask", m)
        return list(m), ("mask", m)

    def note_empty_mask(self, family, n, sel):
        """extra count (no comparison of its own): an empty boolean mask in an index of an array whose first axis is NOT empty
        (numpy accepts it and selects nothing; excluded from the tie before the repair of mask_indices)"""
        if n > 0 and ("mask", []) in sel:
            self.chk.count(tie_C08=f"{family}:with an empty mask on a non-empty axis")

    def gen_selector(self, ng, ne, family=None):
        """(python index, model selector, kind)"""
        rng = self.rng
        if family is None:
            u = rng.random()
            family = ("grid" if u < 0.5 else "grid-invalid" if u < 0.62 else "dots-first" if u < 0.72 else
                      "two" if u < 0.80 else "none" if u < 0.88 else "dots2" if u < 0.92 else "three" if u < 0.95 else "trivial")
        if family == "trivial":
            k = self.ri(0, 3)
            return [((), []), (Ellipsis, ["dots"]), ((Ellipsis,), ["dots"]), (slice(None), [("slice", None, None, None)])][k] + (family,)
        if family in ("grid", "grid-invalid"):
            py, it = self.gen_item(ng, family == "grid")
            u = rng.random()
            if u < 0.5:
                return py, [it], family
            if u < 0.75:
                return (py,), [it], family
            return (py, Ellipsis), [it, "dots"], family
        if family == "dots-first":
            py, it = self.gen_item(self.pick([ng, ne]), rng.random() < 0.8)
            if rng.random() < 0.15:
                return (None, Ellipsis, py), ["none", "dots", it], family
            return (Ellipsis, py), ["dots", it], family
        if family == "two":
            p1, i1 = self.gen_item(ng, rng.random() < 0.8)
            p2, i2 = self.gen_item(ne, rng.random() < 0.8)
            u = rng.random()
            if u < 0.7:
                return (p1, p2), [i1, i2], family
            if u < 0.85:
                return (p1, Ellipsis, p2), [i1, "dots", i2], family
            return (Ellipsis, p1, p2), ["dots", i1, i2], family
        if family == "none":
            p1, i1 = self.gen_item(ng, rng.random() < 0.85)
            return self.pick([(None, [("none")]), ((None,), ["none"]), ((None, p1), ["none", i1]), ((p1, None), [i1, "none"]),
                              ((None, None, p1), ["none", "none", i1]), ((slice(None), None), [("slice", None, None, None), "none"]),
                              ((None, Ellipsis), ["none", "dots"]), ((Ellipsis, None), ["dots", "none"])]) + (family,)
        if family == "dots2":
            p1, i1 = self.gen_item(ng, True)
            return self.pick([((Ellipsis, Ellipsis), ["dots", "dots"]), ((Ellipsis, p1, Ellipsis), ["dots", i1, "dots"]),
                              ((p1, Ellipsis, Ellipsis), [i1, "dots", "dots"])]) + (family,)
        p1, i1 = self.gen_item(ng, rng.random() < 0.8)
        p2, i2 = self.gen_item(ne, rng.random() < 0.8)
        p3, i3 = self.gen_item(ne, rng.random() < 0.8)
        return (p1, p2, p3), [i1, i2, i3], "three"

    @staticmethod
    def sel_repr(py):
        def r(x):
            if isinstance(x, np.ndarray):
                return f"np.array({x.tolist()}, dtype={x.dtype})"
            if isinstance(x, np.integer):
                return f"np.int64({int(x)})"
            return repr(x)
        return "(" + ", ".join(r(x) for x in py) + ("," if len(py) == 1 else "") + ")" if isinstance(py, tuple) else r(py)

    # -- (2) the guard and the indexing of a stored array ---------------------------------------------------------------------
    def fam_guard_index2(self):
        fixed = [(3, (Ellipsis, 0), ["dots", ("int", 0)]), (3, (None, 0), ["none", ("int", 0)]), (3, (None,), ["none"]),
                 (3, (0, 1), [("int", 0), ("int", 1)]), (3, (Ellipsis, 5), ["dots", ("int", 5)]),
                 (3, (slice(0, 3, 0), 0), [("slice", 0, 3, 0), ("int", 0)]),
                 (3, (Ellipsis, Ellipsis, slice(0, 3, 0)), ["dots", "dots", ("slice", 0, 3, 0)])]
        todo = [(n, py, sel, "fixed") for n, py, sel in fixed]
        for _ in range(120 if self.Q else 1500):
            ng, ne = self.ri(0, 5), self.ri(1, 4)
            py, sel, kind = self.gen_selector(ng, ne)
            todo.append((ng, py, sel, kind))
        for n, py, sel, kind in todo:
            ec, nd, msg = call(lambda: int(np.empty(n)[py].ndim))
            self.note_empty_mask("guard_ndim", n, sel)
            self.add(f"CGuard {cZ(n)} {csel(sel)} {cZ(ec)} {cZ(nd or 0)}", "guard_ndim", f"{kind}:{ERR[ec] if ec else 'ndim ' + str(nd)}",
                     {"correspondence": "Model.AmplitudesGlue.guard_ndim vs np.empty(n)[sel].ndim (model.py:1493)", "n": n,
                      "selector": self.sel_repr(py), "impl": nd if ec == 0 else msg}, f"guard_ndim (Z.to_nat {cZ(n)}) {csel(sel)}")
        for _ in range(120 if self.Q else 1500):
            ng, ne = self.ri(0, 5), self.ri(1, 4)
            py, sel, kind = self.gen_selector(ng, ne)
            if "none" in sel:
                continue
            A = np.arange(ng * ne).reshape(ng, ne)
            ec, got, msg = call(lambda: np.asarray(A[py]))
            ncons = sum(1 for it in sel if it not in ("dots", "none"))
            if ncons == 2 and sel.count("dots") <= 1:
                self.unmodelled += 1
                self.chk.count(tie_C08="index2:unmodelled (two consuming items), not compared")
                continue
            if ec == 0 and got.ndim not in (1, 2):
                garr, ecc = "A1 []", 98
            elif ec == 0:
                garr = ("A1 " + czl(got.tolist())) if got.ndim == 1 else ("A2 " + clist([czl(r) for r in got.tolist()]))
                ecc = 0
            else:
                garr, ecc = "A1 []", ec
            self.note_empty_mask("index2", ng, sel)
            self.add(f"CIndex2 {cZ(ng)} {cZ(ne)} {csel(sel)} {cZ(ecc)} ({garr})", "index2",
                     f"{kind}:{ERR.get(ecc, 'other ndim') if ecc else str(got.ndim) + '-d'}",
                     {"correspondence": "Model.AmplitudesGlue.index2 vs A[sel], A = np.arange(ng*ne).reshape(ng, ne)", "ng": ng, "ne": ne,
                      "selector": self.sel_repr(py), "impl": got.tolist() if ec == 0 else msg},
                     f"index2 (Z.to_nat {cZ(ng)}) (Z.to_nat {cZ(ne)}) (zrows {cZ(ng)} {cZ(ne)}) {csel(sel)}")

    # -- (3) objects of the factory ---------------------------------------------------------------------------------------------
    def gen_arrays(self, ne, ng):
        return self.rng.integers(-64, 65, size=(ne, ng)) * 4, self.rng.integers(-64, 65, size=(ne, ng)) * 4

    def gen_obj(self, cls, faults=()):
        """an input of model_amplitudes_factory in integer form (all numbers are numerators over 64)"""
        rng = self.rng
        ne = self.ri(1, 4)
        ng = self.pick([0, 1, 1, 2, 2, 3, 3, 3, 4, 5])
        npth = len(self.plist)
        a, b = self.ri(0, npth - 1), self.ri(0, npth - 1)
        if rng.random() < 0.2:
            b = a
        mode = lambda p: 0 if self.pnames[p][-1] == "L" else 1       # noqa: E731
        key = 2 * mode(a) + mode(b)
        nt = self.pick([0, 1, 2, 3, 4, 4, 4, 6])
        tx = [self.ri(-ne, ne - 1) for _ in range(nt)]
        rx = [self.ri(-ne, ne - 1) for _ in range(nt)]
        if "len_rx1" in faults:
            rx = [self.ri(-ne, ne - 1)]
        if "len_tx1" in faults:
            tx = [self.ri(-ne, ne - 1)]
        if "len_mismatch" in faults:
            rx = rx[:-1] if len(rx) > 2 and rng.random() < 0.5 else rx + [0, 0]
        dts = []
        for side, vals in (("tx", tx), ("rx", rx)):
            dt = "int64"
            u = rng.random()
            if f"float_{side}" in faults:
                dt = self.pick(["float64", "float64", "float32"])
            elif f"u64_{side}" in faults:
                dt = "uint64"
            elif u < 0.12:
                dt = self.pick(["int8", "int16", "int32"])
            elif u < 0.22:
                dt = self.pick(["uint8", "uint16", "uint32"])
            elif u < 0.27:
                dt = "bool"
            elif u < 0.30 and cls == "fn":
                dt = "uint64"
            if dt.startswith("uint"):
                vals[:] = [v % ne for v in vals]
            if dt == "bool":
                vals[:] = [(v % 2) if ne >= 2 else 0 for v in vals]
            dts.append(dt)
        if cls == "fn":
            for side, vals in (("tx", tx), ("rx", rx)):
                if f"oor_{side}" in faults and vals and DTYPES[dts[0 if side == "tx" else 1]] in (0, 4):
                    vals[self.ri(0, len(vals) - 1)] = self.pick([ne, -ne - 1, ne + 1, max(ng - 1, ne)])
        else:   # the matrix class is never given an element index outside [-ne, ne)
            assert all(-ne <= v < ne for v in tx + rx)

        def dict_with(must, extra_p=0.5):
            ks = [must] if must is not None else []
            for p in range(npth):
                if p not in ks and rng.random() < extra_p / 2:
                    ks.append(p)
            return [ks[k] for k in rng.permutation(len(ks))]
        shapes = {"tx": (ne, ng), "rx": (ne, ng), "atx": (ne, ng), "arx": (ne, ng)}
        for f in faults:
            if f.startswith("shape_"):
                alt = [(ne + 1, ng), (ne, ng + 1)] + ([(ng, ne)] if ng != ne and ng > 0 else []) + ([(ne - 1, ng)] if ne > 1 else [])
                shapes[f[6:]] = self.pick(alt)
        txk = dict_with(None if "notx" in faults else a)
        if "notx" in faults and a in txk:
            txk.remove(a)
        rxk = dict_with(None if "norx" in faults else b)
        if "norx" in faults and b in rxk:
            rxk.remove(b)
        angk = dict_with(None, 0.4)
        for p, flt in ((a, "noang_tx"), (b, "noang_rx")):
            if flt in faults:
                if p in angk:
                    angk.remove(p)
            elif p not in angk:
                angk.insert(self.ri(0, len(angk)), p)
        if "noang_tx" in faults and a == b and a in angk:
            angk.remove(a)
        txd = [(p, self.gen_arrays(*(shapes["tx"] if p == a else (ne, ng)))) for p in txk]
        rxd = [(p, self.gen_arrays(*(shapes["rx"] if p == b else (ne, ng)))) for p in rxk]
        angd = []
        for p in angk:
            shp = shapes["atx"] if p == a and shapes["atx"] != (ne, ng) else shapes["arx"] if p == b else (ne, ng)
            angd.append((p, rng.integers(-256, 257, size=shp)))
        # the scattering dictionary
        sk = [k for k in range(4) if k == key or rng.random() < 0.35]
        if "nokey" in faults:
            sk = [k for k in sk if k != key]
        sk = [sk[k] for k in rng.permutation(len(sk))]
        scat = []
        for k in sk:
            c = cls if k == key else self.pick(["fn", "mat"])
            if c == "fn":
                scat.append((k, ("fn", [self.ri(-3, 3) for _ in range(8)])))
            else:
                s = self.pick([1, 2, 2, 3, 4])
                shp = (s, s)
                if k == key and "nonsquare" in faults:
                    shp = self.pick([(2, 3), (3, 2), (1, 2), (3, 1)])
                if rng.random() < 0.5:
                    cr, ci = self.ri(-32, 32) * 4, self.ri(-32, 32) * 4
                    scat.append((k, ("mat", np.full(shp, cr), np.full(shp, ci), True)))
                else:
                    scat.append((k, ("mat", rng.integers(-32, 33, size=shp) * 4, rng.integers(-32, 33, size=shp) * 4, False)))
        angle = self.pick([0, 8, -8, self.ri(-128, 128), 64])
        return dict(cls=cls, ne=ne, ng=ng, a=a, b=b, key=key, tx=tx, rx=rx, txdt=dts[0], rxdt=dts[1], txd=txd, rxd=rxd, angd=angd,
                    scat=scat, angle=angle, faults=sorted(faults))

    def cobj(self, o):
        def cplx(re, im):
            return clist([clist([cpair(cZ(x), cZ(y)) for x, y in zip(r1, r2)]) for r1, r2 in zip(re.tolist(), im.tolist())])

        def cs(s):
            if s[0] == "fn":
                return f"ZFn {czl(s[1])}"
            return f"ZMat {cplx(s[1], s[2])}"
        return (f"(mkZ ({cZ(DTYPES[o['txdt']])}, {czl(o['tx'])}) ({cZ(DTYPES[o['rxdt']])}, {czl(o['rx'])}) "
                f"({cZ(o['a'])}, {cZ(o['b'])}, {cZ(o['key'])}) "
                f"{clist([cpair(cZ(p), cplx(*arr)) for p, arr in o['txd']])} {clist([cpair(cZ(p), cplx(*arr)) for p, arr in o['rxd']])} "
                f"{clist([cpair(cZ(p), clist([czl(r) for r in arr.tolist()])) for p, arr in o['angd']])} "
                f"{clist([cpair(cZ(k), cs(s)) for k, s in o['scat']])} {cZ(o['angle'])})")

    def robj(self, o):
        """JSON form of the object for a replay"""
        def cx(arr):
            return {"re_x64": arr[0].tolist(), "im_x64": arr[1].tolist()}
        return {"numelements": o["ne"], "numpoints": o["ng"], "tx": o["tx"], "tx_dtype": o["txdt"], "rx": o["rx"], "rx_dtype": o["rxdt"],
                "paths(block_in_immersion.make_paths, 1 reflection)": self.pnames,
                "view(name of view.tx_path, name of view.rx_path, scat key)": [self.pnames[o["a"]], self.pnames[o["b"]], KEYS[o["key"]]],
                "tx_ray_weights_dict(values x64, shape (ne, ng))": [[self.pnames[p], cx(arr)] for p, arr in o["txd"]],
                "rx_ray_weights_dict": [[self.pnames[p], cx(arr)] for p, arr in o["rxd"]],
                "scattering_angles_dict(x64)": [[self.pnames[p], arr.tolist()] for p, arr in o["angd"]],
                "scattering(fn: coefficients c of (c0+c1 x+c2 y+c3 xy) + 1j (c4+c5 x+c6 y+c7 xy); mat: entries x64)":
                    [[KEYS[k], [s[0]] + ([s[1]] if s[0] == "fn" else [s[1].tolist(), s[2].tolist()])] for k, s in o["scat"]],
                "scat_angle_x64": o["angle"], "faults_injected": o["faults"]}

    def build(self, o):
        """the real arguments of model_amplitudes_factory"""
        rng, m = self.rng, self.model

        def arr(re, im):
            a = (re / 64.0) + 1j * (im / 64.0)
            return np.asfortranarray(a) if rng.random() < 0.15 else a
        tx = np.array(o["tx"], dtype=np.int64).astype(o["txdt"])
        rx = np.array(o["rx"], dtype=np.int64).astype(o["rxdt"])
        txd = {self.plist[p]: arr(*a) for p, a in o["txd"]}
        rxd = {self.plist[p]: arr(*a) for p, a in o["rxd"]}
        angd = {self.plist[p]: a / 64.0 for p, a in o["angd"]}
        dbg = self.pick([None, None, {}, {self.plist[0]: {"directivity": np.ones((1, 1))}}])
        rw = m.RayWeights(txd, rxd, dbg, None if dbg is None else {}, angd)
        scat = {}
        for k, s in o["scat"]:
            if s[0] == "fn":
                c = list(s[1])
                scat[KEYS[k]] = _CallableS(c) if rng.random() < 0.3 else (
                    lambda x, y, c=c: (c[0] + c[1] * x + c[2] * y + c[3] * x * y) + 1j * (c[4] + c[5] * x + c[6] * y + c[7] * x * y))
            else:
                scat[KEYS[k]] = (s[1] / 64.0) + 1j * (s[2] / 64.0)
        view = self.view_of[(o["a"], o["b"])]          # the real View whose tx_path / rx_path are these two Path objects
        angle = o["angle"] / 64.0
        if o["angle"] % 64 == 0 and rng.random() < 0.3:
            angle = int(o["angle"] // 64)
        return tx, rx, view, rw, scat, angle

    def call_factory(self, o):
        m, rng = self.model, self.rng
        tx, rx, view, rw, scat, angle = self.build(o)
        u = rng.random()
        if o["angle"] == 0 and u < 0.4:
            return call(m.model_amplitudes_factory, tx, rx, view, rw, scat), "scat_angle absent"
        if u < 0.7:
            return call(m.model_amplitudes_factory, tx, rx, view, rw, scat, angle), "positional"
        return call(m.model_amplitudes_factory, tx=tx, rx=rx, view=view, ray_weights=rw, scattering=scat, scat_angle=angle), "keywords"

    def fac_case(self, o, res, spelling, kind):
        ec, ma, msg = res
        rep = {"correspondence": "Model.AmplitudesGlue.model_amplitudes_factory (mo_shape, ma_numelements, ma_numpoints, "
                                 "ma_numtimetraces, class) vs arim.model.model_amplitudes_factory", "input": self.robj(o),
               "argument_spelling": spelling}
        if ec == 0:
            obs, ec2, msg2 = None, 0, ""
            try:
                shp = tuple(int(x) for x in ma.shape)
                obs = (shp, int(ma.numelements), int(ma.numpoints), int(ma.numtimetraces),
                       type(ma).__name__ == "_ModelAmplitudesWithScatMatrix")
                if len(shp) != 2 or type(ma).__name__ not in ("_ModelAmplitudesWithScatMatrix", "_ModelAmplitudesWithScatFunction"):
                    raise TypeError(f"unexpected object {type(ma).__name__} of shape {shp}")
            except Exception as e:  # noqa: BLE001
                ec2, msg2 = 98, f"{type(e).__name__}: {e}"
            if ec2:
                rep["impl"] = "attributes of the object: " + msg2
                lit = f"CFac {self.cobj(o)} 98%Z (0%Z, 0%Z) 0%Z 0%Z 0%Z false"
            else:
                rep["impl(shape, numelements, numpoints, numtimetraces, matrix class)"] = [list(obs[0])] + list(obs[1:])
                lit = (f"CFac {self.cobj(o)} 0%Z ({cZ(obs[0][0])}, {cZ(obs[0][1])}) {cZ(obs[1])} {cZ(obs[2])} {cZ(obs[3])} "
                       f"{cbool(obs[4])}")
        else:
            rep["impl"] = ERR[ec] + " " + msg
            lit = f"CFac {self.cobj(o)} {cZ(ec)} (0%Z, 0%Z) 0%Z 0%Z 0%Z false"
        self.add(lit, "factory", f"{kind}:{ERR[ec] if ec else o['cls']}", rep, f"show_fac {self.cobj(o)}")

    def fixed_obj(self, cls, tx=(0, 1, 1, -1), rx=(1, 0, -1, 0), txdt="int64", rxdt="int64", mat=None):
        """the objects of section 2 of the note (2 elements, 3 grid points)"""
        def z(a):
            a = np.array(a) * 64
            return np.real(a).astype(np.int64), np.imag(a).astype(np.int64)
        Qtx = z([[1 + 2j, 3 - 1j, 0.5], [-2 + 1j, 3j, 5 + 0.25j]])
        Qrx = z([[2, 1 + 1j, -1 + 2j], [1.5 - 1j, 4, -2j]])
        Ttx = (np.array([[.25, .5, .75], [-.25, -.5, -.75]]) * 64).astype(np.int64)
        Trx = (np.array([[.125, .375, .625], [-.125, -.375, -.625]]) * 64).astype(np.int64)
        if cls == "fn":
            sc = ("fn", [1, 2, 3, 0, 0, 0, 0, 1])
        else:
            shp = mat or (2, 2)
            sc = ("mat", np.full(shp, 128), np.full(shp, 64), True)
        return dict(cls=cls, ne=2, ng=3, a=0, b=1, key=1, tx=list(tx), rx=list(rx), txdt=txdt, rxdt=rxdt, txd=[(0, Qtx)],
                    rxd=[(1, Qrx)], angd=[(0, Ttx), (1, Trx)], scat=[(1, sc)], angle=8, faults=["fixed example of the note"])

    def fam_factory_errors(self):
        rng = self.rng
        singles = ["nokey", "notx", "norx", "noang_tx", "noang_rx", "shape_tx", "shape_rx", "shape_atx", "shape_arx"]
        todo = [(f,) for f in singles for _ in range(5 if self.Q else 40)]
        for _ in range(80 if self.Q else 800):            # two (or three) faults: the precedence
            k = 2 if rng.random() < 0.8 else 3
            todo.append(tuple(singles[int(i)] for i in rng.choice(len(singles), size=k, replace=False)))
        for faults in todo:
            o = self.gen_obj(self.pick(["fn", "mat"]), faults)
            res, sp = self.call_factory(o)
            self.fac_case(o, res, sp, "faults " + "+".join(sorted(faults)) if len(faults) == 1 else f"{len(faults)} faults")

    # -- (4) indexing the object ------------------------------------------------------------------------------------------------------
    def py_safe_for_matrix(self, o, py, sel):
        """independent guard: may the matrix class be indexed with this selector without numba reading out of bounds?"""
        if "none" in sel:
            return False
        if any(not (-o["ne"] <= v < o["ne"]) for v in o["tx"] + o["rx"]):
            return False
        s = next(s for k, s in o["scat"] if k == o["key"])
        if s[1].shape[0] == 0 or s[1].ndim != 2:
            return False
        try:
            shp = np.empty((o["ng"], o["ne"]))[py].shape
        except Exception:  # noqa: BLE001   the library raises the same while evaluating the arguments of the gufunc
            return True
        if len(shp) == 0:
            return False
        if any(d == 0 for d in shp[:-1]):
            return True           # no grid point: the kernel is not entered
        L = shp[-1]
        return all(-L <= v < L for v in o["tx"] + o["rx"])

    def fam_getitem(self):
        rng = self.rng
        objs = []     # (o, [(py, sel, kind)], kind)
        note_sels = [(0, [("int", 0)]), (np.array([2, -3]), [("list", [2, -3])]), (np.array([True, False, True]), [("mask", [True, False, True])]),
                     (slice(None, None, -2), [("slice", None, None, -2)]), (Ellipsis, ["dots"]), ((), []), (slice(None), [("slice", None, None, None)]),
                     ((slice(0, 2), Ellipsis), [("slice", 0, 2, None), "dots"]), (3, [("int", 3)]), (-4, [("int", -4)]),
                     (np.array([True, False]), [("mask", [True, False])]), ([0, 3], [("list", [0, 3])]), ((0, 1), [("int", 0), ("int", 1)]),
                     ((slice(0, 2), 0), [("slice", 0, 2, None), ("int", 0)]), (None, ["none"]), ((slice(None), None), [("slice", None, None, None), "none"]),
                     ((Ellipsis, Ellipsis), ["dots", "dots"]), (slice(0, 3, 0), [("slice", 0, 3, 0)]), ((None, 0), ["none", ("int", 0)]),
                     ((0, None), [("int", 0), "none"]), ((Ellipsis, 0), ["dots", ("int", 0)]), ((Ellipsis, 2), ["dots", ("int", 2)]),
                     ((Ellipsis, slice(0, 2)), ["dots", ("slice", 0, 2, None)]), ((Ellipsis, [0, 0, 1]), ["dots", ("list", [0, 0, 1])]),
                     (1, [("int", 1)]), (slice(0, 0), [("slice", 0, 0, None)])]
        note_sels = [(py, sel, "fixed") for py, sel in note_sels]
        for cls in ("fn", "mat"):
            objs.append((self.fixed_obj(cls), note_sels, "fixed"))
            objs.append((self.fixed_obj(cls, txdt="int8", rx=(1, 0, 1, 0), rxdt="uint16"), note_sels[:6], "fixed"))
            objs.append((self.fixed_obj(cls, txdt="float64"), note_sels[:10], "fixed"))
            objs.append((self.fixed_obj(cls, tx=(0, 1, 1, 1), rx=(1, 0, 1, 0), txdt="uint64", rxdt="uint64"), note_sels[:6], "fixed"))
            objs.append((self.fixed_obj(cls, tx=(1, 0, 1, 1), rx=(0, 0, 1, 0), txdt="bool", rxdt="bool"), note_sels[:6], "fixed"))
            objs.append((self.fixed_obj(cls, rx=(1,)), note_sels[:10], "fixed"))
            objs.append((self.fixed_obj(cls, tx=(1,)), note_sels[:10], "fixed"))
            objs.append((self.fixed_obj(cls, rx=(0, 1)), note_sels[:10] + note_sels[-1:], "fixed"))
            objs.append((self.fixed_obj(cls, tx=(), rx=()), note_sels[:10], "fixed"))
        objs.append((self.fixed_obj("mat", mat=(2, 3)), note_sels[:10], "fixed"))
        objs.append((self.fixed_obj("mat", mat=(1, 1)), note_sels[:10], "fixed"))
        objs.append((self.fixed_obj("fn", tx=(0, 5, 0, 0), rxdt="float64"), note_sels[:10], "fixed"))
        objs.append((self.fixed_obj("fn", tx=(0, 2, 0, 0)), note_sels[:10] + note_sels[20:22], "fixed"))
        streams = [((), 0.62), (("float_tx",), 0.04), (("float_rx",), 0.04), (("u64_tx",), 0.02), (("u64_rx",), 0.02),
                   (("len_rx1",), 0.04), (("len_tx1",), 0.03), (("len_mismatch",), 0.04), (("oor_tx",), 0.03), (("oor_rx",), 0.03),
                   (("nonsquare",), 0.03), ("two", 0.06)]
        probs = np.array([p for _, p in streams])
        pool = ["float_tx", "float_rx", "u64_tx", "u64_rx", "len_rx1", "len_tx1", "len_mismatch", "oor_tx", "oor_rx", "nonsquare"]
        for _ in range(220 if self.Q else 2200):
            faults = streams[int(rng.choice(len(streams), p=probs / probs.sum()))][0]
            if faults == "two":
                faults = tuple(pool[int(i)] for i in rng.choice(len(pool), size=2, replace=False))
            cls = "mat" if "nonsquare" in faults else "fn" if any(f.startswith("oor") for f in faults) else self.pick(["fn", "fn", "mat"])
            o = self.gen_obj(cls, faults)
            sels = [self.gen_selector(o["ng"], o["ne"]) for _ in range(self.ri(4, 7))]
            kind = "valid object" if not faults else ("fault " + faults[0] if len(faults) == 1 else "two faults")
            objs.append((o, sels, kind))
        # pass 1: what does the model say (no library call yet)
        classes = self.pass1([(o, [s[1] for s in sels]) for o, sels, _ in objs])
        pos = 0
        for o, sels, kind in objs:
            cl = classes[pos:pos + len(sels)]
            pos += len(sels)
            res, sp = self.call_factory(o)
            self.fac_case(o, res, sp, "object to index, " + kind)
            if res[0] != 0 or any(c == -7 for c in cl):
                if (res[0] != 0) != any(c == -7 for c in cl):
                    pass      # reported by the CFac case above
                continue
            ma = res[1]
            s_key = next(s for k, s in o["scat"] if k == o["key"])
            exact = o["cls"] == "fn" or bool(s_key[3])
            items, ritems = [], []
            for (py, sel, skind), c in zip(sels, cl):
                tag = f"{o['cls']}:{kind}:{skind}"
                if c == -1:
                    self.unmodelled += 1
                    self.chk.count(tie_C08=f"getitem:{o['cls']}:{skind}:EUnmodelled, library not run")
                    continue
                if o["cls"] == "mat" and not self.py_safe_for_matrix(o, py, sel):
                    self.chk.count(tie_C08=f"getitem:mat:{skind}:refused by the out-of-bounds guard of the harness, library not run")
                    if c not in (10, 20):
                        continue          # the model expects a raise before the kernel; not run all the same
                    self.chk.violation("tie:getitem_matrix:safety-guard",
                                       "tie C08: the model gives an outcome for an index of the matrix class that the harness's "
                                       "independent out-of-bounds guard refuses to run on the library",
                                       {"correspondence": "getitem_mat_sel vs _ModelAmplitudesWithScatMatrix.__getitem__", "input": self.robj(o),
                                        "selector": self.sel_repr(py), "model_outcome_class": OCLASS.get(c, c)}, failing_input_found=False)
                    continue
                ec, r, msg = call(lambda: ma[py])
                if ec == 0:
                    r = np.asarray(r)
                    if r.ndim == 1 and r.dtype.kind in "cf":
                        lit = "OArr (A1 " + self.cvals(r.tolist()) + ")"
                    elif r.ndim == 2 and r.dtype.kind in "cf":
                        lit = "OArr (A2 " + clist([self.cvals(row) for row in r.tolist()]) + ")"
                    else:
                        lit = "OOther"
                    shown = {"shape": list(r.shape), "values": [str(z) for z in r.ravel().tolist()][:40]}
                else:
                    lit, shown = f"OErr {cZ(ec)}", ERR[ec] + " " + msg
                items.append(f"({csel(sel)}, {lit})")
                ritems.append({"selector": self.sel_repr(py), "impl": shown, "model_outcome_class(pass 1)": OCLASS.get(c, c)})
                self.chk.count(tie_C08=f"getitem:{tag}:{ERR[ec] if ec else str(np.ndim(r)) + '-d'}")
                self.note_empty_mask(f"getitem:{o['cls']}:{'ok' if ec == 0 else ERR[ec]}", o["ng"], sel)
                self.n += 1
            if not items:
                continue
            cob = self.cobj(o)
            sl = clist([csel(s[1]) for s, c in zip(sels, cl) if c != -1])
            self.cases.append((f"CGet {cob} {cbool(exact)} {clist(items, sep=';' + chr(10))}", f"getitem {o['cls']}",
                               {"correspondence": ("Model.AmplitudesGlue.mo_getitem (getitem_fn_sel) vs _ModelAmplitudesWithScatFunction.__getitem__"
                                                   if o["cls"] == "fn" else
                                                   "Model.AmplitudesGlue.mo_getitem (getitem_mat_sel) vs _ModelAmplitudesWithScatMatrix.__getitem__")
                                + " of the object of arim.model.model_amplitudes_factory",
                                "input": self.robj(o), "values_compared": "exactly" if exact else "within 1e-9", "indexings": ritems},
                               f"(map (fun sel => show_arr (gi {cob} sel)) {sl}, map (fun it => item_ok {cbool(exact)} (gi {cob} (fst it)) (snd it)) "
                               f"{clist(items, sep=';' + chr(10))})"))

    @staticmethod
    def cvals(row):
        out = []
        for z in row:
            z = complex(z)
            a, b = Fr(z.real), Fr(z.imag)
            out.append(f"(({cZ(a.numerator)}, {cZ(a.denominator)}), ({cZ(b.numerator)}, {cZ(b.denominator)}))")
        return clist(out)

    def pass1(self, todo):
        """outcome classes of the model for [(object, [selector])], flattened, by coqc"""
        chk = self.chk
        shards = [todo[i:i + 40] for i in range(0, len(todo), 40)]
        texts = []
        for k, sh in enumerate(shards):
            body = ";\n".join(f"({self.cobj(o)}, {clist([csel(s) for s in sels])})" for o, sels in sh)
            texts.append((f"tie_C08_pass1_{k}", PRELUDE + f"Eval vm_compute in (oclasses [\n{body}])." + "\n"))
        with ThreadPoolExecutor(max_workers=8) as ex:
            outs = list(ex.map(lambda nt: chk.coq_eval(nt[0], nt[1], timeout=900), texts))
        res = []
        for sh, out in zip(shards, outs):
            lists = chk.parse_Z_list(out)
            want = sum(len(sels) for _, sels in sh)
            assert len(lists) == 1 and len(lists[0]) == want, out[-1500:]
            res += lists[0]
        chk.cov["model_cases_evaluated_in_coq"] = chk.cov.get("model_cases_evaluated_in_coq", 0) + len(res)
        return res

    # -- (5) ray_weights_for_views: which dictionary gets which path, None / debug, errors -----------------------------------------------
    def fam_rwv(self):
        import logging
        rng, bim = self.rng, self.bim
        logging.getLogger("arim").setLevel(logging.ERROR)       # "rays go through the interface limits" on a one-point wall
        for it in range(30 if self.Q else 250):
            nrefl = 0 if rng.random() < 0.6 else 1
            paths, views = self.make_setup(nrefl, trace=False)
            plist, names = list(paths.values()), list(paths.keys())
            u = rng.random()
            traced = [True] * len(plist) if u < 0.6 else [bool(rng.random() < 0.7) for _ in plist]
            if any(traced):
                self.aray.ray_tracing_for_paths([p for p, t in zip(plist, traced) if t])
            vkeys = list(views.keys())
            k = self.pick([0, 1, 1, 2, 2, 3, len(vkeys)])
            chosen = [vkeys[int(i)] for i in rng.permutation(len(vkeys))[:k]]
            if it == 0:
                chosen, traced = ["L-L"], traced
            width = bool(rng.random() < 0.8)
            ud, ub, ut, ua = (bool(rng.random() < 0.7) for _ in range(4))
            dbg = bool(rng.random() < 0.5)
            pid = {id(p): i for i, p in enumerate(plist)}
            vz = [(pid[id(views[v].tx_path)], pid[id(views[v].rx_path)]) for v in chosen]
            kw = {}
            if not (ud and rng.random() < 0.5):
                kw["use_directivity"] = ud
            if not (ub and rng.random() < 0.5):
                kw["use_beamspread"] = ub
            if not (ut and rng.random() < 0.5):
                kw["use_transrefl"] = ut
            if not (ua and rng.random() < 0.5):
                kw["use_attenuation"] = ua
            if dbg or rng.random() < 0.5:
                kw["save_debug"] = dbg
            args = [{v: views[v] for v in chosen}, 24000.]
            if width:
                args.append(1e-3)
            elif rng.random() < 0.5:
                args.append(None)
            ec, rw, msg = call(bim.ray_weights_for_views, *args, **kw)
            pid = {id(p): i for i, p in enumerate(plist)}
            rep = {"correspondence": "Model.AmplitudesGlue.ray_weights_for_views_full (keys of the five dictionaries; None = raises) vs "
                                     "arim.models.block_in_immersion.ray_weights_for_views", "paths": names, "traced": traced, "views": chosen,
                   "probe_element_width": 1e-3 if width else None, "use_directivity/beamspread/transrefl/attenuation": [ud, ub, ut, ua],
                   "save_debug": dbg}
            flags = clist([cbool(x) for x in (width, ud, ub, ut, ua, dbg)])
            cv = clist([cpair(cZ(a), cZ(b)) for a, b in vz])
            ct = clist([cbool(t) for t in traced])
            if ec == 0:
                try:
                    ks = lambda d: sorted(pid[id(p)] for p in d)      # noqa: E731
                    got = (ks(rw.tx_ray_weights_dict), ks(rw.rx_ray_weights_dict), ks(rw.scattering_angles_dict),
                           None if rw.tx_ray_weights_debug_dict is None else ks(rw.tx_ray_weights_debug_dict),
                           None if rw.rx_ray_weights_debug_dict is None else ks(rw.rx_ray_weights_debug_dict))
                except Exception as e:  # noqa: BLE001
                    self.chk.violation("tie:ray_weights_for_views:encoding", f"unexpected result: {e}", rep, failing_input_found=False)
                    continue
                rep["impl(keys of tx, rx, angles, tx debug, rx debug dictionaries)"] = [x for x in got]
                lit = (f"CRwv {ct} {cv} {flags} false ({czl(got[0])}, {czl(got[1])}, {czl(got[2])}, "
                       f"({copt(got[3], czl)}, {copt(got[4], czl)}))")
            else:
                rep["impl"] = ERR.get(ec, "?") + " " + msg
                if ec != 2:
                    self.chk.violation("tie:ray_weights_for_views:exception", "an exception that is not ValueError: " + msg, rep,
                                       failing_input_found=False)
                    continue
                lit = f"CRwv {ct} {cv} {flags} true ([], [], [], (None, None))"
            self.add(lit, "ray_weights_for_views",
                     ("ValueError" if ec else "ok") + ("" if all(traced) else ":untraced paths") + ("" if width else ":no width")
                     + (":save_debug" if dbg else "") + f":{len(chosen)} views", rep,
                     f"rw_struct (rwv {ct} {cv} {' '.join(cbool(x) for x in (width, ud, ub, ut, ua, dbg))})")

    # -- evaluation in Coq ---------------------------------------------------------------------------------------------------------------
    def evaluate(self, name, cases, shard):
        chk = self.chk
        if not cases:
            return
        fails = chk.coq_failing(name, PRELUDE, "tcase", [x[0] for x in cases], "check", shard=shard, jobs=8)
        if not fails:
            return
        per_family, report = {}, []
        for k in fails:
            fam = cases[k][1]
            per_family[fam] = per_family.get(fam, 0) + 1
            if per_family[fam] <= 2:
                report.append(k)
        try:
            out = chk.coq_values(name + "_answers", PRELUDE, [cases[k][3] for k in report])
            answers = [a.strip() for a in out.split("     = ")[1:]]
        except Exception as e:  # noqa: BLE001
            answers = [f"(could not be printed: {e})"[:300]] * len(report)
        for j, k in enumerate(report):
            lit, fam, rep, expr = cases[k]
            rep = dict(rep)
            rep["model_expression"] = expr[:1500]
            rep["model_answer"] = (answers[j] if j < len(answers) else "?")[:4000]
            rep["disagreeing_cases_of_this_family"] = per_family[fam]
            chk.violation("tie:" + fam.replace(" ", "_"),
                          f"tie C08: {fam}: the library and Model/AmplitudesGlue.v disagree ({per_family[fam]} case(s)); "
                          f"{rep['correspondence'][:160]}", rep, failing_input_found=False)

    def run(self):
        t0 = time.time()
        self.fam_slices()
        self.fam_guard_index2()
        self.fam_factory_errors()
        self.fam_rwv()
        t1 = time.time()
        self.fam_getitem()        # contains the pass-1 coqc calls
        t2 = time.time()
        light = [c for c in self.cases if not c[0].startswith("CGet") and not c[0].startswith("CFac")]
        heavy = [c for c in self.cases if c[0].startswith("CGet") or c[0].startswith("CFac")]
        self.evaluate("tie_C08_light", light, 250)
        self.evaluate("tie_C08_heavy", heavy, 40)
        self.chk.cov["tie_C08"] = {"comparisons": self.n, "coq_cases": len(self.cases), "unmodelled_not_compared": self.unmodelled,
                                   "library_s": round(t1 - t0, 1), "getitem_incl_pass1_s": round(t2 - t1, 1),
                                   "coq_s": round(time.time() - t2, 1)}
        return self.n


def run(chk, arim, rng, quick):
    """chk: common.Check of the running check; arim: the imported library; rng: numpy Generator.  Returns the number of
    comparisons made."""
    return _Tie(chk, arim, rng, quick).run()
