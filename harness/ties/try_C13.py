"""Development runner of the C13 tie alone (see /tmp/tie_brief.md):
  cd /verif && VERIF_ARIM_SRC=/repo/src PYTHONPATH=/verif/harness /venv/bin/python harness/ties/try_C13.py --tier quick --no-proofs
"""
import json
import time

import numpy as np

from common import Check, cZ, clist, cpair

chk = Check("C13", design_ref="DESIGN.md §5 C13")
arim = chk.import_arim()

from ties import tie_C13

t0 = time.time()
n = tie_C13.run(chk, arim, chk.rng, chk.tier == "quick")
print(f"# tie_C13: {n} comparisons in {time.time() - t0:.1f} s; distribution: "
      f"{json.dumps({k: v for k, v in chk.hist.items() if k.startswith('tie_C13')})[:6000]}", flush=True)
chk.finish(evaluations=n, distinct_nontrivial=n, rule="tie only", samples=[])
