"""Development runner of the C07 tie alone (no proofs):
   cd /verif && VERIF_ARIM_SRC=/repo/src PYTHONPATH=/verif/harness /venv/bin/python harness/ties/try_C07.py --tier quick --no-proofs
"""
import time

import numpy as np  # noqa: F401
from common import Check

chk = Check("C07", design_ref="DESIGN.md §5 C07")
arim = chk.import_arim()
import arim.model as model  # noqa: E402,F401
import arim.ray             # noqa: E402,F401

from ties import tie_C07    # noqa: E402

t0 = time.time()
n = tie_C07.run(chk, arim, chk.rng, chk.tier == "quick")
print(f"# tie_C07: {n} comparisons in {time.time() - t0:.1f} s", flush=True)
for k, v in sorted(chk.hist.items()):
    if k.startswith("tie_C07"):
        for kk, vv in sorted(v.items()):
            print(f"#   {kk}: {vv}")
print("#  ", chk.cov.get("tie_C07"))
chk.finish(evaluations=n, distinct_nontrivial=n, rule="tie only", samples=[])
