"""Development runner of the C10 tie (harness/ties/tie_C10.py): the tie alone, no proofs."""
import os
import sys

sys.path.insert(0, os.path.dirname(os.path.dirname(os.path.abspath(__file__))))
from common import Check

chk = Check("C10", design_ref="DESIGN.md §5 C10")
arim = chk.import_arim()
from ties import tie_C10

n = tie_C10.run(chk, arim, chk.rng, chk.tier == "quick")
print(f"# tie_C10: {n} comparisons", flush=True)
if os.environ.get("TIE_HIST"):
    for k, v in sorted(chk.hist.get("tie_C10", {}).items()):
        print(f"#   {v:5d}  {k}")
chk.finish(evaluations=n, distinct_nontrivial=n, rule="tie only", samples=[])
