"""Tie of Model/PathReverse.v (C07, the object-level glue) to the real library, evaluated on every run of the check.

Correspondence (see notes/prover_C07_TIE.md), one ray (i, j) of real arim objects at a time:

  stream  model (Coq, vm_compute on exact rationals NumQ)            arim (real objects, public API)
  ------  ---------------------------------------------------------  ---------------------------------------------------
  iface   pint_init pts kind tr against inc out                      arim.Interface(points, orientations, kind=..., ...)
          pint_reverse x  (+ ikind_reverse)                          Interface.reverse()
  path    ppath_init interfaces materials modes                      arim.Path(interfaces, materials, modes)
          ppath_velocities p                                         Path.velocities
          ppath_reverse p  (+ rg_reverse on p.rays)                  Path.reverse(), seen through RayGeometry.from_path(q)
          ray_geometry_from_path p                                   RayGeometry.from_path(path)
  helper  transmission_call / reflection_call (+ parse_unit)         model.transmission_at_interface / reflection_at_interface
  tr      transmission_reflection_for_path N p rg fc unit            model.transmission_reflection_for_path(path, rg, fc, unit)[i, j]
          reverse_transmission_reflection_for_path N p rg fc unit    model.reverse_transmission_reflection_for_path(...)[i, j]
  bs      gamma_list_idx + vd_loop, beamspread_idx                   model.beamspread_2d_for_path(rg)[i, j]
          rev_gamma_list_idx + vd_loop, reverse_beamspread_idx       model.reverse_beamspread_2d_for_path(rg)[i, j]
  att     att_loop (log_att), material_attenuation_path              model.material_attenuation_for_path(path, rg, f)[i, j]

Outcomes are compared exactly in kind: Ok None / Ok value / Raise EAssert | EValue | EIndex | EAttr | ENotImpl | EHelper
(AssertionError outside the per-interface helpers / ValueError / IndexError / AttributeError / NotImplementedError /
AssertionError or TypeError inside the helpers), and all the discrete content (which Points object, kind, transmission or
reflection, which material, side flags, orders, lengths, modes, which velocities are None) exactly.  The ray-geometry record
of the model (`raygeom`: numinterfaces, fermat velocities, inc_leg_size(1..n), conventional_inc_angle(1..n) — the LAST
interface included, which a path longer than the ray geometry reads — and conventional_out_angle(0..n-1)) is READ from
the real RayGeometry object for the ray (i, j) and moved around by the model; after a reversal it is compared bit for bit
(as exact rationals of the binary64 numbers) with what RayGeometry.from_path(path.reverse()) answers.

Numeric values: NumQ has no libm, so coefficient / beamspread / attenuation values are compared at NORMAL INCIDENCE (every
conventional angle exactly 0.0: real interfaces stacked along an axis, dyadic coordinates, so that leg sizes are exact) with
rational material constants; the model's exact rational is compared inside coqc with the exact rational of arim's binary64
answer within 1e-11 relative for the coefficients (a handful of roundings, amplified
where two nearly equal impedance ratios are subtracted) and 1e-13 for the beamspread; beamspread through b^2 * virtual_distance = 1 (and through
beamspread_idx itself whenever the virtual distance is a rational square), attenuation through log(result) = log_att.
A second, small family uses a stub ray geometry (the accessor protocol only) to reach the branches real RayGeometry objects
cannot reach (numinterfaces < 2, velocity tuples shorter than the path).

Restrictions kept on purpose (the model does not describe these; see the final report of the tie):
  * fluids have transverse_vel=None (the domain of Model/Interface.v); solids have a transverse velocity or None (the
    helpers then raise TypeError where the solid's transverse velocity is read: class EHelper);
  * materials' state_of_matter is consistent with the interface kinds (the state asserts of the helpers are not modelled).
A None velocity (the T mode in a fluid) used by reverse_transmission_reflection_for_path BEFORE the per-interface helper is
entered (TypeError of snell_angles), together with an invalid unit / kind None / missing reflection_against, is generated
and compared (the model raises EHelper first, as the library does).
"""
import fractions
import math
import traceback

import numpy as np

from common import cZ, cQ, clist, cbool, cstr

Fr = fractions.Fraction

# ------------------------------------------------------------------------------------------------
# Coq side
# ------------------------------------------------------------------------------------------------
PRE = """From Coq Require Import String.
From Coq Require Import List ZArith QArith Qabs Bool.
From Arim Require Import Base.Num Base.NumQ Base.ListX Model.Interface Model.Weights Model.Beamspread Model.PathReverse.
Import ListNotations.
Local Open Scope Q_scope.
Definition zq (z : Z) : Q := inject_Z z.
Definition nq (n : nat) : Q := inject_Z (Z.of_nat n).
Definition ecode (e : perr) : Z :=
  match e with EAssert => 10 | EValue => 11 | EIndex => 12 | EAttr => 13 | ENotImpl => 14 | EHelper => 15 end%Z.
Definition kcode (k : option ikind) : Z := match k with None => 0 | Some FluidSolid => 1 | Some SolidFluid => 2 end%Z.
Definition tcode (t : option trkind) : Z := match t with None => 0 | Some Transmission => 1 | Some Reflection => 2 end%Z.
Definition bcode (b : option bool) : Z := match b with None => 0 | Some true => 1 | Some false => 2 end%Z.
Definition mcode (m : wmode) : Z := match m with ModeL => 0 | ModeT => 1 end%Z.
Definition qleq : list Q -> list Q -> bool := list_eqb Qeq_bool.
Definition skip_or (e : list Q) (b : bool) : bool := match e with [] => true | _ => b end.
Definition show_list (l : list Q) : list Q := nq (List.length l) :: l.
Definition show_if (x : pinterface Q) : list Q :=
  [nq (pi_points x); zq (kcode (pi_kind x)); zq (tcode (pi_tr x));
   match pi_against x with None => zq (-1)%Z | Some m => pm_rho m end;
   zq (bcode (pi_inc_side x)); zq (bcode (pi_out_side x))].
Definition show_rg (r : raygeom Q) : list Q :=
  nq (rg_numinterfaces r) :: show_list (rg_vel r) ++ show_list (rg_leg r) ++ show_list (rg_inc r) ++ show_list (rg_out r).
Definition show_path (p : ppath Q) : list Q :=
  nq (List.length (pp_interfaces p)) :: flat_map show_if (pp_interfaces p)
  ++ show_list (map (fun m => pm_rho m) (pp_materials p))
  ++ show_list (map (fun m => zq (mcode m)) (pp_modes p))
  ++ match pp_rays p with None => [zq 0%Z] | Some r => zq 1%Z :: show_rg r end.
Definition show_out {A} (f : A -> list Q) (r : outcome A) : list Q :=
  match r with Ok a => zq 1%Z :: f a | Raise e => [zq (ecode e)] end.
(* velocities: an expected entry -1 stands for Python's None (a fluid's transverse velocity): the model's entry is None *)
Fixpoint vel_ok (m : list (option Q)) (e : list Q) : bool :=
  match m, e with
  | [], [] => true
  | x :: m', y :: e' => match x with None => Qeq_bool y (zq (-1)%Z) | Some v => Qeq_bool v y end && vel_ok m' e'
  | _, _ => false
  end.
Definition tol : Q := 1 # 100000000000.          (* coefficients: 1e-11 relative (differences of nearly equal impedance ratios amplify the roundings) *)
Definition tolb : Q := 1 # 10000000000000.       (* beamspread: sums of positive terms *)
Definition cclose (m a : Q * Q) : bool :=
  let s := Qabs (fst m) + Qabs (snd m) in
  Qle_bool (Qabs (fst m - fst a)) (tol * s) && Qle_bool (Qabs (snd m - snd a)) (tol * s).
Definition C := NumC NumQ.

(* ---- iface stream ---- *)
Definition chk_iface (c : pinterface Q * list Q * list Q) : bool :=
  let '(x, e_init, e_rev) := c in
  skip_or e_init (qleq (show_out show_if (pint_init (pi_points x) (pi_kind x) (pi_tr x) (pi_against x) (pi_inc_side x) (pi_out_side x))) e_init)
  && skip_or e_rev (qleq (show_out show_if (pint_reverse x)) e_rev).

(* ---- path stream ---- *)
Definition chk_path (c : ppath Q * (list Q * list Q * list Q * list Q * list Q * list Q)) : bool :=
  let '(p, (e_init, e_rev, e_vel, e_vel_rev, e_from, e_from_rev)) := c in
  skip_or e_init (qleq (show_out show_path (ppath_init (pp_interfaces p) (pp_materials p) (pp_modes p))) e_init)
  && skip_or e_rev (qleq (show_out show_path (ppath_reverse p)) e_rev)
  && skip_or e_vel (vel_ok (ppath_velocities p) (tl e_vel))
  && skip_or e_vel_rev (match ppath_reverse p with Ok q => vel_ok (ppath_velocities q) (tl e_vel_rev) | Raise _ => false end)
  && skip_or e_from (qleq (show_out show_rg (ray_geometry_from_path p)) e_from)
  && skip_or e_from_rev (qleq (show_out show_rg (obind (ppath_reverse p) ray_geometry_from_path)) e_from_rev).

(* ---- coefficients: code 0 = Ok None, 1 = Ok (Some v), >= 10 = Raise ---- *)
Definition out_c (r : outcome (option (Q * Q))) (code : Z) (v : Q * Q) : bool :=
  match r with
  | Raise e => Z.eqb (ecode e) code
  | Ok None => Z.eqb code 0%Z
  | Ok (Some m) => Z.eqb code 1%Z && cclose m v
  end.
Definition out_r (r : outcome (option Q)) (code : Z) (v : Q * Q) : bool :=
  match r with
  | Raise e => Z.eqb (ecode e) code
  | Ok None => Z.eqb code 0%Z
  | Ok (Some m) => Z.eqb code 1%Z && cclose (m, 0) v
  end.
Definition lift1 {A} (r : outcome A) : outcome (option A) := match r with Ok a => Ok (Some a) | Raise e => Raise e end.

(* helper stream: transmission_call / reflection_call at angle 0 *)
Definition chk_helper (c : bool * option ikind * pmaterial Q * option (pmaterial Q) * wmode * wmode * bool * string * Z * (Q * Q)) : bool :=
  let '(refl, kind, m_inc, m_oth, mi, mo, fc, u, code, v) := c in
  let dummy := mkPMat 1 1 (Some 1) None None in
  if fc then
    out_c (lift1 (if refl then reflection_call C (cre NumQ) kind m_inc m_oth mi mo (cre NumQ 0) (parse_unit u)
                  else transmission_call C (cre NumQ) kind m_inc (match m_oth with Some m => m | None => dummy end) mi mo (cre NumQ 0) (parse_unit u))) code v
  else
    out_r (lift1 (if refl then reflection_call NumQ (fun x : Q => x) kind m_inc m_oth mi mo 0 (parse_unit u)
                  else transmission_call NumQ (fun x : Q => x) kind m_inc (match m_oth with Some m => m | None => dummy end) mi mo 0 (parse_unit u))) code v.

(* tr stream: the two public functions *)
Definition chk_tr (c : ppath Q * raygeom Q * bool * string * bool * Z * (Q * Q)) : bool :=
  let '(p, rg, fc, u, rv, code, v) := c in
  match fc, rv with
  | true, false => out_c (transmission_reflection_for_path NumQ p rg true u) code v
  | true, true => out_c (reverse_transmission_reflection_for_path NumQ p rg true u) code v
  | false, false => out_r (transmission_reflection_for_path NumQ p rg false u) code v
  | false, true => out_r (reverse_transmission_reflection_for_path NumQ p rg false u) code v
  end.

(* bs stream: the virtual distance of the source-indexed loops, and beamspread_idx itself when the square root is rational *)
Definition vd_fwd (rg : raygeom Q) : outcome Q :=
  obind (gamma_list_idx NumQ rg) (fun gl => vd_loop NumQ rg 1 (fun k => k + 1)%nat gl (rg_numinterfaces rg - 1)).
Definition vd_rev (rg : raygeom Q) : outcome Q :=
  let n := (rg_numinterfaces rg - 1)%nat in
  obind (rev_gamma_list_idx NumQ rg) (fun gl => vd_loop NumQ rg n (fun k => n - k)%nat gl n).
Definition chk_bs (c : raygeom Q * bool * Z * Q) : bool :=
  let '(rg, rv, code, b) := c in
  let vd := if rv then vd_rev rg else vd_fwd rg in
  let full := if rv then reverse_beamspread_idx NumQ rg else beamspread_idx NumQ rg in
  match vd with
  | Raise e => Z.eqb (ecode e) code
  | Ok d => Z.eqb code 1%Z && Qle_bool (Qabs (b * b * d - 1)) tolb
  end
  && match full with
     | Raise e => Z.eqb (ecode e) code
     | Ok m => Z.eqb code 1%Z &&
               match vd with
               | Ok d => if Qeq_bool (nsqrt NumQ d) Qbad then true else Qle_bool (Qabs (m - b)) (tolb * Qabs m)
               | Raise _ => false
               end
     end.

(* att stream: log_att of the loop against log of the library's answer; same outcome kind for the whole function *)
Definition chk_att (c : ppath Q * raygeom Q * Q * Z * Q) : bool :=
  let '(p, rg, f, code, la) := c in
  match att_loop NumQ rg f 1 (combine (pp_materials p) (pp_modes p)) 0 with
  | Raise e => Z.eqb (ecode e) code
  | Ok m => Z.eqb code 1%Z && Qle_bool (Qabs (m - la)) ((1 # 1000000000000) * (1 + Qabs m))
  end
  && match material_attenuation_path NumQ p rg f with
     | Raise e => Z.eqb (ecode e) code
     | Ok _ => Z.eqb code 1%Z
     end.
"""

T_IFACE = "pinterface Q * list Q * list Q"
T_PATH = "ppath Q * (list Q * list Q * list Q * list Q * list Q * list Q)"
T_HELPER = "bool * option ikind * pmaterial Q * option (pmaterial Q) * wmode * wmode * bool * string * Z * (Q * Q)"
T_TR = "ppath Q * raygeom Q * bool * string * bool * Z * (Q * Q)"
T_BS = "raygeom Q * bool * Z * Q"
T_ATT = "ppath Q * raygeom Q * Q * Z * Q"

E_ASSERT, E_VALUE, E_INDEX, E_ATTR, E_NOTIMPL, E_HELPER, E_OTHER = 10, 11, 12, 13, 14, 15, 99
ENAME = {0: "Ok None", 1: "Ok value", 10: "AssertionError (EAssert)", 11: "ValueError (EValue)", 12: "IndexError (EIndex)",
         13: "AttributeError (EAttr)", 14: "NotImplementedError (ENotImpl)",
         15: "AssertionError/TypeError inside the per-interface helper (EHelper)", 99: "another exception"}
HELPERS = ("transmission_at_interface", "reflection_at_interface")


def classify(exc):
    """The model's error class of a Python exception (see the note: EHelper = raised by the per-interface helpers after
    their unit and kind dispatch, or the TypeError of a fluid's transverse velocity None)."""
    tb = traceback.extract_tb(exc.__traceback__)
    in_helper = any(fr.name in HELPERS for fr in tb)
    if isinstance(exc, AssertionError):
        return E_HELPER if in_helper else E_ASSERT
    if isinstance(exc, TypeError):
        return E_HELPER
    if isinstance(exc, NotImplementedError):
        return E_NOTIMPL
    if isinstance(exc, ValueError):
        return E_VALUE
    if isinstance(exc, IndexError):
        return E_INDEX
    if isinstance(exc, AttributeError):
        return E_ATTR
    return E_OTHER


def attempt(f):
    """(code, value or None, text)"""
    try:
        with np.errstate(all="ignore"):
            return 1, f(), ""
    except Exception as e:  # noqa: BLE001
        return classify(e), None, f"{type(e).__name__}: {str(e)[:120]}"


# ---- literals ---------------------------------------------------------------------------------
KIND = {None: "None", "fluid_solid": "(Some FluidSolid)", "solid_fluid": "(Some SolidFluid)"}
KCODE = {None: 0, "fluid_solid": 1, "solid_fluid": 2}
TRK = {None: "None", "transmission": "(Some Transmission)", "reflection": "(Some Reflection)"}
TCODE = {None: 0, "transmission": 1, "reflection": 2}
MODE = {"L": "ModeL", "T": "ModeT"}


def cob(b):
    return "None" if b is None else "(Some true)" if b else "(Some false)"


def bcode(b):
    return 0 if b is None else 1 if b else 2


def qlist(xs):
    return clist([cQ(x) for x in xs])


def law_coq(law):
    if law is None:
        return "None"
    if law[0] == "constant":
        return f"(Some (fun _ : Q => {cQ(law[1])}))"
    a = list(law[1]) + [0, 0, 0]
    # np.polynomial.Polynomial(coeffs)(frequency / 1e6)
    return ("(Some (fun f : Q => let x := Qred (f / 1000000) in "
            f"Qred ({cQ(a[0])} + {cQ(a[1])} * x + {cQ(a[2])} * (x * x))))")


class Mat:
    """A material: the description given to the model and the real arim.Material built from the same numbers."""

    def __init__(self, arim, rho, vl, vt, solid, attl=None, attt=None, rng=None):
        self.rho, self.vl, self.vt, self.solid, self.attl, self.attt = rho, vl, vt, solid, attl, attt
        fac = arim.core.material_attenuation_factory

        def law(l_):
            if l_ is None:
                return None
            return fac("constant", float(l_[1])) if l_[0] == "constant" else fac("polynomial", [float(c) for c in l_[1]])
        state = "solid" if solid else "liquid"
        if rng is not None and rng.random() < 0.3:
            state = arim.core.StateMatter[state]
        if rng is not None and rng.random() < 0.5:
            self.obj = arim.Material(float(vl), None if vt is None else float(vt), float(rho), state, law(attl), law(attt))
        else:
            self.obj = arim.Material(longitudinal_vel=float(vl), transverse_vel=None if vt is None else float(vt),
                                     density=float(rho), state_of_matter=state, longitudinal_att=law(attl),
                                     transverse_att=law(attt))

    def coq(self):
        vt = "None" if self.vt is None else f"(Some {cQ(self.vt)})"       # transverse_vel None: pm_vt = None
        return f"(mkPMat {cQ(self.rho)} {cQ(self.vl)} {vt} {law_coq(self.attl)} {law_coq(self.attt)})"

    def desc(self):
        return dict(density=float(self.rho), longitudinal_vel=float(self.vl), transverse_vel=None if self.vt is None else float(self.vt),
                    state="solid" if self.solid else "liquid", longitudinal_att=self.attl, transverse_att=self.attt)


class Ifc:
    """An interface: description (what the model is given) + the real arim.Interface (None when the constructor raised)."""

    def __init__(self, pid, points, ori, kind=None, tr=None, against=None, inc=None, out=None):
        self.pid, self.points, self.ori = pid, points, ori
        self.kind, self.tr, self.against, self.inc, self.out = kind, tr, against, inc, out
        self.obj = None

    def build(self, arim, rng=None):
        kw = {}
        kind, tr = self.kind, self.tr
        if rng is not None and kind is not None and rng.random() < 0.4:
            kind = arim.core.InterfaceKind[kind]
        if rng is not None and tr is not None and rng.random() < 0.4:
            tr = arim.core.TransmissionReflection[tr]
        for name, val in (("kind", kind), ("transmission_reflection", tr),
                          ("reflection_against", None if self.against is None else self.against.obj),
                          ("are_normals_on_inc_rays_side", self.inc), ("are_normals_on_out_rays_side", self.out)):
            if val is not None or rng is None or rng.random() < 0.5:       # a None argument given or left out
                kw[name] = val
        self.obj = arim.Interface(self.points, self.ori, **kw)
        return self.obj

    def coq(self):
        ag = "None" if self.against is None else f"(Some {self.against.coq()})"
        return f"(mkPInt (Z.to_nat {cZ(self.pid)}) {KIND[self.kind]} {TRK[self.tr]} {ag} {cob(self.inc)} {cob(self.out)})"

    def desc(self):
        return dict(points_id=self.pid, kind=self.kind, transmission_reflection=self.tr,
                    reflection_against=None if self.against is None else self.against.desc(),
                    are_normals_on_inc_rays_side=self.inc, are_normals_on_out_rays_side=self.out)


def show_if_py(obj, registry):
    """what show_if prints, read from a real Interface; registry: list of (Points, orientations) by id"""
    pid = -7
    for k, (pts, ori) in enumerate(registry):
        if obj.points is pts and obj.orientations is ori:
            pid = k
    ag = obj.reflection_against
    return [pid, 0 if obj.kind is None else KCODE[obj.kind.name], 0 if obj.transmission_reflection is None else TCODE[obj.transmission_reflection.name],
            -1 if ag is None else Fr(ag.density), bcode(obj.are_normals_on_inc_rays_side), bcode(obj.are_normals_on_out_rays_side)]


def rg_coq(nI, vel, leg, inc, out):
    return f"(mkRG (Z.to_nat {cZ(nI)}) {qlist(vel)} {qlist(leg)} {qlist(inc)} {qlist(out)})"


def show_rg_py(nI, vel, leg, inc, out):
    r = [nI]
    for l_ in (vel, leg, inc, out):
        r += [len(l_)] + [Fr(x) for x in l_]
    return r


def path_coq(ifcs, mats, modes, rays):
    return (f"(mkPPath {clist([x.coq() for x in ifcs])} {clist([m.coq() for m in mats])} "
            f"{clist([MODE[m] for m in modes])} {'None' if rays is None else '(Some ' + rays + ')'})")


# ---- stub ray geometry (accessor protocol only; the note's StubRG) -------------------------------
class _FP:
    pass


class _StubRays:
    def __init__(self, vel):
        self.fermat_path = _FP()
        self.fermat_path.velocities = tuple(vel)


class StubRG:
    """What the model's `raygeom` record is: the answers of RayGeometry for ONE ray, through the accessors the functions of
    arim.model call.  Index 0 -> None (as RayGeometry at the first interface), index >= numinterfaces -> IndexError (as the
    tuple _interface_indices), a missing list entry -> IndexError."""

    def __init__(self, numinterfaces, vel, leg, inc, out):
        self.numinterfaces = numinterfaces
        self.rays = _StubRays([float(v) for v in vel])
        self.leg, self.inc, self.out = leg, inc, out

    def _get(self, lst, k):
        if k == 0:
            return None
        if k >= self.numinterfaces:
            raise IndexError("tuple index out of range")
        if k - 1 >= len(lst):
            raise IndexError("list index out of range")
        return np.array([[float(lst[k - 1])]])

    def inc_leg_size(self, k):
        return self._get(self.leg, k)

    def conventional_inc_angle(self, k):
        return self._get(self.inc, k)


# ---- geometry --------------------------------------------------------------------------------
def dy(rng, lo, hi, den=4):
    """a dyadic number k/den in [lo, hi]"""
    return Fr(int(rng.integers(int(lo * den), int(hi * den) + 1)), den)


def make_rays(arim, rng, pts_list, d, vels):
    """real Rays through the given Points; the ray (d[0], d[-1]) goes through the points d[k]; other rays anywhere"""
    L = len(pts_list)
    n0, mL = len(pts_list[0]), len(pts_list[-1])
    dtype = [np.int64, np.int32, np.intp][int(rng.integers(0, 3))]
    interior = np.zeros((L - 2, n0, mL), dtype=dtype)
    for k in range(1, L - 1):
        interior[k - 1] = rng.integers(0, len(pts_list[k]), (n0, mL))
        interior[k - 1, d[0], d[-1]] = d[k]
    if rng.random() < 0.5:
        interior = np.asfortranarray(interior)
    times = rng.random((n0, mL))
    seq = []
    for k in range(L - 1):
        seq += [pts_list[k], float(vels[k])]
    seq.append(pts_list[-1])
    fp = arim.ray.FermatPath(tuple(seq))
    return arim.ray.Rays(times, interior, fp)


def axis_points(arim, rng, L, single=False):
    """L interfaces stacked along z: the designated point of each is (x0, y0, z_k) with dyadic z_k, consecutive ones
    distinct; default orientations (normal = +z).  Returns zs, points, orientations, designated indices."""
    x0, y0 = dy(rng, -4, 4), dy(rng, -4, 4)
    zs = [dy(rng, -8, 8)]
    for _ in range(L - 1):
        step = dy(rng, 0.25, 8)
        zs.append(zs[-1] + (step if rng.random() < 0.5 else -step))
    pts, oris, d = [], [], []
    for k in range(L):
        npts = 1 if single else int(rng.integers(1, 4))
        dk = int(rng.integers(0, npts))
        coords = rng.integers(-40, 41, (npts, 3)) / 4.0
        coords[dk] = [float(x0), float(y0), float(zs[k])]
        p = arim.Points(coords, name=f"A{k}")
        pts.append(p)
        oris.append(arim.geometry.default_orientations(p))
        d.append(dk)
    return zs, pts, oris, d


def axis_flags(zs, k):
    """side flags that make both conventional angles exactly 0 at interface k of the stack"""
    inc = None if k == 0 else bool(zs[k - 1] > zs[k])
    out = None if k == len(zs) - 1 else bool(zs[k + 1] > zs[k])
    return inc, out


def read_rg(rg, i, j, angles=True):
    """(numinterfaces, vel, leg, inc, out) READ from a RayGeometry-like object for the ray (i, j), as exact rationals of
    the binary64 answers: inc_leg_size(1..n), conventional_inc_angle(1..n) (the last interface included),
    conventional_out_angle(0..n-1) (the first interface included)."""
    nI = rg.numinterfaces
    n = nI - 1
    vel = [Fr(float(v)) for v in rg.rays.fermat_path.velocities]
    leg = [Fr(float(rg.inc_leg_size(k)[i, j])) for k in range(1, n + 1)]
    inc, out = [], []
    if angles:
        inc = [Fr(float(rg.conventional_inc_angle(k)[i, j])) for k in range(1, n + 1)]
        out = [Fr(float(rg.conventional_out_angle(k)[i, j])) for k in range(0, n)]
    return nI, vel, leg, inc, out


def rand_law(rng):
    u = rng.random()
    if u < 0.35:
        return None
    if u < 0.7:
        return ("constant", dy(rng, 0, 3))
    # a0 + a1 x + a2 x^2 with x = frequency / 1e6 <= 8: at most 13 Np per unit length (exp(log_att) stays a normal number)
    deg = int(rng.integers(1, 3))
    return ("polynomial", [dy(rng, 0, 1), dy(rng, 0, 0.5, 8), dy(rng, 0, 0.125, 16)][:deg + 1])


class Pool:
    """materials with pairwise distinct densities (the density identifies the material in the answers)"""

    def __init__(self, arim, rng):
        self.arim, self.rng, self.used = arim, rng, set()

    def rho(self):
        while True:
            r = dy(self.rng, 0.5, 12)
            if r not in self.used:
                self.used.add(r)
                return r

    def fluid(self, att=False):
        return Mat(self.arim, self.rho(), dy(self.rng, 0.5, 4), None, False, rand_law(self.rng) if att else None,
                   rand_law(self.rng) if att and self.rng.random() < 0.3 else None, rng=self.rng)

    def solid(self, att=False):
        vl = dy(self.rng, 1, 8)
        vt = dy(self.rng, 0.5, float(vl))
        return Mat(self.arim, self.rho(), vl, vt, True, rand_law(self.rng) if att else None,
                   rand_law(self.rng) if att else None, rng=self.rng)


UNITS_OK = ["stress", "Stress", "STRESS", "sTrEsS", "displacement", "Displacement", "DISPLACEMENT", "DisPlaceMent"]
UNITS_BAD = ["pressure", "", "stress ", " stress", "stres", "displacements", "stress_", "s", "velocity", "STRESS!", "dis placement"]


def rand_case(rng, word):
    return "".join(c.upper() if rng.random() < 0.5 else c.lower() for c in word)


def rand_unit(rng, bad=False):
    if bad:
        return str(UNITS_BAD[int(rng.integers(0, len(UNITS_BAD)))])
    if rng.random() < 0.3:
        return rand_case(rng, "stress" if rng.random() < 0.5 else "displacement")
    return str(UNITS_OK[int(rng.integers(0, len(UNITS_OK)))])


def mode_arg(arim, rng, m):
    """one of the spellings Path accepts for a mode"""
    k = int(rng.integers(0, 4))
    long_ = {"L": "longitudinal", "T": "transverse"}[m]
    return [m, long_, arim.Mode[m], arim.Mode[long_]][k]


def num_result(r, i, j):
    """(code, complex value) of a returned coefficient array / None"""
    if r is None:
        return 0, 0j
    a = np.asarray(r)
    return 1, complex(a[i, j])


def cval(v):
    v = complex(v)
    if not (math.isfinite(v.real) and math.isfinite(v.imag)):
        return None
    return f"({cQ(v.real)}, {cQ(v.imag)})"


# ------------------------------------------------------------------------------------------------
class Tie:
    def __init__(self, chk, arim, rng, quick):
        self.chk, self.arim, self.rng, self.quick = chk, arim, rng, quick
        import arim.model  # noqa: F401
        import arim.ray    # noqa: F401
        self.model = arim.model
        self.streams = {k: [] for k in ("iface", "path", "helper", "tr", "bs", "att")}   # (literal, replay dict)
        self.skipped = 0

    def add(self, stream, literal, replay, kind):
        self.streams[stream].append((literal, replay))
        self.chk.count(tie_C07=f"{stream}:{kind}")

    # ---- iface stream ---------------------------------------------------------------------------
    def iface_case(self, ifc, mutate=None, kind="ctor"):
        """constructor on the description; then (possibly after setting attributes) reverse()"""
        arim, rng = self.arim, self.rng
        registry = [(ifc.points, ifc.ori)] * (ifc.pid + 1)
        code, obj, text = attempt(lambda: ifc.build(arim, rng))
        e_init = [code] + (show_if_py(obj, registry) if code == 1 else [])
        replay = dict(interface=ifc.desc(), constructor=ENAME[code] + " " + text)
        e_rev = []
        lit_ifc = ifc
        if code == 1:
            if mutate:
                # attributes set after construction: the record the model reverses is the CURRENT state
                lit_ifc = Ifc(ifc.pid, ifc.points, ifc.ori, ifc.kind, ifc.tr, ifc.against, ifc.inc, ifc.out)
                for name, val in mutate.items():
                    setattr(lit_ifc, name, val)
                    attr = {"kind": "kind", "tr": "transmission_reflection", "against": "reflection_against",
                            "inc": "are_normals_on_inc_rays_side", "out": "are_normals_on_out_rays_side"}[name]
                    real = val
                    if name == "kind" and val is not None:
                        real = arim.core.InterfaceKind[val]
                    if name == "tr" and val is not None:
                        real = arim.core.TransmissionReflection[val]
                    if name == "against" and val is not None:
                        real = val.obj
                    setattr(obj, attr, real)
                replay["attributes_set_after_construction"] = lit_ifc.desc()
            c2, robj, t2 = attempt(obj.reverse)
            e_rev = [c2] + (show_if_py(robj, registry) if c2 == 1 else [])
            replay["reverse"] = ENAME[c2] + " " + t2
            replay["reverse_shown"] = [str(x) for x in e_rev]
        replay["constructor_shown"] = [str(x) for x in e_init]
        replay["correspondence"] = "pint_init / pint_reverse vs arim.Interface(...) / Interface.reverse()"
        if mutate:
            lit = f"({lit_ifc.coq()}, [], {qlist(e_rev)})"
        else:
            lit = f"({ifc.coq()}, {qlist(e_init)}, {qlist(e_rev)})"
        self.add("iface", lit, replay, kind)

    def gen_iface(self):
        arim, rng = self.arim, self.rng
        pool = Pool(arim, rng)
        ag = pool.fluid()
        pts = arim.Points(np.array([[0.0, 0.0, 1.0], [1.0, 0.0, 1.0]]), name="W")
        ori = arim.geometry.default_orientations(pts)
        # exhaustive: every (kind, tr, against?, inc, out) through the constructor, then reverse()
        n = 0
        for kind in (None, "fluid_solid", "solid_fluid"):
            for tr in (None, "transmission", "reflection"):
                for against in (None, ag):
                    for inc in (None, True, False):
                        for out in (None, True, False):
                            self.iface_case(Ifc(n % 5, pts, ori, kind, tr, against, inc, out), kind="ctor+reverse")
                            n += 1
        # records only reachable by setting attributes afterwards (reflection without against, against on a transmission ...)
        for kind in (None, "fluid_solid", "solid_fluid"):
            for tr in (None, "transmission", "reflection"):
                for against in (None, ag):
                    inc, out = [(None, True), (True, False), (False, None)][n % 3]
                    base = Ifc(n % 5, pts, ori, "solid_fluid", "reflection", ag, inc, out)
                    self.iface_case(base, mutate=dict(kind=kind, tr=tr, against=against), kind="attributes set, reverse")
                    n += 1

    # ---- path stream ----------------------------------------------------------------------------
    def rand_iface_spec(self, pool, interior):
        """a constructible interface spec (kind, tr, against): mostly what block-in-immersion set-ups use"""
        rng = self.rng
        u = rng.random()
        if not interior:
            if u < 0.7:
                return None, None, None
            if u < 0.8:
                return ["fluid_solid", "solid_fluid"][int(rng.integers(0, 2))], None, None     # reverse() is ambiguous
        else:
            if u < 0.08:
                return None, None, None
            if u < 0.14:
                return ["fluid_solid", "solid_fluid"][int(rng.integers(0, 2))], None, None
        kind = [None, "fluid_solid", "solid_fluid"][int(rng.integers(0, 3))] if rng.random() < 0.25 else \
            ["fluid_solid", "solid_fluid"][int(rng.integers(0, 2))]
        if rng.random() < 0.5:
            return kind, "transmission", None
        return kind, "reflection", (pool.fluid() if rng.random() < 0.7 else pool.solid())

    def gen_path(self):
        arim, rng = self.arim, self.rng
        pool = Pool(arim, rng)
        u = rng.random()
        nI = int(rng.integers(2, 7)) if u < 0.9 else int(rng.integers(0, 2))
        # points anywhere (dyadic), local frames default or rotated
        pts, oris = [], []
        for k in range(nI):
            npts = int(rng.integers(1, 4))
            p = arim.Points(rng.integers(-64, 65, (npts, 3)) / 8.0, name=f"I{k}")
            if rng.random() < 0.5:
                o = arim.geometry.default_orientations(p)
            else:
                o = arim.Points(np.stack([arim.geometry.rotation_matrix_ypr(*rng.uniform(-3, 3, 3)) for _ in range(npts)]))
            pts.append(p)
            oris.append(o)
        # distinct consecutive ray points are not required here (angles are only moved around), but avoid zero legs
        ifcs = []
        allflags = rng.random() < 0.7
        for k in range(nI):
            kind, tr, against = self.rand_iface_spec(pool, 0 < k < nI - 1)
            if allflags:
                inc, out = bool(rng.random() < 0.5), bool(rng.random() < 0.5)
                if k == 0 and rng.random() < 0.6:
                    inc = None
                if k == nI - 1 and rng.random() < 0.6:
                    out = None
            else:
                inc, out = [None, True, False][int(rng.integers(0, 3))], [None, True, False][int(rng.integers(0, 3))]
            x = Ifc(k, pts[k], oris[k], kind, tr, against, inc, out)
            x.build(arim, rng)
            ifcs.append(x)
        registry = list(zip(pts, oris))
        nlegs = max(nI - 1, 0)
        v = rng.random()
        nm = nlegs if v < 0.85 else max(0, nlegs + int(rng.integers(-1, 2)))
        nmo = nlegs if v < 0.85 or v > 0.93 else max(0, nlegs + int(rng.integers(-1, 2)))
        mats = [(pool.solid() if rng.random() < 0.6 else pool.fluid()) for _ in range(nm)]
        if nm >= 2 and rng.random() < 0.3:
            mats[-1] = mats[0]                       # the same Material object on two legs
        modes = [("L" if rng.random() < 0.5 else "T") for _ in range(nmo)]
        ctor_kind = "lengths consistent" if (nI >= 2 and nm == nlegs and nmo == nlegs) else "lengths inconsistent"
        a_if = [x.obj for x in ifcs]
        a_if = tuple(a_if) if rng.random() < 0.5 else a_if
        a_m = [m.obj for m in mats]
        a_m = tuple(a_m) if rng.random() < 0.5 else a_m
        a_mo = [mode_arg(arim, rng, m) for m in modes]
        code, path, text = attempt(lambda: arim.Path(a_if, a_m, a_mo) if rng.random() < 0.5 else arim.Path(a_if, a_m, a_mo, name="p"))
        replay = dict(interfaces=[x.desc() for x in ifcs], materials=[m.desc() for m in mats], modes=modes,
                      constructor=ENAME[code] + " " + text,
                      correspondence="ppath_init / ppath_reverse (rg_reverse) / ppath_velocities / ray_geometry_from_path vs "
                                     "arim.Path(...) / Path.reverse() / Path.velocities / RayGeometry.from_path")

        def show_path_py(p, rays_shown):
            r = [len(p.interfaces)]
            for x in p.interfaces:
                r += show_if_py(x, registry)
            r += [len(p.materials)] + [Fr(m.density) for m in p.materials]
            r += [len(p.modes)] + [{"L": 0, "T": 1}[m.key()] for m in p.modes]
            return r + rays_shown
        e_init = [code] + (show_path_py(path, [0]) if code == 1 else [])
        e_rev = e_vel = e_vel_rev = e_from = e_from_rev = []
        rays_lit = None
        l_ifcs, l_mats, l_modes = ifcs, mats, modes
        if code == 1:
            # the angles RayGeometry can answer: inc flags of the interfaces 1..n, out flags of 0..n-1
            fully = all(x.inc is not None for x in ifcs[1:]) and all(x.out is not None for x in ifcs[:-1])
            i = j = 0
            if rng.random() < 0.8:
                d = [int(rng.integers(0, len(p))) for p in pts]
                # no zero-length leg on the ray under study
                for k in range(1, nI):
                    if np.array_equal(pts[k].coords[d[k]], pts[k - 1].coords[d[k - 1]]):
                        pts[k].coords[d[k]] += 0.125
                i, j = d[0], d[-1]
                vel_known = [m.obj.velocity(mo) for m, mo in zip(mats, modes)]
                if all(x is not None for x in vel_known) and rng.random() < 0.5:
                    vels = vel_known
                else:
                    vels = [dy(rng, 0.5, 9, 8) for _ in range(nI - 1)]
                path.rays = make_rays(arim, rng, pts, d, vels)
                rgf = arim.ray.RayGeometry.from_path(path, use_cache=bool(rng.random() < 0.7)) if rng.random() < 0.7 else \
                    arim.ray.RayGeometry.from_path(path)
                nI_, vel, leg, inc, out = read_rg(rgf, i, j, angles=fully)
                rays_lit = rg_coq(nI_, vel, leg, inc, out)
                e_from = [1] + show_rg_py(nI_, vel, leg, inc, out)
                replay["ray"] = dict(indices=d, velocities=[float(x) for x in vel], legs=[float(x) for x in leg],
                                     inc=[float(x) for x in inc], out=[float(x) for x in out], angles_read=fully)
            else:
                c3, _, t3 = attempt(lambda: arim.ray.RayGeometry.from_path(path))
                e_from = [c3]
                replay["from_path"] = ENAME[c3] + " " + t3
            # attributes replaced after construction (what Path.reverse() then hands to the constructor)
            if rng.random() < 0.08:
                if rng.random() < 0.5 and len(mats) >= 1:
                    l_mats = mats[:-1]
                    path.materials = tuple(m.obj for m in l_mats)
                else:
                    l_modes = modes + ["L"]
                    path.modes = tuple(path.modes) + (arim.Mode.L,)
                e_init = []
                ctor_kind = "attributes replaced after construction"
                replay["after_construction"] = dict(materials=len(l_mats), modes=l_modes)
            e_vel = [1] + [(-1 if x is None else Fr(float(x))) for x in path.velocities]
            c2, q, t2 = attempt(path.reverse)
            replay["reverse"] = ENAME[c2] + " " + t2
            if c2 == 1:
                rays_shown = [0]
                if q.rays is not None:
                    c5, sh, t5 = attempt(lambda: show_rg_py(*read_rg(arim.ray.RayGeometry.from_path(q), j, i, angles=fully)))
                    if c5 != 1:
                        sh = [c5]          # the reversed rays cannot be read: reported as a disagreement
                        replay["reversed_ray_error"] = t5
                    rays_shown = [1] + sh
                    e_from_rev = [1] + sh
                    replay["reversed_ray"] = [str(x) for x in sh]
                else:
                    c4, _, _ = attempt(lambda: arim.ray.RayGeometry.from_path(q))
                    e_from_rev = [c4]
                e_rev = [1] + show_path_py(q, rays_shown)
                e_vel_rev = [1] + [(-1 if x is None else Fr(float(x))) for x in q.velocities]
            else:
                e_rev = [c2]
                e_from_rev = [c2]
            replay["reverse_shown"] = [str(x) for x in e_rev]
        replay["points"] = [p.coords.tolist() for p in pts]
        p_lit = path_coq(l_ifcs, l_mats, l_modes, rays_lit)
        lit = f"({p_lit}, ({qlist(e_init)}, {qlist(e_rev)}, {qlist(e_vel)}, {qlist(e_vel_rev)}, {qlist(e_from)}, {qlist(e_from_rev)}))"
        self.add("path", lit, replay, ctor_kind + ("" if code != 1 else ", rays" if rays_lit else ", no rays"))

    # ---- helper stream --------------------------------------------------------------------------
    def gen_helper(self):
        arim, rng, model = self.arim, self.rng, self.model
        pool = Pool(arim, rng)
        refl = bool(rng.random() < 0.5)
        kind = [None, "fluid_solid", "solid_fluid"][int(rng.integers(0, 3))] if rng.random() < 0.3 else \
            ["fluid_solid", "solid_fluid"][int(rng.integers(0, 2))]
        # materials whose states satisfy the (unmodelled) state_of_matter asserts of the helper for this kind
        if refl:
            m_inc = pool.solid() if kind != "fluid_solid" else pool.fluid()
            m_oth = pool.fluid() if kind != "fluid_solid" else pool.solid()
            if rng.random() < 0.08:
                m_oth = None                       # material_against=None
        else:
            if kind == "fluid_solid":
                m_inc, m_oth = (pool.fluid() if rng.random() < 0.7 else pool.solid()), pool.solid()
            elif kind == "solid_fluid":
                m_inc, m_oth = pool.solid(), (pool.fluid() if rng.random() < 0.7 else pool.solid())
            else:
                m_inc, m_oth = pool.solid(), pool.fluid()
        solid_vt = "given"
        if rng.random() < 0.08 and kind is not None:
            # the material in the solid role without transverse velocity: TypeError inside the helper (class EHelper)
            nov = Mat(arim, pool.rho(), dy(rng, 1, 8), None, True, rng=rng)
            if kind == "solid_fluid":
                m_inc, solid_vt = nov, "None"
            elif m_oth is not None:
                m_oth, solid_vt = nov, "None"
        mi, mo = ("L" if rng.random() < 0.6 else "T"), ("L" if rng.random() < 0.6 else "T")
        fc = bool(rng.random() < 0.6)
        bad = rng.random() < 0.15
        unit = rand_unit(rng, bad)
        ang = np.zeros((int(rng.integers(1, 3)), int(rng.integers(1, 3))))
        ak = None if kind is None else (arim.core.InterfaceKind[kind] if rng.random() < 0.8 else arim.InterfaceKind[kind])
        fn = model.reflection_at_interface if refl else model.transmission_at_interface
        args = [ak, m_inc.obj, None if m_oth is None else m_oth.obj, arim.Mode[mi], arim.Mode[mo], ang]
        s = int(rng.integers(0, 3))
        if s == 0:
            call = lambda: fn(*args, fc, unit)                                  # noqa: E731
        elif s == 1:
            call = lambda: fn(*args, force_complex=fc, unit=unit)               # noqa: E731
        else:
            kw = {}
            if not fc:
                kw["force_complex"] = False
            if unit != "stress":
                kw["unit"] = unit
            call = lambda: fn(*args, **kw)                                      # noqa: E731
        code, r, text = attempt(call)
        v = 0j
        if code == 1:
            v = complex(np.asarray(r).reshape(-1)[0])
        replay = dict(function=fn.__name__, kind=kind, material_inc=m_inc.desc(), material_other=None if m_oth is None else m_oth.desc(),
                      mode_inc=mi, mode_out=mo, force_complex=fc, unit=unit, arim=ENAME[code] + " " + text, arim_value=v,
                      call_spelling=["positional", "keywords", "defaults left out (force_complex=True, unit='stress')"][s],
                      correspondence=("reflection_call" if refl else "transmission_call") + " (parse_unit unit) at angle 0 vs arim.model." + fn.__name__)
        cv = cval(v)
        if cv is None:
            self.skipped += 1
            return
        oth = "None" if m_oth is None else f"(Some {m_oth.coq()})"
        lit = (f"({cbool(refl)}, {KIND[kind]}, {m_inc.coq()}, {oth}, {MODE[mi]}, {MODE[mo]}, {cbool(fc)}, {cstr(unit)}, "
               f"{cZ(code)}, {cv})")
        self.add("helper", lit, replay, ("reflection" if refl else "transmission") + ":" + ENAME[code].split(" (")[0]
                 + ("" if solid_vt == "given" else ":solid without transverse velocity"))

    # ---- stacks along an axis: paths for the tr / att streams, ray geometries for bs ------------------
    def stack(self, L, single=False, att=False, perturb=()):
        """L real interfaces stacked along z with legs in fluids / solids, kinds consistent with the states of matter,
        side flags giving conventional angles exactly 0.  `perturb`: error-branch perturbations to apply."""
        arim, rng = self.arim, self.rng
        pool = Pool(arim, rng)
        zs, pts, oris, d = axis_points(arim, rng, L, single)
        nlegs = L - 1
        # states of the legs
        st = []
        for k in range(nlegs):
            if k == 0:
                st.append(bool(rng.random() < 0.4))
            else:
                st.append(st[-1] if rng.random() < 0.55 else not st[-1])
        shared_f, shared_s = pool.fluid(att), pool.solid(att)
        mats = []
        for k in range(nlegs):
            if rng.random() < 0.3:
                mats.append(shared_s if st[k] else shared_f)
            else:
                mats.append(pool.solid(att) if st[k] else pool.fluid(att))
        if "solid_vt_none" in perturb:
            sl = [k for k in range(nlegs) if st[k]]
            if sl:
                # a solid leg whose material has transverse_vel=None
                mats[sl[int(rng.integers(0, len(sl)))]] = Mat(arim, pool.rho(), dy(rng, 1, 8), None, True, rng=rng)
        # modes
        u = rng.random()
        if u < 0.5:
            modes = ["L"] * nlegs
        elif u < 0.7:
            modes = [("T" if st[k] else "L") for k in range(nlegs)]
        elif u < 0.85:
            modes = [("T" if st[k] and rng.random() < 0.5 else "L") for k in range(nlegs)]
        else:
            modes = [("L" if rng.random() < 0.5 else "T") for _ in range(nlegs)]
        if "mode_T_in_fluid" in perturb:
            fl = [k for k in range(nlegs) if not st[k]]
            if fl:
                modes[fl[int(rng.integers(0, len(fl)))]] = "T"
        ifcs = []
        for k in range(L):
            inc, out = axis_flags(zs, k)
            if k == 0 or k == L - 1:
                kind = tr = against = None
                if rng.random() < 0.15:
                    kind = ["fluid_solid", "solid_fluid"][int(rng.integers(0, 2))]
                if k == 0 and rng.random() < 0.5:
                    inc = [None, True, False][int(rng.integers(0, 3))]
                if k == L - 1 and rng.random() < 0.5:
                    out = [None, True, False][int(rng.integers(0, 3))]
            else:
                a, b = st[k - 1], st[k]          # states before / after (True = solid)
                if a != b:
                    tr, against = "transmission", None
                    kind = "fluid_solid" if b else "solid_fluid"
                elif a and rng.random() < 0.3:
                    # solid to solid: a transmission under either kind satisfies the state asserts
                    tr, against = "transmission", None
                    kind = ["fluid_solid", "solid_fluid"][int(rng.integers(0, 2))]
                else:
                    tr = "reflection"
                    kind = "solid_fluid" if a else "fluid_solid"
                    against = (shared_f if rng.random() < 0.5 else pool.fluid()) if a else (shared_s if rng.random() < 0.5 else pool.solid())
            ifcs.append(Ifc(k, pts[k], oris[k], kind, tr, against, inc, out))
        interior = list(range(1, L - 1))
        post = []
        for pb in perturb:
            if not interior:
                break
            k = interior[int(rng.integers(0, len(interior)))]
            x = ifcs[k]
            if pb == "tr_none":
                x.tr, x.against = None, None
                if rng.random() < 0.5:
                    x.kind = None
            elif pb == "kind_none":
                x.kind = None
            elif pb == "against_none" and x.tr == "reflection":
                post.append(k)
        for x in ifcs:
            x.build(arim, rng)
        for k in post:                      # reflection_against set to None after construction
            ifcs[k].obj.reflection_against = None
            ifcs[k].against = None
        return dict(zs=zs, pts=pts, oris=oris, d=d, st=st, mats=mats, modes=modes, ifcs=ifcs)

    def real_rg(self, S, nR, vels=None):
        """a real RayGeometry over the first nR interfaces of the stack"""
        arim, rng = self.arim, self.rng
        if vels is None:
            vels = [dy(rng, 0.5, 8) for _ in range(nR - 1)]
        rays = make_rays(arim, rng, S["pts"][:nR], S["d"][:nR], vels)
        objs = [x.obj for x in S["ifcs"][:nR]]
        if rng.random() < 0.5:
            return arim.ray.RayGeometry(objs, rays, use_cache=bool(rng.random() < 0.7)), rays
        return arim.ray.RayGeometry(tuple(objs), rays), rays

    def make_path(self, S, nP):
        arim, rng = self.arim, self.rng
        return arim.Path(tuple(x.obj for x in S["ifcs"][:nP]), tuple(m.obj for m in S["mats"][:nP - 1]),
                         tuple(mode_arg(arim, rng, m) for m in S["modes"][:nP - 1]))

    PERTURB = ["tr_none", "kind_none", "against_none", "bad_unit", "mode_T_in_fluid", "short_rg", "short_tuples", "solid_vt_none",
               "mode_T_in_fluid"]

    def none_velocity_first(self, S, nP, nR, l_mats, l_modes, unit_bad):
        """Input class (for the counts only; nothing is excluded): reverse_transmission_reflection_for_path hands a None
        velocity to snell_angles BEFORE the helper's own checks while another error of the same interface is pending."""
        for i in range(1, nP - 1):
            x = S["ifcs"][i]
            if x.tr is None or i >= len(l_modes) or i >= len(l_mats) or i > nR - 1:
                return False                 # the loop stops here anyway (assert / IndexError)
            mode_inc, m_inc, mode_out = l_modes[i], l_mats[i], l_modes[i - 1]
            if x.tr == "transmission":
                if x.kind is None:
                    return False             # interface.kind.reverse() raises before snell_angles
                m_out = l_mats[i - 1]
                uses_none = (mode_out == "T" and m_out.vt is None) or (mode_inc == "T" and m_inc.vt is None)
                pending = unit_bad
            else:
                uses_none = m_inc.vt is None and "T" in (mode_inc, mode_out)
                pending = unit_bad or x.kind is None or x.against is None
            if uses_none:
                return bool(pending)
            if x.kind is None or (x.tr == "reflection" and x.against is None) or unit_bad:
                return False                 # an error is raised at this interface before any later one is visited
        return False

    def gen_tr(self):
        arim, rng, model = self.arim, self.rng, self.model
        u = rng.random()
        perturb = []
        if u > 0.6:
            perturb.append(self.PERTURB[int(rng.integers(0, len(self.PERTURB)))])
            if u > 0.85:
                perturb.append(self.PERTURB[int(rng.integers(0, len(self.PERTURB)))])
        if "mode_T_in_fluid" in perturb and rng.random() < 0.5:
            # the T mode in a fluid TOGETHER with another error: the order of the exceptions of the reverse function
            perturb.append(["bad_unit", "kind_none", "against_none"][int(rng.integers(0, 3))])
        nP = int(rng.choice([2, 3, 3, 3, 4, 4, 4, 5, 5, 6]))
        nR = nP
        v = rng.random()
        if "short_rg" in perturb and nP > 2:
            nR = int(rng.integers(2, nP))
        elif v < 0.1:
            nR = nP + int(rng.integers(1, 3))
        L = max(nP, nR)
        S = self.stack(L, single=(nR != nP), perturb=perturb)
        i, j = S["d"][0], S["d"][nR - 1]
        path = self.make_path(S, nP)
        rg, _ = self.real_rg(S, nR)
        nI_, vel, leg, inc, out = read_rg(rg, i, j, angles=True)
        l_mats, l_modes = S["mats"][:nP - 1], S["modes"][:nP - 1]
        if "short_tuples" in perturb and nP > 2:
            if rng.random() < 0.5:
                l_mats = l_mats[:int(rng.integers(0, nP - 1))]
                path.materials = tuple(m.obj for m in l_mats)
            else:
                l_modes = l_modes[:int(rng.integers(0, nP - 1))]
                path.modes = tuple(arim.Mode[m] for m in l_modes)
        p_lit = path_coq(S["ifcs"][:nP], l_mats, l_modes, None)
        r_lit = rg_coq(nI_, vel, leg, inc, out)
        jj = S["d"][nR - 1]                  # the arrays have the shape of the ray geometry's end interfaces
        for rv in (False, True):
            fc = bool(rng.random() < 0.65)
            bad = "bad_unit" in perturb
            unit = rand_unit(rng, bad)
            fn = model.reverse_transmission_reflection_for_path if rv else model.transmission_reflection_for_path
            kinds = ",".join(sorted(set(perturb))) or "valid"
            if rv and self.none_velocity_first(S, nP, nR, l_mats, l_modes, bad):
                kinds += ":None velocity before a pending error"
            s = int(rng.integers(0, 3))
            if s == 0:
                call = lambda: fn(path, rg, fc, unit)                              # noqa: E731
            elif s == 1:
                call = lambda: fn(path, ray_geometry=rg, unit=unit, force_complex=fc)   # noqa: E731
            else:
                kw = {}
                if not fc:
                    kw["force_complex"] = False
                if unit != "stress":
                    kw["unit"] = unit
                call = lambda: fn(path, rg, **kw)                                  # noqa: E731
            code, r, text = attempt(call)
            val = 0j
            if code == 1:
                code, val = num_result(r, i, jj)
            cv = cval(val)
            if cv is None:
                self.skipped += 1
                continue
            replay = dict(function=fn.__name__, interfaces=[x.desc() for x in S["ifcs"][:nP]], z=[float(z) for z in S["zs"]],
                          materials=[m.desc() for m in l_mats], modes=l_modes, force_complex=fc, unit=unit,
                          ray_geometry=dict(numinterfaces=nI_, velocities=[float(x) for x in vel], legs=[float(x) for x in leg],
                                            conventional_inc_angle=[float(x) for x in inc]),
                          perturbations=perturb, arim=ENAME[code] + " " + text, arim_value=val,
                          call_spelling=["positional", "keywords", "defaults left out (force_complex=True, unit='stress')"][s],
                          correspondence=("reverse_transmission_reflection_for_path" if rv else "transmission_reflection_for_path")
                          + " NumQ p rg force_complex unit vs arim.model." + fn.__name__ + "(path, ray_geometry, force_complex, unit)[i, j]")
            lit = f"({p_lit}, {r_lit}, {cbool(fc)}, {cstr(unit)}, {cbool(rv)}, {cZ(code)}, {cv})"
            self.add("tr", lit, replay, ("reverse:" if rv else "direct:") + kinds + ("" if nR == nP else ":rg longer" if nR > nP else ":rg shorter"))

    # ---- bs stream ------------------------------------------------------------------------------
    def bs_emit(self, rg, i, j, lit, rec, kind):
        model = self.model
        for rv in (False, True):
            fn = model.reverse_beamspread_2d_for_path if rv else model.beamspread_2d_for_path
            code, r, text = attempt(lambda: fn(rg))
            b = 0.0
            if code == 1:
                b = float(np.asarray(r)[i, j])
                if not math.isfinite(b):
                    self.skipped += 1
                    continue
            replay = dict(function=fn.__name__, ray_geometry=rec, arim=ENAME[code] + " " + text, arim_value=b,
                          correspondence=("rev_gamma_list_idx + vd_loop / reverse_beamspread_idx" if rv else "gamma_list_idx + vd_loop / beamspread_idx")
                          + " vs arim.model." + fn.__name__ + "(ray_geometry)[i, j]")
            self.add("bs", f"({lit}, {cbool(rv)}, {cZ(code)}, {cQ(b)})", replay, kind + (":reverse" if rv else ":direct"))

    def gen_bs(self):
        arim, rng = self.arim, self.rng
        nI = int(rng.choice([2, 2, 3, 3, 4, 4, 5, 6]))
        S = self.stack(nI)
        n = nI - 1
        fam = rng.random()
        kind = "real"
        vels = None
        if fam < 0.35:
            # power-of-two velocities and a first (direct) or last (reverse) leg chosen so that the virtual distance is a
            # rational square: beamspread_idx itself is then evaluated by the model
            kind = "real:square virtual distance"
            vels = [Fr(2) ** int(rng.integers(-2, 3)) for _ in range(n)]
            zs = S["zs"]
            legs = [abs(zs[k] - zs[k - 1]) for k in range(1, nI)]
            direct = rng.random() < 0.5
            if direct:
                rest = sum(legs[k] * vels[k] / vels[0] for k in range(1, n))
            else:
                rest = sum(legs[n - k - 1] * vels[n - k - 1] / vels[n - 1] for k in range(1, n))
            s = Fr(1, 2)
            while s * s <= rest:
                s += Fr(1, 2)
            first = s * s - rest
            # move the first (resp. last) interface so that its leg has this length, keeping the side of the neighbour
            if direct:
                sign = 1 if zs[0] > zs[1] else -1
                zs[0] = zs[1] + sign * first
                k0 = 0
            else:
                sign = 1 if zs[n] > zs[n - 1] else -1
                zs[n] = zs[n - 1] + sign * first
                k0 = n
            S["pts"][k0].coords[S["d"][k0], 2] = float(zs[k0])
        rg, _ = self.real_rg(S, nI, vels)
        i, j = S["d"][0], S["d"][-1]
        nI_, vel, leg, inc, out = read_rg(rg, i, j)
        rec = dict(numinterfaces=nI_, velocities=[float(x) for x in vel], legs=[float(x) for x in leg], inc=[float(x) for x in inc],
                   z=[float(z) for z in S["zs"]])
        self.bs_emit(rg, i, j, rg_coq(nI_, vel, leg, inc, out), rec, kind)

    def gen_stub(self):
        """records only a stub can hold: numinterfaces 1, velocity tuples and lists shorter than the loops need
        (numinterfaces 0 is left out: n = -1 in Python, 0 in the model's natural numbers; no RayGeometry has it)"""
        rng = self.rng
        nI = int(rng.choice([1, 1, 2, 2, 3, 3, 4, 5]))
        n = max(nI - 1, 0)

        def ln(k):
            return max(0, k + int(rng.choice([0, 0, 0, -1, -1, 1])))
        vel = [dy(rng, 0.5, 8) for _ in range(ln(n))]
        leg = [dy(rng, 0.25, 8) for _ in range(ln(n))]
        inc = [Fr(0)] * ln(n)
        out = [Fr(0)] * n
        rg = StubRG(nI, vel, leg, inc, out)
        rec = dict(stub=True, numinterfaces=nI, velocities=[float(x) for x in vel], legs=[float(x) for x in leg], inc=[0.0] * len(inc))
        return rg, rg_coq(nI, vel, leg, inc, out), rec

    def gen_bs_stub(self):
        rg, lit, rec = self.gen_stub()
        self.bs_emit(rg, 0, 0, lit, rec, "stub")

    # ---- att stream -----------------------------------------------------------------------------
    FREQS = [500000, 1000000, 2000000, 2500000, 5000000, 8000000]

    def att_emit(self, path, rg, i, j, p_lit, r_lit, rec, kind):
        rng, model = self.rng, self.model
        f = int(self.FREQS[int(rng.integers(0, len(self.FREQS)))])
        fa = [float(f), np.float64(f), np.array(float(f))][int(rng.integers(0, 3))]
        if rng.random() < 0.5:
            call = lambda: model.material_attenuation_for_path(path, rg, fa)                        # noqa: E731
        else:
            call = lambda: model.material_attenuation_for_path(path=path, ray_geometry=rg, frequency=fa)   # noqa: E731
        code, r, text = attempt(call)
        la = 0.0
        a = None
        if code == 1:
            a = float(np.asarray(r)[i, j])
            if not (a > 1e-290 and math.isfinite(a)):
                # exp(log_att) underflowed (subnormal or 0): log(a) no longer determines log_att
                self.chk.count(tie_C07="att:excluded (result underflows)")
                self.skipped += 1
                return
            la = math.log(a)
        replay = dict(rec, frequency=f, frequency_argument=type(fa).__name__, arim=ENAME[code] + " " + text, arim_value=a, log_of_arim_value=la,
                      correspondence="att_loop (log_att) / material_attenuation_path vs log(arim.model.material_attenuation_for_path(path, ray_geometry, frequency)[i, j])")
        self.add("att", f"({p_lit}, {r_lit}, {cQ(f)}, {cZ(code)}, {cQ(la)})", replay, kind + ":" + ENAME[code].split(" (")[0])

    def gen_att(self, stub=False):
        arim, rng = self.arim, self.rng
        nP = int(rng.choice([2, 3, 3, 4, 4, 5, 6]))
        nR = nP
        v = rng.random()
        if v < 0.15 and nP > 2:
            nR = int(rng.integers(2, nP))
        elif v < 0.25:
            nR = nP + int(rng.integers(1, 3))
        L = max(nP, nR)
        S = self.stack(L, single=(nR != nP) or stub, att=True)
        path = self.make_path(S, nP)
        l_mats, l_modes = S["mats"][:nP - 1], S["modes"][:nP - 1]
        kind = "real" if nR == nP else "real:rg longer" if nR > nP else "real:rg shorter"
        if rng.random() < 0.1 and nP > 2:
            kind += ":tuples of different lengths"
            if rng.random() < 0.5:
                l_mats = l_mats[:int(rng.integers(0, nP - 1))]
                path.materials = tuple(m.obj for m in l_mats)
            else:
                l_modes = l_modes[:int(rng.integers(0, nP - 1))]
                path.modes = tuple(arim.Mode[m] for m in l_modes)
        if stub:
            rg, r_lit, rrec = self.gen_stub()
            i = j = 0
            kind = "stub"
            # the stub answers (1, 1) arrays: the path's interfaces have one point (shapes / broadcasting are not modelled)
        else:
            rg, _ = self.real_rg(S, nR)
            i, j = S["d"][0], S["d"][nR - 1]
            nI_, vel, leg, inc, out = read_rg(rg, i, j)
            r_lit = rg_coq(nI_, vel, leg, inc, out)
            rrec = dict(numinterfaces=nI_, legs=[float(x) for x in leg])
            if nR == nP:
                j = S["d"][nP - 1]
        rec = dict(materials=[m.desc() for m in l_mats], modes=l_modes, ray_geometry=rrec, z=[float(z) for z in S["zs"]])
        self.att_emit(path, rg, i, j, path_coq(S["ifcs"][:nP], l_mats, l_modes, None), r_lit, rec, kind)

    # ---- the fixed examples of the note -------------------------------------------------------------
    def note_examples(self):
        arim, rng, model = self.arim, self.rng, self.model
        couplant = Mat(arim, Fr(1), Fr(1), None, False, ("polynomial", [Fr(0), Fr(1, 2)]), None)
        block = Mat(arim, Fr(2), Fr(2), Fr(1), True, ("constant", Fr(3)), ("constant", Fr(5)))
        zs = [Fr(-2), Fr(0), Fr(1), Fr(-3)]
        pts = [arim.Points(np.array([[0.0, 0.0, float(z)]])) for z in zs]
        oris = [arim.geometry.default_orientations(p) for p in pts]

        def mk(specs, axis=False):
            out = []
            for k, (kind, tr, ag, inc, o) in enumerate(specs):
                if axis:
                    # the note's flags are those of a stub geometry; on the real stack the side flags that give the
                    # conventional angle 0 are used (the coefficient functions do not read the flags of the path)
                    inc, o = axis_flags(zs[:len(specs)], k)
                x = Ifc(k, pts[k], oris[k], kind, tr, ag, inc, o)
                x.build(arim)
                out.append(x)
            return out
        base = [(None, None, None, None, True), ("fluid_solid", "transmission", None, True, False),
                ("solid_fluid", "reflection", couplant, False, False), (None, None, None, True, None)]
        # B: Interface.reverse of the four interfaces, and the three ValueErrors
        for x in mk(base):
            self.iface_case(Ifc(x.pid, x.points, x.ori, x.kind, x.tr, x.against, x.inc, x.out), kind="note")
        self.iface_case(Ifc(0, pts[0], oris[0], "fluid_solid", None, None, None, None), kind="note")
        self.iface_case(Ifc(0, pts[0], oris[0], None, "reflection", None, None, None), kind="note")
        self.iface_case(Ifc(0, pts[0], oris[0], None, "transmission", couplant, None, None), kind="note")

        def run_tr(specs, modes, units, fcs=(True,), mutate_against=None, kindname="note", mats=None):
            ifcs = mk(specs, axis=True)
            if mutate_against is not None:
                ifcs[mutate_against].obj.reflection_against = None
                ifcs[mutate_against].against = None
            mats = [couplant, block, block][:len(specs) - 1] if mats is None else mats
            path = arim.Path([x.obj for x in ifcs], [m.obj for m in mats], modes)
            S = dict(pts=[x.points for x in ifcs], d=[0] * len(ifcs), ifcs=ifcs)
            vels = [Fr(1), Fr(2), Fr(2)][:len(specs) - 1]
            rays = make_rays(arim, rng, S["pts"], S["d"], vels)
            rg = arim.ray.RayGeometry([x.obj for x in ifcs], rays)
            nI_, vel, leg, inc, out = read_rg(rg, 0, 0)
            p_lit, r_lit = path_coq(ifcs, mats, modes, None), rg_coq(nI_, vel, leg, inc, out)
            for unit in units:
                for fc in fcs:
                    for rv in (False, True):
                        fn = model.reverse_transmission_reflection_for_path if rv else model.transmission_reflection_for_path
                        code, r, text = attempt(lambda: fn(path, rg, force_complex=fc, unit=unit))
                        val = 0j
                        if code == 1:
                            code, val = num_result(r, 0, 0)
                        replay = dict(function=fn.__name__, note_example=True, interfaces=[x.desc() for x in ifcs], modes=modes, unit=unit,
                                      force_complex=fc, arim=ENAME[code] + " " + text, arim_value=val,
                                      correspondence="(reverse_)transmission_reflection_for_path NumQ p rg fc unit vs arim.model." + fn.__name__)
                        self.add("tr", f"({p_lit}, {r_lit}, {cbool(fc)}, {cstr(unit)}, {cbool(rv)}, {cZ(code)}, {cval(val)})", replay, kindname)
            return path, rg, ifcs, mats, (nI_, vel, leg, inc, out)
        LLL = ["L", "L", "L"]
        # 1, 6, 7, 9, 10, 11: unit spellings on the path pLL, both dtypes
        pLL, rgLL, ifLL, matsLL, recLL = run_tr(base, LLL, ["stress", "Stress", "STRESS", "displacement", "DisPlaceMent", "DISPLACEMENT",
                                                             "pressure", "", "stress "], fcs=(True, False))
        # 12: two interfaces, invalid unit undetected
        run_tr([base[0], base[3]], ["L"], ["pressure", "stress"])
        # 13: interior interface with transmission_reflection None
        run_tr([base[0], (None, None, None, True, False), base[2], base[3]], LLL, ["stress"])
        # 14: transmission with kind None (and with an invalid unit)
        run_tr([base[0], (None, "transmission", None, True, False), base[2], base[3]], LLL, ["stress", "pressure"])
        # 15: reflection whose reflection_against was set to None
        run_tr(base, LLL, ["stress"], mutate_against=2)
        # kind None on a reflection
        run_tr([base[0], base[1], (None, "reflection", couplant, False, False), base[3]], LLL, ["stress"])
        # 16: mode T in the couplant: the reverse function raises the TypeError of snell_angles before the helper's checks
        # (an invalid unit, kind None on the reflection, a missing reflection_against included)
        run_tr(base, ["T", "L", "L"], ["stress", "displacement", "pressure"], fcs=(True, False))
        run_tr([base[0], base[1], (None, "reflection", couplant, False, False), base[3]], ["L", "T", "L"], ["stress", "pressure"])
        run_tr([(None, None, None, None, True), ("fluid_solid", "reflection", block, True, False), (None, None, None, True, None)],
               ["L", "T"], ["stress", "", "displacement"], mats=[couplant, couplant])
        run_tr([(None, None, None, None, True), ("fluid_solid", "reflection", block, True, False), (None, None, None, True, None)],
               ["T", "L"], ["stress", "pressure"], mats=[couplant, couplant], mutate_against=1)
        # 18-19 beamspread, 20 attenuation on pLL / pLT
        nI_, vel, leg, inc, out = recLL
        self.bs_emit(rgLL, 0, 0, rg_coq(nI_, vel, leg, inc, out), dict(note_example=True, legs=[float(x) for x in leg]), "note")
        S3 = dict(pts=[arim.Points(np.array([[0.0, 0.0, z]])) for z in (0.0, 1.0, 3.0, 4.0)], d=[0, 0, 0, 0])
        if3 = []
        for k in range(4):
            x = Ifc(k, S3["pts"][k], arim.geometry.default_orientations(S3["pts"][k]), None, None, None, None if k == 0 else False, None if k == 3 else True)
            x.build(arim)
            if3.append(x)
        rg3 = arim.ray.RayGeometry([x.obj for x in if3], make_rays(arim, rng, S3["pts"], S3["d"], [Fr(1), Fr(2), Fr(4)]))
        r3 = read_rg(rg3, 0, 0)
        self.bs_emit(rg3, 0, 0, rg_coq(*r3), dict(note_example=True, legs=[1.0, 2.0, 1.0], velocities=[1.0, 2.0, 4.0]), "note")
        for modes in (LLL, ["L", "L", "T"]):
            path = arim.Path([x.obj for x in ifLL], [m.obj for m in matsLL], modes)
            self.att_emit(path, rgLL, 0, 0, path_coq(ifLL, matsLL, modes, None), rg_coq(nI_, vel, leg, inc, out),
                          dict(note_example=True, modes=modes), "note")

    # ---- run ---------------------------------------------------------------------------------------
    def safe(self, fn, *a, **kw):
        """An exception escaping a generator means that the library no longer behaves as the tie's set-up expects (e.g. an
        accessor of the real objects raising where it used to answer): reported as a disagreement, the run goes on."""
        try:
            fn(*a, **kw)
        except Exception as e:  # noqa: BLE001
            self.exceptions += 1
            if self.exceptions <= 3:
                self.chk.violation("tie:exception", f"tie C07: {fn.__name__} could not be evaluated on the library: {type(e).__name__}: {e}",
                                   {"traceback": traceback.format_exc()[-3000:],
                                    "correspondence": "Model/PathReverse.v vs arim (set-up of the " + fn.__name__ + " stream)"},
                                   failing_input_found=False)

    def generate(self):
        q = self.quick
        self.exceptions = 0
        self.safe(self.note_examples)
        self.safe(self.gen_iface)
        for _ in range(150 if q else 1500):
            self.safe(self.gen_path)
        for _ in range(200 if q else 2000):
            self.safe(self.gen_helper)
        for _ in range(220 if q else 2200):
            self.safe(self.gen_tr)
        for _ in range(110 if q else 1100):
            self.safe(self.gen_bs)
        for _ in range(50 if q else 500):
            self.safe(self.gen_bs_stub)
        for _ in range(150 if q else 1500):
            self.safe(self.gen_att)
        for _ in range(40 if q else 400):
            self.safe(self.gen_att, stub=True)

    def compare(self):
        chk = self.chk
        total = 0
        for stream, ctype, fn in (("iface", T_IFACE, "chk_iface"), ("path", T_PATH, "chk_path"), ("helper", T_HELPER, "chk_helper"),
                                  ("tr", T_TR, "chk_tr"), ("bs", T_BS, "chk_bs"), ("att", T_ATT, "chk_att")):
            cases = self.streams[stream]
            if not cases:
                continue
            total += len(cases)
            bad = chk.coq_failing(f"tie_C07_{stream}", PRE, ctype, [c[0] for c in cases], fn, shard=150)
            for k in bad[:6]:
                lit, replay = cases[k]
                replay = dict(replay)
                replay["coq_case"] = lit
                replay["stream"] = stream
                try:
                    out = chk.coq_values(f"tie_C07_{stream}_diag", PRE, [self.diag_expr(stream, lit)])
                    replay["model_answer"] = out.strip()[-1500:]
                except Exception as e:  # noqa: BLE001
                    replay["model_answer"] = f"(diagnostic evaluation failed: {e})"[:300]
                chk.violation(f"tie:{stream}", f"tie C07: the model of Model/PathReverse.v and arim disagree ({stream} stream): "
                              + str(replay.get("correspondence", "")), replay, failing_input_found=False)
            if len(bad) > 6:
                chk.violation(f"tie:{stream}:more", f"tie C07: {len(bad)} disagreements in the {stream} stream (first 6 detailed)",
                              {"indices": bad[:50], "correspondence": "Model/PathReverse.v vs arim (" + stream + " stream)"},
                              failing_input_found=False)
        return total

    @staticmethod
    def diag_expr(stream, lit):
        if stream == "iface":
            return f"let '(x, _, _) := {lit} in (show_out show_if (pint_init (pi_points x) (pi_kind x) (pi_tr x) (pi_against x) (pi_inc_side x) (pi_out_side x)), show_out show_if (pint_reverse x))"
        if stream == "path":
            return (f"let '(p, _) := {lit} in (show_out show_path (ppath_init (pp_interfaces p) (pp_materials p) (pp_modes p)), "
                    "show_out show_path (ppath_reverse p), ppath_velocities p, show_out show_rg (ray_geometry_from_path p), "
                    "show_out show_rg (obind (ppath_reverse p) ray_geometry_from_path))")
        if stream == "helper":
            return (f"let '(refl, kind, m_inc, m_oth, mi, mo, fc, u, code, v) := {lit} in "
                    "(if refl then reflection_call C (cre NumQ) kind m_inc m_oth mi mo (cre NumQ 0) (parse_unit u) "
                    "else transmission_call C (cre NumQ) kind m_inc (match m_oth with Some m => m | None => m_inc end) mi mo (cre NumQ 0) (parse_unit u))")
        if stream == "tr":
            return (f"let '(p, rg, fc, u, rv, code, v) := {lit} in "
                    "(if rv then reverse_transmission_reflection_for_path NumQ p rg true u else transmission_reflection_for_path NumQ p rg true u, "
                    "if rv then reverse_transmission_reflection_for_path NumQ p rg false u else transmission_reflection_for_path NumQ p rg false u)")
        if stream == "bs":
            return f"let '(rg, rv, code, b) := {lit} in (if rv then vd_rev rg else vd_fwd rg, if rv then reverse_beamspread_idx NumQ rg else beamspread_idx NumQ rg)"
        return f"let '(p, rg, f, code, la) := {lit} in att_loop NumQ rg f 1 (combine (pp_materials p) (pp_modes p)) 0"


def run(chk, arim, rng, quick):
    """Generate inputs, run the real library and the model of Model/PathReverse.v (inside coqc) on them, report every
    disagreement; returns the number of comparisons made."""
    t = Tie(chk, arim, rng, quick)
    t.generate()
    n = t.compare()
    chk.cov["tie_C07"] = {"comparisons": n, "skipped_non_finite_or_excluded": t.skipped,
                          "per_stream": {k: len(v) for k, v in t.streams.items()}}
    return n
