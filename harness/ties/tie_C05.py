"""Tie of Model/RayGeomGlue.v (C05, object-level glue of RayGeometry) to the real library, evaluated on every run.

Correspondence (see notes/prover_C05_TIE.md):

  scene cases (one pipeline, evaluated stage by stage as the Python statements are executed)
    interface_init pts o inc out                 vs  arim.Interface(points, orientations, are_normals_on_inc_rays_side=..,
                                                     are_normals_on_out_rays_side=..)   (Built / AssertionError / ValueError,
                                                     the FIRST interface that fails), then the two attributes possibly assigned
                                                     afterwards (None / bool / int values)
    rays_init times interior fpoints ord         vs  arim.ray.Rays(times, interior_indices, fermat_path, order)
                                                     (AssertionError / IndexError; table: dtype, shape, flags, flat buffer)
    raygeom_init ifs r / raygeom_from_path p     vs  arim.ray.RayGeometry(interfaces, rays) / RayGeometry.from_path(path)
    rg_column g i j                              vs  ray_geometry.rays.indices[:, i, j]
    o_all N ifs col idx (col = the MODEL's column) vs the 17 query methods of RayGeometry at [i, j], for every idx in -n-1 .. n
                                                     (array entry / None / IndexError / ValueError; numbers bit for bit)
  table cases
    rays_init / rays_reverse r o / rays_to_fortran r  vs  Rays(...), Rays.reverse(order), Rays.to_fortran_order():
                                                     dtype, shape, contiguity flags, indices.ravel(order="K"), every column
                                                     indices[:, i, j] (tbl_column), interior_indices (tbl_interior), the order of the
                                                     Points objects of the Fermat path, times.shape
    make_indices_tbl interior ord d n m          vs  Rays.make_indices(interior_indices, order)   (signed and unsigned dtypes:
                                                     cast / wrap_int, choose_order on the flags of the argument)

The model runs inside coqc (vm_compute) on binary64 primitive floats: + - * / sqrt and the comparisons are IEEE; arccos and
arctan2 (libm: fields of the Num record) are given to each case as finite tables {argument -> value} computed here with
numpy from the plain input data alone (never read from arim), an argument outside the table gives nan (hence a reported
disagreement).  Coordinates are dyadic and frames have small integer entries: the subtraction of points, the change of frame
and the sum of squares are exact whatever the order of the additions in numpy.einsum.  The sign of a zero is not compared
(Model: -0 possible where einsum gives +0; the tables are keyed with ==).

np.take raises IndexError when ANY entry of the (n, m) table is out of range whereas the model answers for ONE ray: an
out-of-range point index is therefore only ever put on the chosen ray (every other ray stays valid).
"""
import re

import numpy as np

from common import cZ, cfloat, clist, cbool

COQ_IMPORTS = """From Coq Require Import ZArith List Bool PrimFloat.
From Arim Require Import Base.Num Base.NumF Model.Vec3 Model.RayGeom Model.RayGeomGlue.
Import ListNotations.
Definition feq (a b : float) : bool := PrimFloat.eqb a b || (negb (PrimFloat.eqb a a) && negb (PrimFloat.eqb b b)).
Fixpoint leqb {A} (e : A -> A -> bool) (l1 l2 : list A) : bool :=
  match l1, l2 with [] , [] => true | x :: a, y :: b => e x y && leqb e a b | _, _ => false end.
Definition zz (a b : Z * Z) : bool := Z.eqb (fst a) (fst b) && Z.eqb (snd a) (snd b).
Fixpoint lookup1 (t : list (float * float)) (x : float) : float :=
  match t with [] => nan | (a, v) :: t' => if PrimFloat.eqb a x then v else lookup1 t' x end.
Fixpoint lookup2 (t : list (float * float * float)) (y x : float) : float :=
  match t with [] => nan | (a, b, v) :: t' => if PrimFloat.eqb a y && PrimFloat.eqb b x then v else lookup2 t' y x end.
Definition NumT (ac : list (float * float)) (at2 : list (float * float * float)) : Num float :=
  {| n0 := zero; n1 := one;
     nadd := add; nsub := sub; nmul := mul; ndiv := div; nopp := opp;
     nsqrt := sqrt;
     nsin := fun _ => nan; ncos := fun _ => nan; nasin := fun _ => nan; nacos := lookup1 ac;
     natan2 := lookup2 at2; nexp := fun _ => nan; nln := fun _ => nan; npi := 0x1.921fb54442d18p+1%float;
     nltb := ltb; nleb := leb; neqb := eqb;
     nofZ := Fof_Z;
     nfloor := nfloor NumF; ntrunc := ntrunc NumF; nround := nround NumF |}.
(* ---- decoding of the literals ---- *)
Definition pyv (c : Z * Z) : pyval :=
  match fst c with 0%Z => PyNone | 1%Z => PyBool (negb (Z.eqb (snd c) 0)) | _ => PyInt (snd c) end.
Definition dt_of (c : Z * Z) : dtype :=
  match fst c with 0%Z => DInt (snd c) | 1%Z => DUInt (snd c) | 2%Z => DFloat | _ => DBool end.
Definition dt_code (d : dtype) : list Z :=
  match d with DInt b => [0%Z; b] | DUInt b => [1%Z; b] | DFloat => [2%Z; 0%Z] | DBool => [3%Z; 0%Z] end.
Definition ord_of (z : Z) : option order := match z with 1%Z => Some OrdC | 2%Z => Some OrdF | _ => None end.
Definition v3_of (l : list float) : vec3 float := (nth 0 l zero, nth 1 l zero, nth 2 l zero).
Definition m3_of (l : list float) : mat3 float := (v3_of l, v3_of (skipn 3 l), v3_of (skipn 6 l)).
Fixpoint mk_pts (k : nat) (l : list (list (list float))) : list (points (T:=float)) :=
  match l with [] => [] | c :: l' => mkPoints k (map v3_of c) :: mk_pts (S k) l' end.
Definition nats (l : list Z) : list nat := map Z.to_nat l.
Definition bz (b : bool) : Z := if b then 1%Z else 0%Z.
Definition kind_of {A} (b : built A) : Z := match b with Built _ => 0%Z | BAssert => 1%Z | BValue => 2%Z | BIndex => 3%Z end.
(* the table as [dtype; shape; flags; buffer]; flags of a fresh array of the chosen order *)
Definition tbl_enc (t : tbl) : list (list Z) :=
  let both := both_contiguous [t_d t; t_n t; t_m t] in
  [ dt_code (t_dtype t); map Z.of_nat [t_d t; t_n t; t_m t];
    match t_order t with OrdC => [1%Z; bz both] | OrdF => [bz both; 1%Z] end; t_buf t ].
(* ---- outcomes of the queries ---- *)
Definition outc : Type := (Z * list float)%type.
Definition same (a b : outc) : bool := Z.eqb (fst a) (fst b) && leqb feq (snd a) (snd b).
Definition encr {A} (f : A -> list float) (r : res A) : outc :=
  match r with Val a => (0%Z, f a) | NoLeg => (1%Z, []) | IndexErr => (2%Z, []) | ValueErr => (3%Z, []) end.
Definition f1 (x : float) : list float := [x].
Definition f3 (v : vec3 float) : list float := let '(x, y, z) := v in [x; y; z].
Definition f9 (m : mat3 float) : list float := let '(a, b, c) := m in f3 a ++ f3 b ++ f3 c.
Definition enc_all (t : res (vec3 float) * res (mat3 float) * res float * res (vec3 float) * res float * res float * res float *
                        res float * res float * res float * res (vec3 float) * res float * res float * res float * res float *
                        res float * res float) : list outc :=
  let '(a1, a2, a3, a4, a5, a6, a7, a8, a9, a10, a11, a12, a13, a14, a15, a16, a17) := t in
  [ encr f3 a1; encr f9 a2; encr f1 a3; encr f3 a4; encr f1 a5; encr f1 a6; encr f1 a7; encr f1 a8; encr f1 a9; encr f1 a10;
    encr f3 a11; encr f1 a12; encr f1 a13; encr f1 a14; encr f1 a15; encr f1 a16; encr f1 a17 ].
(* ---- the scene pipeline ---- *)
(* interface: index of its Points object, (0 one frame | 1 per point, frames), flags at construction, flags assigned afterwards
   (tag 9: not assigned) *)
Definition ifaceL : Type := (Z * (Z * list (list float)) * ((Z * Z) * (Z * Z)) * ((Z * Z) * (Z * Z)))%type.
Definition build_if (ps : list (points (T:=float))) (x : ifaceL) : built (interface (T:=float)) :=
  let '(pk, (otag, fr), (ci, co), (qi, qo)) := x in
  match nth_error ps (Z.to_nat pk) with
  | None => BIndex
  | Some p =>
      match interface_init p (if Z.eqb otag 0 then OneFrame (m3_of (nth 0 fr [])) else PerPoint (map m3_of fr)) (pyv ci) (pyv co) with
      | Built f => Built (mkInterface (i_points f) (i_orient f) (if Z.eqb (fst qi) 9 then i_inc f else pyv qi)
                                      (if Z.eqb (fst qo) 9 then i_out f else pyv qo))
      | e => e
      end
  end.
Fixpoint build_ifs (ps : list (points (T:=float))) (l : list ifaceL) (k : Z) : (list (interface (T:=float))) + (Z * Z) :=
  match l with
  | [] => inl []
  | x :: l' => match build_if ps x with
               | Built f => match build_ifs ps l' (k + 1)%Z with inl r => inl (f :: r) | inr e => inr e end
               | e => inr ((10 + k)%Z, kind_of e)
               end
  end.
Definition timesL : Type := (list Z * (Z * Z))%type.
Definition interiorL : Type := (list Z * (Z * Z) * (bool * bool) * list (list (list Z)))%type.
Definition mk_times (t : timesL) : times_arr := mkTimes (nats (fst t)) (dt_of (snd t)).
Definition mk_interior (a : interiorL) : ndarray3 :=
  let '(sh, dc, (cf, ff), data) := a in mkArr (nats sh) (dt_of dc) cf ff data.
Fixpoint pick_pts (ps : list (points (T:=float))) (ids : list Z) : list (points (T:=float)) :=
  match ids with
  | [] => []
  | k :: r => match nth_error ps (Z.to_nat k) with Some p => p :: pick_pts ps r | None => pick_pts ps r end
  end.
(* input: point sets, interfaces, times, interior, ids of the Fermat path's point sets, order (0 None 1 C 2 F),
   mode (0 RayGeometry(...), 1 from_path, 2 from_path with path.rays None), (i, j), interface indices, libm tables *)
Definition sceneT : Type := (list (list (list float)) * list ifaceL * timesL * interiorL * list Z * Z * Z * (Z * Z) * list Z *
                             (list (float * float) * list (float * float * float)))%type.
Definition ansT : Type := ((Z * Z) * list (list Z) * list Z * list (list outc))%type.
Definition answer (s : sceneT) : ansT :=
  let '(pl, il, tm, ia, fids, oz, mode, (i, j), idxs, (ac, at2)) := s in
  let N := NumT ac at2 in
  let ps := mk_pts 0 pl in
  match build_ifs ps il 0%Z with
  | inr e => (e, [], [], [])
  | inl ifs =>
      match rays_init (mk_times tm) (mk_interior ia) (pick_pts ps fids) (ord_of oz) with
      | Built r =>
          let g := if Z.eqb mode 0 then raygeom_init ifs r
                   else raygeom_from_path (mkPath ifs (if Z.eqb mode 2 then None else Some r)) in
          match g with
          | Built g =>
              match rg_column g (Z.to_nat i) (Z.to_nat j) with
              | Some col => ((0%Z, 0%Z), tbl_enc (r_indices r), col,
                             map (fun idx => enc_all (o_all N (g_interfaces g) col idx)) idxs)
              | None => ((4%Z, 0%Z), tbl_enc (r_indices r), [], [])
              end
          | e => ((3%Z, kind_of e), tbl_enc (r_indices r), [], [])
          end
      | e => ((2%Z, kind_of e), [], [], [])
      end
  end.
Definition caseT : Type := (sceneT * ansT)%type.
Definition parts (a b : ansT) : list bool :=
  let '(s1, t1, c1, r1) := a in let '(s2, t2, c2, r2) := b in
  [ zz s1 s2; leqb (leqb Z.eqb) t1 t2; leqb Z.eqb c1 c2; leqb (leqb same) r1 r2 ].
Definition check_case (c : caseT) : bool := forallb (fun b => b) (parts (answer (fst c)) (snd c)).
Fixpoint mask_of (l : list bool) (w : Z) : Z := match l with [] => 0%Z | b :: r => ((if b then 0 else w) + mask_of r (2 * w))%Z end.
Definition mask (c : caseT) : Z := mask_of (parts (answer (fst c)) (snd c)) 1%Z.
(* position (idx number, method number) of the first disagreeing query *)
Fixpoint first_diff (a b : list (list outc)) (k : Z) : list Z :=
  match a, b with
  | x :: a', y :: b' =>
      if leqb same x y then first_diff a' b' (k + 1)%Z
      else [k; (fix go (u v : list outc) (q : Z) : Z :=
                  match u, v with p :: u', w :: v' => if same p w then go u' v' (q + 1)%Z else q | _, _ => q end) x y 0%Z]
  | _, _ => []
  end.
Definition where_ (c : caseT) : list Z := first_diff (snd (answer (fst c))) (snd (snd c)) 0%Z.
(* ---- table cases ---- *)
(* op 0 Rays(...), 1 reverse(order C), 2 reverse(order F), 3 to_fortran_order, 4 make_indices(interior, order) *)
Definition tcaseT : Type := (Z * timesL * interiorL * list Z * Z * (Z * list (list Z) * list Z * list Z * list (list Z) * list Z))%type.
Definition dummy_pts (k : nat) (cnt : Z) : points (T:=float) := mkPoints k (repeat (zero, zero, zero) (Z.to_nat cnt)).
Fixpoint mk_dummies (k : nat) (l : list Z) : list (points (T:=float)) :=
  match l with [] => [] | c :: l' => dummy_pts k c :: mk_dummies (S k) l' end.
Definition all_columns (t : tbl) : list (list Z) :=
  flat_map (fun i => map (fun j => match tbl_column t i j with Some c => c | None => [(-99)%Z] end) (seq 0 (t_m t))) (seq 0 (t_n t)).
Definition tanswer (c : tcaseT) : Z * list (list Z) * list Z * list Z * list (list Z) * list Z :=
  let '(op, tm, ia, cnts, oz, _) := c in
  let enc (b : built (rays (T:=float))) :=
    match b with
    | Built r => (0%Z, tbl_enc (r_indices r), map (fun p => Z.of_nat (p_id p)) (r_fpoints r),
                  map Z.of_nat (tm_shape (r_times r)), all_columns (r_indices r), concat (concat (tbl_interior (r_indices r))))
    | e => (kind_of e, [], [], [], [], [])
    end in
  let base := rays_init (mk_times tm) (mk_interior ia) (mk_dummies 0 cnts) (ord_of oz) in
  match op with
  | 4%Z => let a := mk_interior ia in
           let t := make_indices_tbl a (ord_of oz) (nth 0 (a_shape a) 0%nat) (nth 1 (a_shape a) 0%nat) (nth 2 (a_shape a) 0%nat) in
           (0%Z, tbl_enc t, [], [], all_columns t, concat (concat (tbl_interior t)))
  | 0%Z => enc base
  | _ => match base with
         | Built r => enc (match op with 1%Z => rays_reverse r OrdC | 2%Z => rays_reverse r OrdF | _ => rays_to_fortran r end)
         | e => (9%Z, [], [], [], [], [])
         end
  end.
Definition tparts (c : tcaseT) : list bool :=
  let '(k1, t1, f1, s1, c1, i1) := tanswer c in
  let '(k2, t2, f2, s2, c2, i2) := snd c in
  [ Z.eqb k1 k2; leqb (leqb Z.eqb) t1 t2; leqb Z.eqb f1 f2; leqb Z.eqb s1 s2; leqb (leqb Z.eqb) c1 c2; leqb Z.eqb i1 i2 ].
Definition check_tcase (c : tcaseT) : bool := forallb (fun b => b) (tparts c).
Definition tmask (c : tcaseT) : Z := mask_of (tparts c) 1%Z.
"""

METHODS = ["leg_points", "orientations_of_legs_points", "inc_leg_size", "inc_leg_cartesian", "inc_leg_radius",
           "inc_leg_polar", "inc_leg_azimuth", "inc_angle", "signed_inc_angle", "conventional_inc_angle",
           "out_leg_cartesian", "out_leg_radius", "out_leg_polar", "out_leg_azimuth", "out_angle",
           "signed_out_angle", "conventional_out_angle"]
KIND = {0: "value", 1: "None", 2: "IndexError", 3: "ValueError", 9: "other exception"}
BK = {0: "built", 1: "AssertionError", 2: "ValueError", 3: "IndexError", 9: "other exception"}
PARTS = ["constructor outcome (stage, kind)", "index table (dtype, shape, flags, buffer)", "column rays.indices[:, i, j]",
         "answers of the 17 methods"]
TPARTS = ["outcome", "index table (dtype, shape, flags, buffer)", "order of the Points objects", "times.shape",
          "columns indices[:, i, j]", "interior_indices"]
TOPS = ["Rays.__init__", "Rays.reverse(order=C)", "Rays.reverse(order=F)", "Rays.to_fortran_order", "Rays.make_indices"]

NPDT = {"int8": (np.int8, (0, 8)), "int16": (np.int16, (0, 16)), "int32": (np.int32, (0, 32)), "int64": (np.int64, (0, 64)),
        "uint8": (np.uint8, (1, 8)), "uint16": (np.uint16, (1, 16)), "uint32": (np.uint32, (1, 32)), "uint64": (np.uint64, (1, 64)),
        "float64": (np.float64, (2, 0)), "float32": (np.float32, (2, 0)), "bool": (np.bool_, (3, 0))}


def _zz(p):
    return f"({cZ(p[0])}, {cZ(p[1])})"


def _pyv_code(v):
    """Python value of a flag -> (tag, payload): None / bool / int"""
    if v is None:
        return (0, 0)
    if isinstance(v, bool):
        return (1, int(v))
    return (2, int(v))


KEEP = "keep"


def _post_code(v):
    return (9, 0) if v is KEEP else _pyv_code(v)


def _layout(a, how):
    """the same content with another memory layout: C, F, or neither (a strided view of a larger array)"""
    if how == "F":
        return np.asfortranarray(a)
    if how == "strided" and a.ndim >= 2:
        big = np.zeros(a.shape[:-1] + (2 * a.shape[-1],), dtype=a.dtype)
        v = big[..., ::2]
        v[...] = a
        return v
    return np.ascontiguousarray(a)


# ---------------------------------------------------------------------------------------------------------------
# scenes
# ---------------------------------------------------------------------------------------------------------------
class Scene:
    """plain data of one scene; everything arim receives is built from it in `execute`"""

    def __init__(self, family):
        self.family = family
        self.pts = []            # list of (p, 3) float arrays: the Points objects
        self.ifs = []            # dicts: pk, one (bool), frames (k, 3, 3), ci, co (construction), qi, qo (assigned later or KEEP)
        self.times_shape, self.times_dtype, self.times_layout = (1, 1), "float64", "C"
        self.interior = np.zeros((0, 1, 1), dtype=np.int64)      # any ndim
        self.int_dtype, self.int_layout = "int64", "C"
        self.fids = []           # ids of the point sets of the Fermat path
        self.duck_path = False   # hand-made fermat_path object (for the empty tuple of points)
        self.order = None        # None, "C", "F", "c", "f"
        self.mode = 0
        self.ij = (0, 0)
        self.use_cache = True
        self.idx_np = False

    @property
    def nif(self):
        return len(self.ifs)

    def frames_full(self, k):
        f = self.ifs[k]
        fr = np.asarray(f["frames"], float).reshape(-1, 3, 3)
        if f["one"]:
            return np.repeat(fr[:1], len(self.pts[f["pk"]]), axis=0)
        return fr

    def own_table(self):
        """the index table from the plain data (independent of arim): first / last rows cast to the dtype"""
        it = np.asarray(self.interior)
        d, n, m = it.shape
        dt = NPDT[self.int_dtype][0]
        full = np.zeros((d + 2, n, m), dtype=np.int64)
        full[0] = np.arange(n).astype(dt)[:, None]
        full[-1] = np.arange(m).astype(dt)[None, :]
        full[1:-1] = it
        return full

    def tables(self):
        """arccos / arctan2 entries of the chosen ray, computed on whole (n, m) arrays with the memory layouts of the library"""
        ac, at2 = [], []
        try:
            full = self.own_table()
        except Exception:  # noqa: BLE001
            return ac, at2
        if full.shape[0] != self.nif:
            return ac, at2
        i, j = self.ij
        with np.errstate(all="ignore"):
            for a in range(self.nif):
                for other in (a - 1, a + 1):
                    if not 0 <= other < self.nif:
                        continue
                    try:
                        O = self.pts[self.ifs[other]["pk"]][full[other]]
                        H = self.pts[self.ifs[a]["pk"]][full[a]]
                        B = self.frames_full(a)[full[a]]
                    except IndexError:
                        # numpy raises for the whole table; only the chosen ray can be out of range: no libm call at all
                        continue
                    loc = np.einsum("...ji,...i->...j", B, O - H)
                    x, y, z = loc[..., 0], loc[..., 1], loc[..., 2]
                    r = np.zeros_like(x)
                    r += x * x
                    r += y * y
                    r += z * z
                    r = np.sqrt(r, out=r)
                    q = z / r
                    th = np.arccos(q)
                    ph = np.arctan2(y, x)
                    ac.append((float(q[i, j]), float(th[i, j])))
                    at2.append((float(y[i, j]), float(x[i, j]), float(ph[i, j])))
        return ac, at2

    def describe(self):
        return dict(family=self.family, point_sets=[p.tolist() for p in self.pts],
                    interfaces=[dict(points_object=f["pk"], one_frame_for_all_points=f["one"], frames=np.asarray(f["frames"]).tolist(),
                                     are_normals_on_inc_rays_side=repr(f["ci"]), are_normals_on_out_rays_side=repr(f["co"]),
                                     inc_assigned_afterwards=repr(f["qi"]), out_assigned_afterwards=repr(f["qo"])) for f in self.ifs],
                    times=dict(shape=list(self.times_shape), dtype=self.times_dtype, layout=self.times_layout),
                    interior_indices=dict(shape=list(np.asarray(self.interior).shape), dtype=self.int_dtype, layout=self.int_layout,
                                          data=np.asarray(self.interior).tolist()),
                    fermat_path_point_sets=list(self.fids), hand_made_fermat_path=self.duck_path, order=self.order,
                    constructor=["RayGeometry(interfaces, rays)", "RayGeometry.from_path(path)",
                                 "RayGeometry.from_path(path) with path.rays None"][self.mode],
                    ray=list(self.ij), use_cache=self.use_cache)


def _signed_perm(rng):
    p = rng.permutation(3)
    M = np.zeros((3, 3))
    for r in range(3):
        M[r, p[r]] = float(rng.choice([-1.0, 1.0]))
    return M


def _frame(rng):
    u = rng.random()
    if u < 0.6:
        return _signed_perm(rng)
    if u < 0.7:
        return np.eye(3)
    return rng.integers(-2, 3, size=(3, 3)).astype(float)


def _flag(rng, p_none=0.12):
    return None if rng.random() < p_none else bool(rng.integers(0, 2))


def gen_valid(rng, family="valid", nif=None, npts=None):
    sc = Scene(family)
    nif = int(nif if nif is not None else rng.choice([2, 3, 3, 3, 4, 4, 5]))
    npts = list(npts) if npts is not None else [int(rng.integers(1, 5)) for _ in range(nif)]
    scale = float(rng.choice([1, 1, 2, 4, 8]))
    # axis-heavy coordinates: many legs along a local axis (azimuth on the seam, polar 0 / pi / pi/2), repeated points (zero legs)
    spread = int(rng.choice([1, 2, 6, 30]))
    for k in range(nif):
        sc.pts.append(rng.integers(-spread, spread + 1, size=(npts[k], 3)).astype(float) / scale)
        one = bool(rng.random() < 0.4)
        frames = np.stack([_frame(rng) for _ in range(1 if one else npts[k])])
        sc.ifs.append(dict(pk=k, one=one, frames=frames, ci=_flag(rng, 0.1 if 0 < k else 0.5), co=_flag(rng, 0.1 if k < nif - 1 else 0.5),
                           qi=KEEP, qo=KEEP))
    if nif >= 4 and rng.random() < 0.25:
        # the same Points object at two interior interfaces (a wall met twice)
        a, b = sorted(rng.choice(np.arange(1, nif - 1), size=2, replace=False))
        sc.ifs[b]["pk"] = sc.ifs[a]["pk"]
        npts[b] = npts[a]
        if not sc.ifs[b]["one"]:
            sc.ifs[b]["frames"] = np.stack([_frame(rng) for _ in range(npts[b])])
        sc.family += ":same-points-twice"
    for f in sc.ifs:
        if rng.random() < 0.3:
            f["qi"] = [None, True, False, 0, 1, 2, -1][int(rng.integers(0, 7))]
        if rng.random() < 0.3:
            f["qo"] = [None, True, False, 0, 1, 2, -1][int(rng.integers(0, 7))]
    n, m = npts[0], npts[-1]
    sc.int_dtype = str(rng.choice(["int8", "int16", "int32", "int64", "int64"]))
    it = np.zeros((nif - 2, n, m), dtype=np.int64)
    for k in range(1, nif - 1):
        it[k - 1] = rng.integers(0, npts[k], size=(n, m))
        neg = rng.random((n, m)) < 0.35
        it[k - 1][neg] -= npts[k]
    sc.interior = it
    sc.int_layout = str(rng.choice(["C", "C", "F", "strided"]))
    sc.times_shape, sc.times_dtype = (n, m), str(rng.choice(["float64", "float64", "float32"]))
    sc.times_layout = str(rng.choice(["C", "F"]))
    sc.fids = [f["pk"] for f in sc.ifs]
    sc.order = [None, None, "C", "F", "c", "f"][int(rng.integers(0, 6))]
    sc.mode = int(rng.choice([0, 0, 1]))
    sc.ij = (int(rng.integers(0, n)), int(rng.integers(0, m)))
    sc.use_cache = bool(rng.integers(0, 2))
    sc.idx_np = bool(rng.random() < 0.3)
    return sc


def gen_narrow(rng):
    """int8 table with more than 128 first (or last) points: the first / last row wraps silently (note, section 4)"""
    nif = int(rng.choice([2, 3]))
    big = int(rng.choice([129, 130, 150, 200, 257, 300]))
    first = bool(rng.integers(0, 2))
    npts = [int(rng.integers(1, 3)) for _ in range(nif)]
    npts[0 if first else -1] = big
    sc = gen_valid(rng, "narrow-dtype-wrap", nif=nif, npts=npts)
    sc.int_dtype = "int8"
    sc.ifs[0 if first else -1]["one"] = True
    sc.ifs[0 if first else -1]["frames"] = sc.ifs[0 if first else -1]["frames"][:1]
    hi = int(rng.integers(128, big))
    sc.ij = (hi, sc.ij[1]) if first else (sc.ij[0], hi)
    return sc


def apply_fault(rng, sc, fault):
    """one fault on a valid scene; returns False when the fault does not apply"""
    nif = sc.nif
    i, j = sc.ij
    it = np.asarray(sc.interior)
    if fault == "iface-flag-int":
        f = sc.ifs[int(rng.integers(0, nif))]
        f[str(rng.choice(["ci", "co"]))] = int(rng.choice([0, 1, 2]))
    elif fault == "iface-frames-count":
        k = int(rng.integers(0, nif))
        f = sc.ifs[k]
        cnt = len(sc.pts[f["pk"]]) + int(rng.choice([-1, 1, 2]))
        if cnt < 1:
            cnt = len(sc.pts[f["pk"]]) + 1
        f["one"], f["frames"] = False, np.stack([_frame(rng) for _ in range(cnt)])
    elif fault == "rays-times-ndim":
        sc.times_shape = (sc.times_shape[0] * sc.times_shape[1],) if rng.integers(0, 2) else (1,) + tuple(sc.times_shape)
    elif fault == "rays-interior-ndim":
        sc.interior = it.reshape((-1, it.shape[2])) if rng.integers(0, 2) else it.reshape((1,) + it.shape)
    elif fault == "rays-shape":
        u = int(rng.integers(0, 4))
        if u == 0:
            sc.times_shape = (sc.times_shape[0], sc.times_shape[1] + 1)
        elif u == 1:
            sc.times_shape = (sc.times_shape[1] + 1, sc.times_shape[0])
        elif u == 2:
            sc.interior = np.concatenate([it, it[:, :1, :]], axis=1)
            sc.times_shape = sc.interior.shape[1:] if rng.integers(0, 2) else sc.times_shape
        else:
            sc.interior = np.concatenate([it, it[:, :, :1]], axis=2)
            sc.times_shape = sc.interior.shape[1:]
    elif fault == "rays-numsets":
        if nif >= 3 and rng.integers(0, 2):
            sc.interior = it[1:] if rng.integers(0, 2) else np.concatenate([it, it[:1]], axis=0)
        else:
            sc.interior = np.concatenate([it, np.zeros((1,) + it.shape[1:], dtype=it.dtype)], axis=0)
    elif fault == "rays-interior-dtype":
        sc.int_dtype = str(rng.choice(["uint8", "uint16", "uint32", "uint64", "float64", "bool"]))
        sc.interior = np.where(it < 0, 0, it)
    elif fault == "rays-times-dtype":
        sc.times_dtype = str(rng.choice(["int64", "int32", "bool", "uint8"]))
    elif fault == "rays-empty-path":
        sc.duck_path, sc.fids = True, []
    elif fault == "raygeom-identity":
        # an interface built on a COPY of the Points object of the Fermat path (equal coordinates, another object)
        k = int(rng.integers(0, nif))
        sc.pts.append(sc.pts[sc.ifs[k]["pk"]].copy())
        sc.ifs[k]["pk"] = len(sc.pts) - 1
        sc.mode = int(rng.choice([0, 1]))
    elif fault == "raygeom-length":
        if nif < 3:
            return False
        sc.mode = 0
        if rng.integers(0, 2):
            sc.ifs = sc.ifs[:-1] if rng.integers(0, 2) else sc.ifs[1:]
        else:
            sc.ifs = sc.ifs + [dict(sc.ifs[-1])]
    elif fault == "raygeom-permuted":
        if nif < 3 or len(sc.pts[sc.ifs[1]["pk"]]) != len(sc.pts[sc.ifs[-1]["pk"]]) or sc.ifs[1]["pk"] == sc.ifs[-1]["pk"]:
            return False
        sc.mode = int(rng.choice([0, 1]))
        sc.ifs[1], sc.ifs[-1] = sc.ifs[-1], sc.ifs[1]
    elif fault == "from-path-none":
        sc.mode = 2
    elif fault == "point-index":
        if nif < 3:
            return False
        k = int(rng.integers(1, nif - 1))
        p = len(sc.pts[sc.ifs[k]["pk"]])
        lim = 127 if sc.int_dtype == "int8" else 10 ** 6
        v = p + int(rng.integers(0, 3)) if rng.integers(0, 2) else -p - 1 - int(rng.integers(0, 3))
        it[k - 1, i, j] = max(-lim, min(lim, v))
    elif fault == "flag-none":
        k = int(rng.integers(0, nif))
        w = str(rng.choice(["i", "o"]))
        if rng.integers(0, 2):
            sc.ifs[k]["c" + w], sc.ifs[k]["q" + w] = None, KEEP
        else:
            sc.ifs[k]["q" + w] = None
    elif fault == "flag-none-all":
        for f in sc.ifs:
            f["ci"], f["co"], f["qi"], f["qo"] = None, None, KEEP, KEEP
    else:
        raise AssertionError(fault)
    return True


def gen_faulty(rng, faults):
    for _ in range(50):
        sc = gen_valid(rng, "fault:" + faults, nif=int(rng.choice([3, 3, 4, 5])) if rng.random() < 0.8 else None)
        if all(apply_fault(rng, sc, f) for f in faults.split("+")):
            return sc
    raise AssertionError(faults)


def fixed_scenes():
    """the scene of notes/prover_C05_TIE.md (E1, E2, E4 - E9 as far as they are queries of one ray)"""
    I3, J3 = np.eye(3), np.diag([1.0, -1.0, -1.0])
    out = []

    def base(name, interior=((0, -2), (1, -1)), ij=(0, 0), order=None, flags1=(KEEP, KEEP), c1=(True, False), dtype="int16", mode=0):
        sc = Scene("fixed:" + name)
        sc.pts = [np.array([[0., 0, 0], [3, 0, 0]]), np.array([[0., 0, 4], [3, 0, 4], [6, 0, 4]]), np.array([[0., 0, 8], [3, 0, 8]])]
        sc.ifs = [dict(pk=0, one=True, frames=I3[None], ci=None, co=True, qi=KEEP, qo=KEEP),
                  dict(pk=1, one=False, frames=np.array([I3, J3, I3]), ci=c1[0], co=c1[1], qi=flags1[0], qo=flags1[1]),
                  dict(pk=2, one=True, frames=I3[None], ci=False, co=None, qi=KEEP, qo=KEEP)]
        sc.interior, sc.int_dtype = np.array([interior], dtype=np.int64), dtype
        sc.times_shape, sc.fids, sc.order, sc.ij, sc.mode = (2, 2), [0, 1, 2], order, ij, mode
        out.append(sc)
        return sc

    base("E5-ray00")
    base("E5-ray00-F", order="F")
    base("E6-ray01", ij=(0, 1))
    base("E6-respelled", interior=((0, 1), (1, -1)), ij=(0, 1))
    base("E7-point-3", interior=((0, 3), (1, -1)), ij=(0, 1))
    base("E7-point--4", interior=((0, -4), (1, -1)), ij=(0, 1))
    base("E7-point--3", interior=((0, -3), (1, -1)), ij=(0, 1))
    base("E7-undeclared", ij=(0, 1), c1=(None, None))
    base("E7-undeclared-point-3", interior=((0, 3), (1, -1)), ij=(0, 1), flags1=(None, None))
    base("E8-int-flags", ij=(0, 1), flags1=(1, 0))
    base("E8-int-flags-ray00", flags1=(1, 0))
    base("E11-ray11", ij=(1, 1))
    base("E4-from-path", mode=1)
    base("E4-from-path-none", mode=2)
    sc = base("E4-copy-of-P1")
    sc.pts.append(sc.pts[1].copy())
    sc.ifs[1]["pk"] = 3
    sc = base("E4-two-interfaces")
    sc.ifs = [sc.ifs[0], sc.ifs[2]]
    sc = base("E1-two-frames-for-three-points")
    sc.ifs[1]["frames"] = np.array([I3, J3])
    base("E1-inc-1", c1=(1, None))
    base("E1-out-0", c1=(None, 0))
    sc = base("E3-uint16", interior=((0, 1), (1, 2)), dtype="uint16")
    sc = base("E3-int-times")
    sc.times_dtype = "int64"
    sc = base("E3-times-shape")
    sc.times_shape = (2, 3)
    sc = base("E3-two-sets")
    sc.fids = [0, 2]
    sc = base("E3-first-set-of-3")
    sc.fids = [1, 1, 2]
    sc = base("E3-times-1d")
    sc.times_shape = (4,)
    sc = base("E3-interior-2d")
    sc.interior = np.zeros((2, 2), dtype=np.int64)
    # E9: 200 first points, int8
    sc = Scene("fixed:E9-int8-wraps")
    sc.pts = [np.arange(600.).reshape(200, 3), np.zeros((1, 3))]
    sc.ifs = [dict(pk=0, one=True, frames=I3[None], ci=None, co=None, qi=KEEP, qo=KEEP),
              dict(pk=1, one=True, frames=I3[None], ci=None, co=None, qi=KEEP, qo=KEEP)]
    sc.interior, sc.int_dtype, sc.times_shape, sc.fids, sc.ij = np.zeros((0, 200, 1), dtype=np.int64), "int8", (200, 1), [0, 1], (128, 0)
    out.append(sc)
    return out


# ---------------------------------------------------------------------------------------------------------------
# running the library on a scene
# ---------------------------------------------------------------------------------------------------------------
def _table_of(ind):
    ind = np.asarray(ind)
    dk = {"i": 0, "u": 1, "f": 2, "b": 3}.get(ind.dtype.kind, 7)
    bits = ind.dtype.itemsize * 8 if dk in (0, 1) else 0
    return [[dk, bits], list(ind.shape), [int(ind.flags.c_contiguous), int(ind.flags.f_contiguous)],
            [int(x) for x in ind.ravel(order="K")]]


def _make_arrays(sc):
    tdt = NPDT[sc.times_dtype][0]
    times = _layout(np.zeros(sc.times_shape, dtype=tdt), sc.times_layout)
    interior = _layout(np.asarray(sc.interior).astype(NPDT[sc.int_dtype][0]), sc.int_layout)
    return times, interior


def _order_kw(order, rng_bit):
    return {} if order is None and rng_bit else {"order": order}


def execute(arim, sc, idxs):
    """-> (stage, kind), table, column, answers, texts"""
    from types import SimpleNamespace
    g = arim.geometry
    P = [g.Points(p.copy()) for p in sc.pts]
    itfs = []
    for k, f in enumerate(sc.ifs):
        fr = np.asarray(f["frames"], float)
        ori = g.Points(fr.reshape(3, 3).copy() if f["one"] else fr.reshape(-1, 3, 3).copy())
        try:
            itf = arim.Interface(P[f["pk"]], ori, are_normals_on_inc_rays_side=f["ci"], are_normals_on_out_rays_side=f["co"])
        except AssertionError as e:
            return (10 + k, 1), [], [], [], f"AssertionError {e}"
        except ValueError as e:
            return (10 + k, 2), [], [], [], f"ValueError {e}"
        if f["qi"] is not KEEP:
            itf.are_normals_on_inc_rays_side = f["qi"]
        if f["qo"] is not KEEP:
            itf.are_normals_on_out_rays_side = f["qo"]
        itfs.append(itf)
    times, interior = _make_arrays(sc)
    if sc.duck_path:
        fp = SimpleNamespace(points=tuple(P[k] for k in sc.fids), num_points_sets=len(sc.fids))
    else:
        seq = []
        for n_, k in enumerate(sc.fids):
            if n_:
                seq.append(1.0)
            seq.append(P[k])
        fp = arim.ray.FermatPath(tuple(seq))
    try:
        rays = arim.ray.Rays(times, interior, fp, **_order_kw(sc.order, sc.use_cache))
    except AssertionError as e:
        return (2, 1), [], [], [], f"AssertionError {e}"
    except IndexError as e:
        return (2, 3), [], [], [], f"IndexError {e}"
    table = _table_of(rays.indices)
    try:
        if sc.mode == 0:
            rg = arim.ray.RayGeometry(itfs, rays, use_cache=sc.use_cache)
        else:
            mats = [arim.Material(longitudinal_vel=1.0) for _ in range(len(itfs) - 1)]
            path = arim.Path(tuple(itfs), tuple(mats), tuple(["L"] * len(mats)))
            path.rays = None if sc.mode == 2 else rays
            rg = arim.ray.RayGeometry.from_path(path, use_cache=sc.use_cache)
    except AssertionError as e:
        return (3, 1), table, [], [], f"AssertionError {e}"
    except ValueError as e:
        return (3, 2), table, [], [], f"ValueError {e}"
    i, j = sc.ij
    col = [int(x) for x in rg.rays.indices[:, i, j]]
    n, m = rg.rays.indices.shape[1:]
    answers = []
    for idx in idxs:
        row = []
        for meth in METHODS:
            arg = np.int64(idx) if sc.idx_np else int(idx)
            try:
                with np.errstate(all="ignore"):
                    r = getattr(rg, meth)(arg)
            except IndexError:
                row.append((2, []))
                continue
            except ValueError as e:
                row.append((3, []) if "are_normals_on_" in str(e) else (9, []))
                continue
            except Exception:  # noqa: BLE001
                row.append((9, []))
                continue
            if r is None:
                row.append((1, []))
                continue
            a = np.asarray(r.coords if isinstance(r, g.Points) else r)
            if a.shape[:2] != (n, m):
                row.append((9, []))
                continue
            row.append((0, [float(x) for x in np.asarray(a[i, j], dtype=float).ravel()]))
        answers.append(row)
    return (0, 0), table, col, answers, ""


def _outc(o):
    return f"({cZ(o[0])}, {clist(o[1], cfloat)})"


def _zlist2(t):
    return clist([clist(r, cZ) for r in t])


def _times_lit(shape, dtype):
    return f"({clist(shape, cZ)}, {_zz(NPDT[dtype][1])})"


def _interior_lit(interior_np, dtype):
    """shape, dtype, flags of the array actually handed over, logical content (when 3-d)"""
    a = interior_np
    data = "[]"
    if a.ndim == 3:
        data = clist([clist([clist([int(x) for x in row], cZ) for row in lay]) for lay in a.astype(object)])
    return f"({clist(a.shape, cZ)}, {_zz(NPDT[dtype][1])}, ({cbool(a.flags.c_contiguous)}, {cbool(a.flags.fortran)}), {data})"


def scene_literal(sc, idxs, expected):
    stage, table, col, answers = expected
    pl = clist([clist([clist(list(p), cfloat) for p in P]) for P in sc.pts])
    il = []
    for f in sc.ifs:
        fr = np.asarray(f["frames"], float).reshape(-1, 9)
        il.append(f"({cZ(f['pk'])}, ({cZ(0 if f['one'] else 1)}, {clist([clist(list(r), cfloat) for r in fr])}), "
                  f"({_zz(_pyv_code(f['ci']))}, {_zz(_pyv_code(f['co']))}), ({_zz(_post_code(f['qi']))}, {_zz(_post_code(f['qo']))}))")
    _, interior = _make_arrays(sc)
    ac, at2 = sc.tables()
    acl, seen = [], set()
    for a, v in ac:
        if a == a and a not in seen:
            seen.add(a)
            acl.append(f"({cfloat(a)}, {cfloat(v)})")
    atl, seen2, conflict = [], {}, False
    for y, x, v in at2:
        if y != y or x != x:
            continue
        if (y, x) in seen2:
            conflict = conflict or seen2[(y, x)] != v
            continue
        seen2[(y, x)] = v
        atl.append(f"({cfloat(y)}, {cfloat(x)}, {cfloat(v)})")
    oz = {None: 0, "C": 1, "c": 1, "F": 2, "f": 2}[sc.order]
    inp = (f"({pl}, {clist(il)}, {_times_lit(sc.times_shape, sc.times_dtype)}, {_interior_lit(interior, sc.int_dtype)}, "
           f"{clist(sc.fids, cZ)}, {cZ(oz)}, {cZ(sc.mode)}, ({cZ(sc.ij[0])}, {cZ(sc.ij[1])}), {clist(idxs, cZ)}, "
           f"({clist(acl)}, {clist(atl)}))")
    exp = (f"({_zz(stage)}, {_zlist2(table)}, {clist(col, cZ)}, "
           f"{clist([clist([_outc(o) for o in row]) for row in answers])})")
    return f"({inp}, {exp})", conflict


# ---------------------------------------------------------------------------------------------------------------
# table cases
# ---------------------------------------------------------------------------------------------------------------
def gen_table_case(rng, arim, op):
    g = arim.geometry
    d = int(rng.choice([0, 1, 1, 2, 3]))
    n, m = int(rng.choice([1, 1, 2, 3, 4])), int(rng.choice([1, 1, 2, 3, 5]))
    signed = ["int8", "int16", "int32", "int64"]
    if op == 4:
        dtype = str(rng.choice(signed + ["uint8", "uint16", "uint32", "uint64"]))
        if rng.random() < 0.2:
            # wider than the dtype: the first / last rows wrap
            if rng.integers(0, 2):
                n = int(rng.choice([129, 200, 257, 300]))
                m = 1
            else:
                m = int(rng.choice([129, 200, 257, 300]))
                n = 1
            dtype = str(rng.choice(["int8", "uint8"]))
            d = int(rng.choice([0, 1]))
    else:
        dtype = str(rng.choice(signed))
        if rng.random() < 0.1:
            n, m, dtype, d = int(rng.choice([129, 200, 260])), int(rng.choice([1, 2])), "int8", int(rng.choice([0, 1]))
    lo = 0 if dtype.startswith("u") else -100
    it = rng.integers(lo, 101, size=(d, n, m)).astype(NPDT[dtype][0])
    layout = str(rng.choice(["C", "F", "strided"]))
    interior = _layout(it, layout)
    order = [None, None, "C", "F", "c", "f"][int(rng.integers(0, 6))]
    tdtype = str(rng.choice(["float64", "float32"]))
    tl = str(rng.choice(["C", "F"]))
    times = _layout(np.zeros((n, m), dtype=NPDT[tdtype][0]), tl)
    cnts = [n] + [int(rng.integers(1, 4)) for _ in range(d)] + [m]
    P = [g.Points(np.zeros((c, 3))) for c in cnts]
    seq = []
    for k, p in enumerate(P):
        if k:
            seq.append(1.0)
        seq.append(p)
    info = dict(operation=TOPS[op], interior_shape=[d, n, m], interior_dtype=dtype, interior_layout=layout,
                interior_flags=dict(c_contiguous=bool(interior.flags.c_contiguous), fortran=bool(interior.flags.fortran)),
                interior=it.tolist() if it.size <= 60 else "random (seed and tier replay it)", order=order, times_dtype=tdtype,
                times_layout=tl, numbers_of_points=cnts)
    kw = {} if order is None and rng.integers(0, 2) else {"order": order}
    if op == 4:
        ind = arim.ray.Rays.make_indices(interior, **kw)
        res = (0, _table_of(ind), [], [], [[int(x) for x in ind[:, i, j]] for i in range(n) for j in range(m)],
               [int(x) for x in ind[1:-1].ravel(order="C")])
    else:
        fp = arim.ray.FermatPath(tuple(seq))
        r = arim.ray.Rays(times, interior, fp, **kw)
        if op == 1:
            r = r.reverse(order=str(rng.choice(["C", "c"])))
        elif op == 2:
            r = r.reverse(order=str(rng.choice(["F", "f"]))) if rng.integers(0, 2) else r.reverse()
        elif op == 3:
            r = r.to_fortran_order()
        ind = r.indices
        ids = [next(k for k, p in enumerate(P) if p is q) for q in r.fermat_path.points]
        res = (0, _table_of(ind), ids, list(r.times.shape),
               [[int(x) for x in ind[:, i, j]] for i in range(ind.shape[1]) for j in range(ind.shape[2])],
               [int(x) for x in np.asarray(r.interior_indices).ravel(order="C")])
    oz = {None: 0, "C": 1, "c": 1, "F": 2, "f": 2}[order]
    lit = (f"({cZ(op)}, {_times_lit((n, m), tdtype)}, {_interior_lit(interior, dtype)}, {clist(cnts, cZ)}, {cZ(oz)}, "
           f"({cZ(res[0])}, {_zlist2(res[1])}, {clist(res[2], cZ)}, {clist(res[3], cZ)}, {_zlist2(res[4])}, {clist(res[5], cZ)}))")
    info["arim"] = dict(outcome=BK[res[0]], table=res[1][:3] + [res[1][3] if len(res[1][3]) <= 80 else "(long)"],
                        points_order=res[2], times_shape=res[3])
    return lit, info


# ---------------------------------------------------------------------------------------------------------------
def _chunks(raw):
    return re.split(r"^\s*= ", raw, flags=re.M)[1:]


def run(chk, arim, rng, quick):
    import arim.ray  # noqa: F401
    scale = 1 if quick else 10
    plan = list(fixed_scenes())
    plan += [gen_valid(rng) for _ in range(260 * scale)]
    plan += [gen_narrow(rng) for _ in range(5 * scale)]
    for faults, cnt in (("iface-flag-int", 8), ("iface-frames-count", 8), ("rays-times-ndim", 5), ("rays-interior-ndim", 5),
                        ("rays-shape", 8), ("rays-numsets", 6), ("rays-interior-dtype", 8), ("rays-times-dtype", 6),
                        ("rays-empty-path", 4), ("raygeom-identity", 8), ("raygeom-length", 6), ("raygeom-permuted", 4),
                        ("from-path-none", 5), ("point-index", 16), ("flag-none", 14), ("flag-none-all", 4),
                        # two faults: the statement executed first decides
                        ("iface-flag-int+iface-frames-count", 6), ("iface-frames-count+iface-flag-int", 4),
                        ("iface-flag-int+rays-shape", 4), ("iface-frames-count+rays-interior-dtype", 4),
                        ("rays-times-ndim+rays-empty-path", 4), ("rays-interior-ndim+rays-empty-path", 3),
                        ("rays-shape+rays-interior-dtype", 4), ("rays-numsets+rays-times-dtype", 4),
                        ("rays-interior-dtype+rays-times-dtype", 3), ("rays-times-dtype+from-path-none", 4),
                        ("rays-shape+raygeom-identity", 3), ("raygeom-identity+from-path-none", 4),
                        ("flag-none+point-index", 12), ("flag-none-all+point-index", 5), ("raygeom-identity+point-index", 3)):
        plan += [gen_faulty(rng, faults) for _ in range(cnt * scale)]

    lits, infos, skipped = [], [], 0
    for sc in plan:
        nif = sc.nif
        idxs = list(range(-nif - 1, nif + 1))
        stage, table, col, answers, text = execute(arim, sc, idxs)
        lit, conflict = scene_literal(sc, idxs, (stage, table, col, answers))
        if conflict:
            skipped += 1
            chk.count(tie_C05="skipped: two zero signs of one arctan2 argument in one case")
            continue
        lits.append(lit)
        kinds = sorted({KIND.get(o[0], "other") for row in answers for o in row})
        info = sc.describe()
        info["interface_indices"] = idxs
        info["arim"] = dict(constructor_outcome=("all built" if stage == (0, 0) else
                                                 f"{'Interface #%d' % (stage[0] - 10) if stage[0] >= 10 else {2: 'Rays', 3: 'RayGeometry'}[stage[0]]}"
                                                 f" raised {BK[stage[1]]}"), exception_text=text,
                            table=table[:3] + ([table[3]] if table and len(table[3]) <= 80 else ["(long)"]) if table else [],
                            column=col, answers=[[[KIND.get(o[0], "other")] + [float(x).hex() for x in o[1]] for o in row] for row in answers])
        infos.append(info)
        chk.count(tie_C05=sc.family, tie_C05_interfaces=nif,
                  tie_C05_constructor_outcome=info["arim"]["constructor_outcome"].replace("#%d" % (stage[0] - 10), "") if stage[0] >= 10
                  else info["arim"]["constructor_outcome"],
                  tie_C05_table=f"{sc.int_dtype} order={sc.order} interior {sc.int_layout}" if stage[0] in (0, 3) else "no table")
        for k in kinds:
            chk.count(tie_C05_query_outcomes=k)
    bad = chk.coq_failing("tie_C05", COQ_IMPORTS, "caseT", lits, "check_case", shard=40, jobs=8)
    if bad:
        shown = bad[:24]
        raw = chk.coq_values("tie_C05_diag", COQ_IMPORTS + "Definition cs : list caseT := [\n" + ";\n".join(lits[b] for b in shown) + "].\n",
                             ["map mask cs", "map where_ cs"] + [f"option_map (fun c => answer (fst c)) (nth_error cs (Z.to_nat {cZ(k)}))" for k in range(len(shown))])
        ch = _chunks(raw)
        masks = chk.parse_Z_list("= " + ch[0])[0]
        wheres = [[int(x) for x in re.findall(r"-?\d+", w)] for w in re.findall(r"\[([^\[\]]*)\]", ch[1].split(":")[0].strip()[1:-1] if ch[1].strip().startswith("[[") else ch[1])]
        seen, emitted = set(), 0
        for pos, (b, mk) in enumerate(zip(shown, masks)):
            parts = [k for k in range(4) if (mk >> k) & 1]
            w = wheres[pos] if pos < len(wheres) else []
            what = PARTS[parts[0]] if parts else "case"
            method = ""
            if parts and parts[0] == 3 and len(w) == 2 and w[1] < 17:
                method = METHODS[w[1]]
                what = f"{method}({infos[b]['interface_indices'][w[0]] if w[0] < len(infos[b]['interface_indices']) else '?'})"
            key = f"tie:{method or ['constructors', 'index-table', 'column', 'queries'][parts[0] if parts else 0]}:{infos[b]['family'].split(':same')[0]}"
            if key in seen or emitted >= 10:
                continue
            seen.add(key)
            emitted += 1
            corr = {0: "interface_init / rays_init / raygeom_init / raygeom_from_path vs arim.Interface(...) / arim.ray.Rays(...) / "
                       "arim.ray.RayGeometry(...) / RayGeometry.from_path(path)",
                    1: "rays_init (make_indices_tbl: t_dtype, shape, t_order, t_buf) vs arim.ray.Rays(...).indices (dtype, shape, flags, ravel(order='K'))",
                    2: "rg_column g i j vs ray_geometry.rays.indices[:, i, j]",
                    3: f"o_all N ifs col idx (component {method or '?'}) vs arim.ray.RayGeometry.{method or '<method>'}(idx)[i, j]"}
            chk.violation(key, f"tie C05: the object-level model of RayGeometry and arim disagree on {what} "
                               f"(scene family {infos[b]['family']}; {len(bad)} of {len(lits)} scene cases disagree in this run)",
                          dict(infos[b], disagreeing_parts=[PARTS[k] for k in parts],
                               first_disagreeing_query=dict(idx_position=w[0], method=method) if len(w) == 2 else None,
                               correspondence="; ".join(corr[k] for k in parts) or corr[0],
                               model_answer=("((stage, kind) with stage 0 all built / 10+k interface k / 2 Rays / 3 RayGeometry and kind 1 AssertionError, "
                                             "2 ValueError, 3 IndexError; table [dtype; shape; flags; buffer]; column; per idx the 17 outcomes "
                                             "(0 value, 1 None, 2 IndexError, 3 ValueError)): " + " ".join(ch[2 + pos].split())[:6000]),
                               case_number=b, disagreeing_case_numbers=bad[:200], coq_case=lits[b][:20000]),
                          failing_input_found=False)

    # ---- table cases ------------------------------------------------------------------------------------------
    tlits, tinfos = [], []
    for op, cnt in ((0, 40), (1, 40), (2, 50), (3, 30), (4, 60)):
        for _ in range(cnt * scale):
            lit, info = gen_table_case(rng, arim, op)
            tlits.append(lit)
            tinfos.append(info)
            chk.count(tie_C05="table:" + TOPS[op], tie_C05_table_case=f"{info['interior_dtype']} order={info['order']} interior {info['interior_layout']}")
    tbad = chk.coq_failing("tie_C05_tbl", COQ_IMPORTS, "tcaseT", tlits, "check_tcase", shard=50, jobs=8)
    if tbad:
        shown = tbad[:16]
        raw = chk.coq_values("tie_C05_tbl_diag", COQ_IMPORTS + "Definition cs : list tcaseT := [\n" + ";\n".join(tlits[b] for b in shown) + "].\n",
                             ["map tmask cs"] + [f"option_map tanswer (nth_error cs (Z.to_nat {cZ(k)}))" for k in range(len(shown))])
        ch = _chunks(raw)
        masks = chk.parse_Z_list("= " + ch[0])[0]
        seen, emitted = set(), 0
        for pos, (b, mk) in enumerate(zip(shown, masks)):
            parts = [k for k in range(6) if (mk >> k) & 1]
            op = tinfos[b]["operation"]
            key = f"tie:table:{op}:{TPARTS[parts[0]].split(' ')[0] if parts else 'case'}"
            if key in seen or emitted >= 8:
                continue
            seen.add(key)
            emitted += 1
            mf = {"Rays.__init__": "rays_init", "Rays.reverse(order=C)": "rays_reverse r OrdC", "Rays.reverse(order=F)": "rays_reverse r OrdF",
                  "Rays.to_fortran_order": "rays_to_fortran", "Rays.make_indices": "make_indices_tbl"}[op]
            chk.violation(key, f"tie C05: {mf} and arim.ray.{op} disagree on {', '.join(TPARTS[k] for k in parts)} "
                               f"({len(tbad)} of {len(tlits)} table cases disagree in this run)",
                          dict(tinfos[b], disagreeing_parts=[TPARTS[k] for k in parts],
                               correspondence=f"{mf} (tbl_enc, r_fpoints, tm_shape, tbl_column, tbl_interior) vs arim.ray.{op} "
                                              "(indices dtype / shape / flags / ravel(order='K'), fermat_path.points, times.shape, indices[:, i, j], interior_indices)",
                               model_answer="(outcome, table [dtype; shape; flags; buffer], points order, times shape, columns, interior): "
                                            + " ".join(ch[1 + pos].split())[:6000],
                               case_number=b, disagreeing_case_numbers=tbad[:200], coq_case=tlits[b][:20000]),
                          failing_input_found=False)
    nq = sum(len(i_["interface_indices"]) * 17 if i_["arim"]["answers"] else 1 for i_ in infos)
    chk.cov["tie_C05"] = {"scene_cases": len(lits), "queries_compared": nq, "table_cases": len(tlits), "skipped": skipped,
                          "disagreements": len(bad) + len(tbad)}
    return nq + 3 * len(lits) + 6 * len(tlits)
