"""Development runner of the C01 tie alone (see /tmp/tie_brief.md):
  cd /verif && VERIF_ARIM_SRC=/repo/src PYTHONPATH=/verif/harness /venv/bin/python harness/ties/try_C01.py --tier quick --no-proofs
"""
import json
import time

from common import Check

chk = Check("C01", design_ref="DESIGN.md §5 C01")
arim = chk.import_arim()

from ties import tie_C01  # noqa: E402

t0 = time.time()
n = tie_C01.run(chk, arim, chk.rng, chk.tier == "quick")
print(f"# tie_C01: {n} comparisons in {time.time() - t0:.1f} s; {json.dumps(chk.cov.get('tie_C01'))}; distribution: "
      f"{json.dumps({k: v for k, v in chk.hist.items() if k.startswith('tie_C01')})[:6000]}", flush=True)
chk.finish(evaluations=n, distinct_nontrivial=n, rule="tie only", samples=[])
