"""Tie of Model/BeamspreadPath.v (C06) to the real library, evaluated on every run of the check.

Correspondence (see notes/prover_C06_TIE.md):

  beamspread_2d_for_path N ifs ray vel          vs  arim.model.beamspread_2d_for_path(ray_geometry)[i, j]
  reverse_beamspread_2d_for_path N ifs ray vel  vs  arim.model.reverse_beamspread_2d_for_path(ray_geometry)[i, j]
  n_of_path ifs                                 vs  ray_geometry.numinterfaces - 1
  path_legs N ifs ray                           vs  [ray_geometry.inc_leg_size(k)[i, j] for k in range(1, n + 1)]
  path_thetas N ifs ray                         vs  [ray_geometry.conventional_inc_angle(k)[i, j] for k in range(1, n)]
  beamspread_outcome N vel legs thetas          vs  nan / +inf / -inf / finite value of beamspread_2d_for_path(ray_geometry)[i, j]
                                                    (legs and thetas READ from the RayGeometry object)
  vel_at vel idx                                vs  FermatPath(...).velocities[idx]
  range1 n                                      vs  list(range(1, n))
  recip_sqrt_outcome NumF d                     vs  np.reciprocal(np.sqrt(d))   (every class of d: nan, -inf, < 0, -0.0, +0.0, > 0, +inf)

with ifs = the interfaces (every point, every frame, both side flags), ray = ray_geometry.rays.indices[:, i, j] read
from the real Rays object, vel = ray_geometry.rays.fermat_path.velocities.  Outcomes are compared exactly: the kind
(value / None used as an array / IndexError / ValueError) and, for values, the binary64 number bit for bit.

The model runs inside coqc (vm_compute) on binary64 primitive floats.  +, -, *, /, sqrt and the comparisons are the
IEEE operations; arccos, sin and cos (libm, an external service of the model: fields of the Num record) are given to
each case as a finite table {argument -> value} computed here with numpy on arguments derived from the input alone
(never read from arim); an argument outside the table gives nan, hence a reported disagreement.  Inputs are dyadic
(coordinates k/2^s, integer frames), so that the subtraction of points, the change of frame and the sum of squares
are exact whatever the order of the additions in numpy.einsum.
"""
import math
import re
from types import SimpleNamespace

import numpy as np

from common import cZ, cfloat, clist, cbool, copt

PI_HEX = "0x1.921fb54442d18p+1"
assert float(np.pi).hex() == PI_HEX

COQ_IMPORTS = """From Coq Require Import ZArith List Bool PrimFloat.
From Arim Require Import Base.Num Base.NumF Base.ListX Model.Vec3 Model.RayGeom Model.Beamspread Model.BeamspreadPath.
Import ListNotations.
Definition feq (a b : float) : bool := PrimFloat.eqb a b || (negb (PrimFloat.eqb a a) && negb (PrimFloat.eqb b b)).
(* libm as a finite table: argument -> value; nan outside the table *)
Fixpoint lookup (t : list (float * float)) (x : float) : float :=
  match t with
  | [] => nan
  | (a, v) :: t' => if PrimFloat.eqb a x then v else lookup t' x
  end.
Definition tabs : Type := (list (float * float) * list (float * float) * list (float * float))%type.
Definition NumT (tb : tabs) : Num float :=
  let '(ac, sn, cs) := tb in
  {| n0 := zero; n1 := one;
     nadd := add; nsub := sub; nmul := mul; ndiv := div; nopp := opp;
     nsqrt := sqrt;
     nsin := lookup sn; ncos := lookup cs; nasin := fun _ => nan; nacos := lookup ac;
     natan2 := fun _ _ => nan; nexp := fun _ => nan; nln := fun _ => nan; npi := 0x1.921fb54442d18p+1%float;
     nltb := ltb; nleb := leb; neqb := eqb;
     nofZ := Fof_Z;
     nfloor := nfloor NumF; ntrunc := ntrunc NumF; nround := nround NumF |}.
Definition outc : Type := (Z * list float)%type.
Definition enc1 (r : res float) : outc :=
  match r with Val a => (0%Z, [a]) | NoLeg => (1%Z, []) | IndexErr => (2%Z, []) | ValueErr => (3%Z, []) end.
Definition encl (r : res (list float)) : outc :=
  match r with Val a => (0%Z, a) | NoLeg => (1%Z, []) | IndexErr => (2%Z, []) | ValueErr => (3%Z, []) end.
Definition fcode (v : fval float) : outc :=
  match v with
  | Finite x => (0%Z, [x])
  | PlusInf => (1%Z, [])
  | NaN => (2%Z, [])
  | MinusInf => (3%Z, [])
  end.
Definition same (a b : outc) : bool := Z.eqb (fst a) (fst b) && list_eqb feq (snd a) (snd b).
Definition v3_of (l : list float) : vec3 float := (nth 0 l zero, nth 1 l zero, nth 2 l zero).
Definition ifaceL : Type := (list (list float) * option bool * option bool)%type.
Definition mk_iface (x : ifaceL) : iface (T:=float) :=
  let '(rows, fi, fo) := x in
  mkIface (map (fun r => v3_of r) rows)
          (map (fun r => (v3_of (skipn 3 r), v3_of (skipn 6 r), v3_of (skipn 9 r))) rows) fi fo.
(* input: interfaces, rays.indices[:, i, j], velocities, libm tables;
   expected (from arim): n, forward, reverse, legs, thetas, outcome class (kind -1: not compared) *)
Definition inputT : Type := (list ifaceL * list Z * list float * tabs)%type.
Definition caseT : Type := (inputT * (Z * outc * outc * outc * outc * outc))%type.
Definition answers (c : caseT) : list outc :=
  let '((ifl, rayz, vel, tb), (en, efwd, erev, elegs, ethetas, eout)) := c in
  let N := NumT tb in
  let ifs := map mk_iface ifl in
  let ray := map Z.to_nat rayz in
  [ (n_of_path ifs, []);
    enc1 (beamspread_2d_for_path N ifs ray vel);
    enc1 (reverse_beamspread_2d_for_path N ifs ray vel);
    encl (path_legs N ifs ray);
    encl (path_thetas N ifs ray);
    if Z.eqb (fst eout) (-1) then eout else fcode (beamspread_outcome N vel (snd elegs) (snd ethetas)) ].
Definition expected (c : caseT) : list outc :=
  let '(_, (en, efwd, erev, elegs, ethetas, eout)) := c in [ (en, []); efwd; erev; elegs; ethetas; eout ].
Definition check_case (c : caseT) : bool := list_eqb same (answers c) (expected c).
(* which observables disagree: bit k set = observable k (n, forward, reverse, legs, thetas, outcome) *)
Fixpoint mask_of (a e : list outc) (w : Z) : Z :=
  match a, e with
  | x :: a', y :: e' => ((if same x y then 0 else w) + mask_of a' e' (2 * w))%Z
  | [], [] => 0%Z
  | _, _ => w
  end.
Definition mask (c : caseT) : Z := mask_of (answers c) (expected c) 1%Z.
(* unit ties: tag 0 vel_at, 1 range1, 2 recip_sqrt_outcome *)
Definition unitT : Type := (Z * list float * list Z * outc * list Z)%type.
Definition check_unit (c : unitT) : bool :=
  let '(tag, fl, zl, eo, ez) := c in
  match tag with
  | 0%Z => same (enc1 (vel_at fl (nth 0 zl 0%Z))) eo
  | 1%Z => list_eqb Z.eqb (range1 (nth 0 zl 0%Z)) ez
  | 2%Z => same (fcode (recip_sqrt_outcome NumF (nth 0 fl zero))) eo
  | _ => false
  end.
"""

CASE_TYPE = "caseT"
KIND = {0: "Val", 1: "NoLeg (None used as an array)", 2: "IndexErr", 3: "ValueErr"}
OBS = ["n_of_path", "beamspread_2d_for_path", "reverse_beamspread_2d_for_path", "path_legs", "path_thetas", "beamspread_outcome"]
CORR = ["n_of_path vs ray_geometry.numinterfaces - 1",
        "Model.BeamspreadPath.beamspread_2d_for_path vs arim.model.beamspread_2d_for_path(ray_geometry)[i, j]",
        "Model.BeamspreadPath.reverse_beamspread_2d_for_path vs arim.model.reverse_beamspread_2d_for_path(ray_geometry)[i, j]",
        "Model.BeamspreadPath.path_legs vs [ray_geometry.inc_leg_size(k)[i, j] for k in range(1, n + 1)]",
        "Model.BeamspreadPath.path_thetas vs [ray_geometry.conventional_inc_angle(k)[i, j] for k in range(1, n)]",
        "Model.BeamspreadPath.beamspread_outcome (legs, thetas read from the RayGeometry) vs class of arim.model.beamspread_2d_for_path(ray_geometry)[i, j]"]

I3 = [[1, 0, 0], [0, 1, 0], [0, 0, 1]]
J3 = [[1, 0, 0], [0, -1, 0], [0, 0, -1]]


# ---------------------------------------------------------------------------------------------------------------
# outcome of a Python call as (kind, values)
# ---------------------------------------------------------------------------------------------------------------
def _kind_of_exception(e):
    if isinstance(e, IndexError):
        return 2
    if isinstance(e, (AttributeError, TypeError)) and "NoneType" in str(e):
        return 1
    if isinstance(e, ValueError) and "are_normals_on_inc_rays_side" in str(e):
        return 3
    return 9          # an exception the model does not have: always a disagreement


def _call(f):
    """(kind, value or None, text)"""
    try:
        with np.errstate(all="ignore"):
            return 0, f(), ""
    except Exception as e:  # noqa: BLE001
        return _kind_of_exception(e), None, f"{type(e).__name__}: {str(e)[:120]}"


def _fclass(v):
    """class of a binary64 result as the model's fval: 0 Finite x, 1 PlusInf, 2 NaN, 3 MinusInf"""
    if v != v:
        return 2, []
    if v == math.inf:
        return 1, []
    if v == -math.inf:
        return 3, []
    return 0, [v]


def _outc(kind, vals):
    return f"({cZ(kind)}, {clist(vals, cfloat)})"


# ---------------------------------------------------------------------------------------------------------------
# a scene: plain data, the real arim objects built from it, the libm tables derived from it
# ---------------------------------------------------------------------------------------------------------------
class Scene:
    """points[k] (p_k, 3), frames[k] (p_k, 3, 3), inc[k], out[k], vel (list), interior (d-2, n, m) or `indices`
    (rows, n, m) for a hand-made rays object, same_as[k] = index of an earlier interface whose Interface object is reused."""

    def __init__(self, family, points, frames, inc, out, vel, interior=None, indices=None, duck=False, order="C",
                 vel_spelling="float", use_cache=True, shared_rg=False, same_as=None, idx_dtype=np.intp, duck_vel=None):
        self.family = family
        self.points = [np.asarray(p, dtype=float).reshape(-1, 3) for p in points]
        self.frames = [np.asarray(f, dtype=float).reshape(-1, 3, 3) for f in frames]
        self.inc, self.out = list(inc), list(out)
        self.vel = list(vel)
        self.interior, self.indices = interior, indices
        self.duck, self.order, self.vel_spelling = duck, order, vel_spelling
        self.use_cache, self.shared_rg = use_cache, shared_rg
        self.same_as = same_as or {}
        self.idx_dtype = idx_dtype
        self.duck_vel = duck_vel       # velocities of the hand-made rays object (may have any length)

    @property
    def nif(self):
        return len(self.points)

    def nm(self):
        if self.indices is not None:
            return self.indices.shape[1], self.indices.shape[2]
        return len(self.points[0]), len(self.points[-1])

    def velocities(self):
        v = self.duck_vel if self.duck_vel is not None else self.vel
        sp = self.vel_spelling
        if sp == "int" and all(float(x).is_integer() for x in v):
            return [int(x) for x in v]
        if sp == "np.int64" and all(float(x).is_integer() for x in v):
            return [np.int64(int(x)) for x in v]
        if sp == "np.float64":
            return [np.float64(x) for x in v]
        return [float(x) for x in v]

    def build(self, arim):
        g = arim.geometry
        itfs = []
        for k in range(self.nif):
            if k in self.same_as:
                itfs.append(itfs[self.same_as[k]])
                continue
            itfs.append(arim.Interface(g.Points(self.points[k].copy()), g.Points(self.frames[k].copy()),
                                       are_normals_on_inc_rays_side=self.inc[k], are_normals_on_out_rays_side=self.out[k]))
        vels = self.velocities()
        if self.duck:
            ind = self.indices
            rays = SimpleNamespace(fermat_path=SimpleNamespace(points=tuple(i.points for i in itfs), velocities=tuple(vels)),
                                   indices=ind)
        else:
            seq = []
            for k, itf in enumerate(itfs):
                seq.append(itf.points)
                if k < len(vels):
                    seq.append(vels[k])
            fp = arim.ray.FermatPath(tuple(seq))
            n, m = self.nm()
            interior = np.asarray(self.interior, dtype=self.idx_dtype).reshape(self.nif - 2, n, m)
            interior = np.asfortranarray(interior) if self.order == "F" else np.ascontiguousarray(interior)
            rays = arim.ray.Rays(np.zeros((n, m)), interior, fp)
        self.itfs, self.rays = itfs, rays
        return itfs, rays

    def rg(self, arim):
        return arim.ray.RayGeometry(self.itfs, self.rays, use_cache=self.use_cache)

    # -- libm tables, from the plain data only -------------------------------------------------------------------
    def own_indices(self):
        if self.indices is not None:
            return np.asarray(self.indices)
        n, m = self.nm()
        full = np.zeros((self.nif, n, m), dtype=np.int64)
        full[0] = np.arange(n)[:, None]
        full[-1] = np.arange(m)[None, :]
        if self.nif > 2:
            full[1:-1] = np.asarray(self.interior).reshape(self.nif - 2, n, m)
        return full

    def tables(self, i, j):
        """entries for every interface that has an incoming leg (more than the functions need: harmless)"""
        ac, sn, cs = [], [], []
        full = self.own_indices()
        with np.errstate(all="ignore"):
            for k in range(1, self.nif):
                try:
                    S = self.points[k - 1][full[k - 1]]
                    E = self.points[k][full[k]]
                    B = self.frames[k][full[k]]
                except IndexError:
                    continue
                d = S - E
                loc = np.einsum("...ji,...i->...j", B, d)
                x, y, z = loc[..., 0], loc[..., 1], loc[..., 2]
                r = np.sqrt(((0.0 + x * x) + y * y) + z * z)
                q = np.ascontiguousarray(z / r)
                t = np.arccos(q)
                t2 = t * -1.0 + np.pi
                ac.append((q[i, j], t[i, j]))
                for a in (t, t2):
                    sn.append((a[i, j], np.sin(a)[i, j]))
                    cs.append((a[i, j], np.cos(a)[i, j]))
        return ac, sn, cs


def _tab(entries):
    seen, out = set(), []
    for a, v in entries:
        a, v = float(a), float(v)
        if a != a or a.hex() in seen:
            continue
        seen.add(a.hex())
        out.append(f"({cfloat(a)}, {cfloat(v)})")
    return "[" + "; ".join(out) + "]"


# ---------------------------------------------------------------------------------------------------------------
# generators
# ---------------------------------------------------------------------------------------------------------------
POW2 = [0.25, 0.5, 1.0, 2.0, 4.0, 8.0]
DYAD = [0.5, 0.75, 1.0, 1.5, 2.0, 2.5, 3.0, 4.0, 5.0, 6.0, 1480.0, 2960.0, 5920.0, 3200.0, 6400.0]
INTV = [1.0, 2.0, 3.0, 4.0, 6.0, 8.0, 1480.0, 2960.0, 5920.0]


def _signed_perm(rng):
    p = rng.permutation(3)
    M = np.zeros((3, 3))
    for r in range(3):
        M[r, p[r]] = float(rng.choice([-1.0, 1.0]))
    return M


def _perp_frame(rng, d):
    """integer frame whose first two rows are perpendicular to d and whose third row is +-d (times a power of two)"""
    a, b, c = (float(v) for v in d)
    cands = [v for v in ([b, -a, 0.0], [c, 0.0, -a], [0.0, c, -b]) if any(v)]
    if len(cands) < 2:
        return None
    k = rng.permutation(len(cands))[:2]
    s = float(rng.choice([-1.0, 1.0])) * float(rng.choice([0.5, 1.0, 2.0]))
    return np.array([cands[k[0]], cands[k[1]], [s * a, s * b, s * c]])


def _points(rng, npts, scale, spread=40):
    return rng.integers(-spread, spread + 1, size=(npts, 3)).astype(float) / scale


def gen_valid(rng, family, nif=None):
    nif = int(nif if nif is not None else rng.choice([2, 3, 3, 4, 4, 5, 6]))
    scale = float(rng.choice([1, 1, 2, 4, 8]))
    npts = [int(rng.integers(1, 4)) for _ in range(nif)]
    pts = [_points(rng, p, scale) for p in npts]
    n, m = npts[0], npts[-1]
    interior = np.stack([rng.integers(0, npts[k], size=(n, m)) for k in range(1, nif - 1)]) if nif > 2 else np.zeros((0, n, m), dtype=int)
    i, j = int(rng.integers(0, n)), int(rng.integers(0, m))
    if family == "int-frames":
        frames = [rng.integers(-3, 4, size=(p, 3, 3)).astype(float) for p in npts]
    else:
        frames = [np.stack([_signed_perm(rng) for _ in range(p)]) for p in npts]
    if family in ("normal", "normal-pow2"):
        # the chosen ray meets every interior interface along the third axis of the frame attached to the point it crosses
        ray = [i] + [int(interior[k - 1, i, j]) for k in range(1, nif - 1)] + [j]
        # distinct consecutive points on the chosen ray
        for k in range(1, nif):
            while not np.any(pts[k][ray[k]] - pts[k - 1][ray[k - 1]]):
                pts[k][ray[k]] = _points(rng, 1, scale)[0]
        for k in range(1, nif):
            F = _perp_frame(rng, pts[k - 1][ray[k - 1]] - pts[k][ray[k]])
            if F is not None:
                frames[k][ray[k]] = F
    inc = [rng.choice([None, True, False])] + [bool(rng.integers(0, 2)) for _ in range(nif - 2)] + [rng.choice([None, True, False])]
    inc = [None if v is None else bool(v) for v in inc]
    out = [None if v is None else bool(v) for v in rng.choice([None, True, False], size=nif)]
    pool = POW2 if family == "normal-pow2" else (INTV if rng.random() < 0.3 else DYAD)
    vel = [float(rng.choice(pool)) for _ in range(nif - 1)]
    sc = Scene(family, pts, frames, inc, out, vel, interior=interior,
               order=str(rng.choice(["C", "F"])), vel_spelling=str(rng.choice(["float", "float", "int", "np.int64", "np.float64"])),
               use_cache=bool(rng.integers(0, 2)), shared_rg=bool(rng.integers(0, 2)),
               idx_dtype=rng.choice([np.intp, np.intp, np.int32, np.int16]))
    return sc, (i, j)


def gen_single_leg(rng):
    sc, ij = gen_valid(rng, "single-leg", nif=2)
    kind = int(rng.integers(0, 3))
    i, j = ij
    if kind == 0:       # source and target coincide: distance 0, +inf
        sc.points[1][j] = sc.points[0][i]
        sc.family = "single-leg:zero-length"
    elif kind == 1:     # Pythagorean distance
        a, b, c = [(3, 4, 0), (0, 5, 12), (2, 3, 6), (1, 4, 8), (8, 9, 12)][int(rng.integers(0, 5))]
        sc.points[1][j] = sc.points[0][i] + np.array([a, b, c], dtype=float) * float(rng.choice([0.25, 1.0, 2.0]))
        sc.family = "single-leg:pythagorean"
    return sc, ij


def gen_same_wall_twice(rng):
    """the SAME Interface object at two positions of the path (as arim's back-wall echo paths)"""
    nif = int(rng.choice([4, 5, 6]))
    sc, ij = gen_valid(rng, "same-wall-twice", nif=nif)
    a = int(rng.integers(1, nif - 2))
    b = int(rng.integers(a + 1, nif - 1))
    n, m = sc.nm()
    sc.points[b], sc.frames[b], sc.inc[b], sc.out[b] = sc.points[a], sc.frames[a], sc.inc[a], sc.out[a]
    sc.interior[b - 1] = rng.integers(0, len(sc.points[a]), size=(n, m))
    i, j = ij
    if len(sc.points[a]) >= 2 and b == a + 1 and rng.random() < 0.8:
        # consecutive visits: mostly through two different points (the same point gives a zero-length leg, nan angle)
        sc.interior[b - 1, i, j] = (sc.interior[a - 1, i, j] + 1 + rng.integers(0, len(sc.points[a]) - 1)) % len(sc.points[a])
    sc.same_as = {b: a}
    return sc, ij


def gen_sign(rng):
    """virtual distances of either sign and exactly zero: two or three collinear legs met along the normals, a NEGATIVE
    velocity ratio (unphysical, accepted by the code and by the model) making gamma negative"""
    nif = int(rng.choice([3, 3, 4]))
    r = [float(rng.choice([1.0, 2.0, 4.0, 8.0, 3.0, 6.0])) for _ in range(nif - 1)]
    z = np.concatenate([[0.0], np.cumsum(r)])
    pts = [np.array([[0.0, 0.0, zz]]) for zz in z]
    frames = [np.array([I3 if rng.integers(0, 2) else J3], dtype=float) for _ in range(nif)]
    # flag chosen so that the conventional angle is 0 (theta = 0 with the normal on the incoming side, pi otherwise)
    inc = [None]
    for k in range(1, nif):
        toward_source = frames[k][0][2][2] < 0        # third axis along -z: the incoming leg (towards -z) has polar angle 0
        inc.append(bool(toward_source))
    inc[-1] = None if rng.integers(0, 2) else inc[-1]
    vel = [1.0]
    for k in range(1, nif - 1):
        vel.append(vel[-1] * float(rng.choice([-0.5, -2.0, -1.0, 0.5, 2.0, -0.25, -4.0])))
    if nif == 3 and rng.random() < 0.3:
        # r1 + r2 / (v0 / v1) == 0 exactly: +inf
        vel = [1.0, -1.0]
        pts[2] = np.array([[0.0, 0.0, 2 * r[0]]])
    sc = Scene("sign-of-virtual-distance", pts, frames, inc, [None] * nif, vel, interior=np.zeros((nif - 2, 1, 1), dtype=int),
               use_cache=bool(rng.integers(0, 2)))
    return sc, (0, 0)


def gen_beyond_critical(rng):
    """example B of the note, with a random second leg: incidence 30 degrees, velocities (1, 3)"""
    s3 = math.sqrt(3) / 2
    r2 = float(rng.choice([0.1, 0.25, 0.5, 0.5555, 0.56, 1.0, 2.0, 0.05]))
    pts = [[[-0.5, 0, -s3]], [[0, 0, 0]], [[0, 0, r2]]]
    sc = Scene("beyond-critical-angle", pts, [[I3]] * 3, [None, False, None], [None] * 3, [1.0, 3.0],
               interior=np.zeros((1, 1, 1), dtype=int), use_cache=bool(rng.integers(0, 2)))
    return sc, (0, 0)


def to_duck(sc):
    """the same scene behind a hand-made rays object (what RayGeometry reads: fermat_path.points, .velocities, indices)"""
    if sc.duck:
        return sc
    sc.indices = sc.own_indices().astype(np.intp)
    sc.duck = True
    sc.duck_vel = list(sc.vel)
    return sc


def gen_malformed(rng, fault):
    nif = int(rng.choice([3, 3, 4, 4, 5]))
    base = str(rng.choice(["normal", "normal-pow2", "perm"]))
    sc, ij = gen_valid(rng, base, nif=nif)
    i, j = ij
    faults = fault.split("+")
    for f in faults:
        if f == "flag-none":
            sc.inc[int(rng.integers(1, nif - 1))] = None
        elif f == "flag-none-all":
            for k in range(1, nif - 1):
                sc.inc[k] = None
        elif f == "vel-short":
            to_duck(sc)
            sc.duck_vel = sc.duck_vel[:int(rng.integers(0, nif - 1))]
        elif f == "vel-long":
            to_duck(sc)
            sc.duck_vel = sc.duck_vel + [float(rng.choice(DYAD)) for _ in range(int(rng.integers(1, 3)))]
        elif f == "point-index":
            # a point index beyond the point set, on the chosen ray (interior interface: a real Rays object accepts it)
            if sc.indices is None and rng.integers(0, 2):
                k = int(rng.integers(1, nif - 1))
                sc.interior[k - 1, i, j] = len(sc.points[k]) + int(rng.integers(0, 3))
            else:
                to_duck(sc)
                k = int(rng.integers(0, nif))
                sc.indices[k, i, j] = len(sc.points[k]) + int(rng.integers(0, 3))
        elif f == "rows-fewer":
            to_duck(sc)
            sc.indices = sc.indices[:int(rng.integers(0, nif))].copy()
        elif f == "rows-more":
            to_duck(sc)
            extra = np.zeros((int(rng.integers(1, 3)),) + sc.indices.shape[1:], dtype=np.intp)
            sc.indices = np.concatenate([sc.indices, extra])
        else:
            raise AssertionError(f)
    sc.family = "malformed:" + fault
    return sc, ij


def gen_few_interfaces(rng, nif):
    """fewer than two interfaces ("Case n=0: undefined"): only behind a hand-made rays object"""
    npts = [int(rng.integers(1, 3)) for _ in range(nif)]
    pts = [_points(rng, p, 1.0) for p in npts]
    frames = [np.stack([_signed_perm(rng) for _ in range(p)]) for p in npts]
    flags = [None if v is None else bool(v) for v in rng.choice([None, True, False], size=nif)]
    n = npts[0] if nif else 1
    idx = np.zeros((nif, n, n), dtype=np.intp)
    if nif:
        idx[0] = np.arange(n)[:, None]
        idx[-1] = np.arange(n)[None, :]
    sc = Scene(f"malformed:{nif}-interfaces", pts, frames, flags, flags, [], indices=idx, duck=True,
               duck_vel=[float(rng.choice(DYAD)) for _ in range(int(rng.integers(0, 3)))], use_cache=bool(rng.integers(0, 2)))
    return sc, (int(rng.integers(0, n)), int(rng.integers(0, n)))


def fixed_examples():
    """E1 .. E9, R, B of notes/prover_C06_TIE.md; E10 of Proofs/BeamspreadPathExamples.v"""
    ex = []

    def one(name, pts, frames, flags, vel, duck=False, duck_vel=None, first_last=None):
        nif = len(pts)
        sc = Scene("fixed:" + name, [[p] for p in pts], [[f] for f in frames], flags, [None] * nif, vel,
                   interior=np.zeros((max(nif - 2, 0), 1, 1), dtype=int))
        if duck:
            sc.indices = np.zeros((nif, 1, 1), dtype=np.intp)
            sc.duck, sc.duck_vel = True, list(vel if duck_vel is None else duck_vel)
        ex.append((sc, (0, 0)))

    z4 = [(0, 0, 0), (0, 0, 3), (0, 0, 8), (0, 0, 10)]
    one("E1", z4, [I3, I3, J3, I3], [None, False, True, None], [1.0, 2.0, 4.0])
    one("E2", [(0, 0, 0), (3, 0, 4)], [I3, I3], [None, None], [7.0])
    one("E2-no-velocity", [(0, 0, 0), (3, 0, 4)], [I3, I3], [None, None], [], duck=True)
    one("E3-one-interface", [(0, 0, 0)], [I3], [None], [], duck=True)
    one("E3-no-interface", [], [], [], [], duck=True)
    one("E4", z4, [I3, I3, J3, I3], [None, None, True, None], [1.0, 2.0, 4.0])
    one("E5", z4, [I3, I3, J3, I3], [None, False, None, None], [1.0, 2.0, 4.0])
    one("E6", z4, [J3, I3, J3, J3], [True, False, True, False], [1.0, 2.0, 4.0])
    one("E8", [(0, 0, 0), (0, 0, 12), (0, 0, 32), (0, 0, 40)], [I3, I3, J3, I3], [None, False, True, None], [1.0, 2.0, 4.0])
    Q = np.array([[1, 0, 0], [0, 0, -1], [0, 1, 0]], float)
    t = np.array([1, 2, 3], float)
    one("E9", [tuple(Q @ np.array(p, float) + t) for p in z4], [(np.array(B, float) @ Q.T).tolist() for B in (I3, I3, J3, I3)],
        [None, False, True, None], [1.0, 2.0, 4.0])
    # the same point of a wall met twice: zero-length leg, nan angle, nan virtual distance, outcome class NaN
    one("E10-same-point-twice", [(0, 0, 0), (0, 0, 3), (0, 0, 3), (0, 0, 10)], [I3, I3, I3, I3], [None, False, False, None], [1.0, 2.0, 4.0])
    one("R", [(0, 0, 0), (0, 0, 1), (0, 0, 3)], [I3, I3, I3], [None, False, None], [1.0, 2.0])
    s3 = math.sqrt(3) / 2
    for r2 in (0.1, 1.0):
        one(f"B-r2={r2}", [(-0.5, 0, -s3), (0, 0, 0), (0, 0, r2)], [I3, I3, I3], [None, False, None], [1.0, 3.0])
    return ex


# ---------------------------------------------------------------------------------------------------------------
# one case: run arim, write the Coq literal
# ---------------------------------------------------------------------------------------------------------------
def evaluate(arim, sc, ij):
    model = arim.model
    i, j = ij
    sc.build(arim)
    n, m = sc.nm()
    rg = sc.rg(arim)
    rg2 = rg if sc.shared_rg else sc.rg(arim)

    def entry(res):
        a = np.asarray(res)
        if a.shape != (n, m):
            raise RuntimeError(f"shape {a.shape} instead of {(n, m)}")
        return float(a[i, j])

    kf, vf, tf = _call(lambda: entry(model.beamspread_2d_for_path(rg)))
    kr, vr, tr = _call(lambda: entry(model.reverse_beamspread_2d_for_path(rg2)))
    # the reads come after the two calls, from the same object when it is shared (a call that altered a cached array shows up here)
    rg3 = rg if sc.shared_rg else sc.rg(arim)
    en = int(rg3.numinterfaces - 1)

    def reads(method, ks):
        out = []
        for k in ks:
            r = method(k)
            if r is None:
                raise AttributeError("'NoneType' object: the method returned None")
            out.append(entry(r))
        return out

    kl, vl, tl = _call(lambda: reads(rg3.inc_leg_size, range(1, en + 1)))
    kt, vt, tt = _call(lambda: reads(rg3.conventional_inc_angle, range(1, en)))
    vel = [float(v) for v in sc.rays.fermat_path.velocities]
    ray = [int(x) for x in np.asarray(sc.rays.indices)[:, i, j]]
    if kf == 0 and kl == 0 and kt == 0 and len(vel) >= en:
        eout = _fclass(vf)
    else:
        eout = (-1, [])
    ifl = clist([f"({clist([clist(list(p) + list(np.asarray(B).ravel()), cfloat) for p, B in zip(sc.points[k], sc.frames[k])])}, "
                 f"{copt(sc.inc[k], cbool)}, {copt(sc.out[k], cbool)})" for k in range(sc.nif)])
    ac, sn, cs = sc.tables(i, j)
    inp = f"({ifl}, {clist(ray, cZ)}, {clist(vel, cfloat)}, ({_tab(ac)}, {_tab(sn)}, {_tab(cs)}))"
    exp = (f"({cZ(en)}, {_outc(kf, [vf] if kf == 0 else [])}, {_outc(kr, [vr] if kr == 0 else [])}, "
           f"{_outc(kl, vl if kl == 0 else [])}, {_outc(kt, vt if kt == 0 else [])}, {_outc(*eout)})")
    info = dict(family=sc.family, ray=[i, j], interfaces=[dict(points=sc.points[k].tolist(), frames=sc.frames[k].tolist(),
                                                               are_normals_on_inc_rays_side=sc.inc[k], are_normals_on_out_rays_side=sc.out[k])
                                                          for k in range(sc.nif)],
                same_interface_object=sc.same_as, velocities=vel, velocity_spelling=sc.vel_spelling,
                rays_indices_column=ray, rays_object="hand-made (SimpleNamespace)" if sc.duck else f"arim.ray.Rays, {sc.order} order",
                indices_shape=list(np.asarray(sc.rays.indices).shape), use_cache=sc.use_cache, one_ray_geometry_for_both_calls=sc.shared_rg,
                arim=dict(n=en, forward=[KIND.get(kf, "other exception"), vf if kf else float(vf).hex(), tf],
                          reverse=[KIND.get(kr, "other exception"), vr if kr else float(vr).hex(), tr],
                          legs=[KIND.get(kl, "other exception"), vl, tl], thetas=[KIND.get(kt, "other exception"), vt, tt],
                          outcome_class=["Finite", "PlusInf", "NaN", "MinusInf", "not compared"][eout[0]],
                          nan_read=bool(kl == 0 and kt == 0 and any(x != x for x in list(vl) + list(vt)))))
    return f"({inp}, {exp})", info, (kf, kr)


# ---------------------------------------------------------------------------------------------------------------
def run(chk, arim, rng, quick):
    import arim.model  # noqa: F401
    import arim.ray    # noqa: F401
    scale = 1 if quick else 10
    plan = []
    for sc_ij in fixed_examples():
        plan.append(sc_ij)
    for fam, cnt in (("normal-pow2", 70), ("normal", 60), ("perm", 70), ("int-frames", 30)):
        plan += [gen_valid(rng, fam) for _ in range(cnt * scale)]
    plan += [gen_single_leg(rng) for _ in range(18 * scale)]
    plan += [gen_same_wall_twice(rng) for _ in range(15 * scale)]
    plan += [gen_sign(rng) for _ in range(25 * scale)]
    plan += [gen_beyond_critical(rng) for _ in range(6 * scale)]
    # valid scenes behind a hand-made rays object (same answers expected) and with too many velocities / index rows
    plan += [(to_duck(s), ij) for s, ij in (gen_valid(rng, "perm") for _ in range(6 * scale))]
    for fault, cnt in (("flag-none", 20), ("flag-none-all", 5), ("vel-short", 20), ("vel-long", 8), ("point-index", 20),
                       ("rows-fewer", 14), ("rows-more", 6),
                       # two faults: the FIRST one in evaluation order decides (forward and reverse walk the path in opposite orders)
                       ("flag-none+vel-short", 18), ("flag-none+point-index", 14), ("vel-short+point-index", 10),
                       ("flag-none+rows-fewer", 8), ("vel-short+rows-fewer", 6)):
        plan += [gen_malformed(rng, fault) for _ in range(cnt * scale)]
    plan += [gen_few_interfaces(rng, nif) for nif in (0, 1, 1, 0, 1) * scale]

    lits, infos = [], []
    for sc, ij in plan:
        lit, info, kinds = evaluate(arim, sc, ij)
        lits.append(lit)
        infos.append(info)
        chk.count(tie_C06=sc.family, tie_C06_interfaces=sc.nif,
                  tie_C06_outcomes=f"forward {KIND.get(kinds[0], 'other')} / reverse {KIND.get(kinds[1], 'other')}",
                  tie_C06_outcome_class=info["arim"]["outcome_class"] + (" (nan angle or leg read from the object: nan virtual distance)"
                                                                         if info["arim"]["nan_read"] and info["arim"]["outcome_class"] == "NaN" else ""))
    bad = chk.coq_failing("tie_C06", COQ_IMPORTS, CASE_TYPE, lits, "check_case", shard=60, jobs=8)
    if bad:
        # which observables disagree, and the model's answers, for the first disagreeing cases; one report per
        # (observables, scene family), at most 12 reports
        shown = bad[:40]
        raw = chk.coq_values("tie_C06_diag", COQ_IMPORTS + "Definition cs : list caseT := [\n" + ";\n".join(lits[b] for b in shown) + "].\n",
                             ["map mask cs"] + [f"option_map answers (nth_error cs (Z.to_nat {cZ(k)}))" for k in range(len(shown))])
        chunks = re.split(r"^\s*= ", raw, flags=re.M)[1:]
        masks = chk.parse_Z_list("= " + chunks[0])[0]
        seen, emitted = set(), 0
        for pos, (b, mk) in enumerate(zip(shown, masks)):
            obs = [k for k in range(6) if (mk >> k) & 1]
            key = f"tie:{'+'.join(OBS[k] for k in obs) or 'case'}:{infos[b]['family'].split('=')[0]}"
            if key in seen or emitted >= 12:
                continue
            seen.add(key)
            emitted += 1
            chk.violation(key,
                          f"tie C06: the model of the path-level beamspread and arim disagree on {', '.join(OBS[k] for k in obs)} "
                          f"(scene family {infos[b]['family']}; {len(bad)} of {len(lits)} cases disagree in this run)",
                          dict(infos[b], disagreeing_observables=[OBS[k] for k in obs],
                               correspondence="; ".join(CORR[k] for k in obs) or CORR[1],
                               model_answers=("kinds: 0 Val, 1 NoLeg, 2 IndexErr, 3 ValueErr; order: n, forward, reverse, legs, thetas, "
                                              "outcome class (0 Finite, 1 PlusInf, 2 NaN, 3 MinusInf, -1 not compared): "
                                              + " ".join(chunks[1 + pos].split())[:4000]),
                               case_number=b, disagreeing_case_numbers=bad[:200], coq_case=lits[b][:20000]),
                          failing_input_found=False)

    # ---- unit ties --------------------------------------------------------------------------------------------
    ulits, uinfo = [], []
    g = arim.geometry
    for _ in range(40 * scale):
        L = int(rng.integers(1, 6))
        vel = [float(rng.choice(DYAD)) for _ in range(L)]
        seq = []
        for k in range(L + 1):
            seq.append(g.Points(np.zeros((1, 3))))
            if k < L:
                seq.append(vel[k])
        fp = arim.ray.FermatPath(tuple(seq))
        idx = int(rng.integers(-L - 2, L + 2))
        k_, v_, t_ = _call(lambda: float(fp.velocities[idx]))
        ulits.append(f"({cZ(0)}, {clist(vel, cfloat)}, {clist([idx], cZ)}, {_outc(k_, [v_] if k_ == 0 else [])}, [])")
        uinfo.append(dict(correspondence="Model.BeamspreadPath.vel_at vs FermatPath(...).velocities[idx]", velocities=vel, idx=idx,
                          arim=[KIND.get(k_, "other exception"), v_, t_]))
        chk.count(tie_C06="unit:vel_at " + ("negative index" if idx < 0 else "index >= 0") + (" out of range" if k_ else ""))
    for nn in list(range(-3, 9)) + [int(x) for x in rng.integers(-5, 40, size=4 * scale)]:
        ulits.append(f"({cZ(1)}, [], {clist([nn], cZ)}, {_outc(0, [])}, {clist(list(range(1, nn)), cZ)})")
        uinfo.append(dict(correspondence="Model.BeamspreadPath.range1 vs list(range(1, n))", n=nn, python=list(range(1, nn))))
        chk.count(tie_C06="unit:range1")
    ds = [0.0, -0.0, math.nan, 4.0, -1.0, 0.25, math.inf, -math.inf, 5e-324, -5e-324, 1e308, -1e308, 21.0, 5.25] + \
         [float(rng.integers(-64, 65)) / float(rng.choice([1, 2, 4, 16, 1024])) for _ in range(20 * scale)] + \
         [float(rng.choice([0.0, -0.0, math.nan, math.inf, -math.inf])) for _ in range(4 * scale)]
    for d in ds:
        with np.errstate(all="ignore"):
            v = float(np.reciprocal(np.sqrt(np.array([[d]])))[0, 0])
        eo = _fclass(v)
        ulits.append(f"({cZ(2)}, {clist([d], cfloat)}, [], {_outc(*eo)}, [])")
        uinfo.append(dict(correspondence="Model.BeamspreadPath.recip_sqrt_outcome NumF vs np.reciprocal(np.sqrt(d))", d=d, numpy=v))
        chk.count(tie_C06="unit:recip_sqrt_outcome " + ["finite", "+inf", "nan", "-inf"][eo[0]]
                  + (" (d = nan)" if d != d else " (d = -0.0)" if d == 0.0 and math.copysign(1.0, d) < 0 else ""))
    ubad = chk.coq_failing("tie_C06_unit", COQ_IMPORTS, "unitT", ulits, "check_unit", shard=400, jobs=4)
    for b in ubad[:10]:
        name = uinfo[b]["correspondence"].split(" vs ")[0].split(".")[-1].split(" ")[0]
        chk.violation(f"tie:{name}", f"tie C06: {uinfo[b]['correspondence']} disagree", dict(uinfo[b], coq_case=ulits[b]),
                      failing_input_found=False)
    chk.cov["tie_C06"] = {"path_cases": len(lits), "unit_cases": len(ulits), "disagreements": len(bad) + len(ubad),
                          "observables_per_path_case": OBS}
    return len(lits) * 6 + len(ulits)
