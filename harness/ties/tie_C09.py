"""Tie of the NEW C09 model (coq/theories/Model/ScatGlue.v) to the real library, on every run of the check.

Every comparison evaluates the model INSIDE coqc (vm_compute) on the very inputs handed to the real library; the library's
answer is passed along as a literal and compared there: shapes, keys and their order, error kinds and their order, flags,
None exactly; binary64 values with PrimFloat.eqb (bit for bit up to the sign of zero, both-NaN agreeing).  Numeric instance
of the executions: NumFpi = Base.NumF with npi := the binary64 pi (defined in the generated file).

The crack is executed with ORACLE kernels: `Kf f` = the four kernels at frequency f, realised as a table of the library's
own scalar calls crack_2d_scat(a, b, f, ...) over a pool of angles (the table is built at run time and written in the
generated file; an angle outside the pool answers NaN and never agrees).  The model's arrays are then genuine complex
arrays, compared with the library's arrays within 1e-12 (observed difference: 0).  What is tied is therefore the glue: which
pair of angles / which kernel / which frequency every entry is computed from, the drivers, the reshapes, the flag.

Streams (key of the violation in brackets):

  [lowlevel]  bshape, bidx, nd_read, ravel, unravel, atleast_2d, nd_reshape, nd_map2, nd_broadcast_to, nd_vector
                                                  vs numpy (broadcast_shapes, broadcast_to, ravel_multi_index, unravel_index,
                                                     atleast_2d, reshape, a - b)
  [grid]      make_angles, make_angles_grid       vs arim.scat.make_angles / make_angles_grid (every entry, bit for bit)
  [sdh]       sdh_2d_scat_nd / sdh_obj_call (error kind and order, keys in order, shapes), sdh_maxn / sdh_obj_maxn,
              sdh_alpha, sdh_beta, nd_map2 nsub + pi + nd_outer_arange (the array handed to cos/sin, sampled entries)
                                                  vs arim.scat.sdh_2d_scat / SdhScat(...)(...) with spies on arim.scat.cos and
                                                     arim.scat.hankel1 (arguments recorded, originals called)
  [intangle]  sdh_phi_typed (ang, ang_sub)        vs the same spy, integer-typed / float-typed angles
  [point]     point_obj_call / point_scat_nd      vs PointSourceScat(vL, vT)(inc, out, f[, to_compute]) (all values)
  [crack]     crack_2d_scat_nd, crack_obj_call    vs arim.scat.crack_2d_scat(..., assume_safe_for_opt=, to_compute=) and
                                                     CrackCentreScat(...)(...) with the flag False / set to True,
                                                     incl. the IndexError of inc_theta[0] (optimised driver, no row)
  [history]   crack_step / crack_run / crack_init_flag / res_ok over histories of public calls on ONE CrackCentreScat
              (plain calls incl. raising ones, as_single_freq_matrices, as_multi_freq_matrices), the flag after every step
                                                  vs the object's results and _in_matrix_calculation after every step;
              histories WITH matrix requests that raise (invalid key, numangles = 0) included: the library resets the
              flag in a `finally` (/repo 3989d85) and so does the model's with_matrix_flag
  [wrapper]   partial_one_scat_key, as_angles_funcs, as_freq_angles_funcs (four call spellings, TypeError, KeyError)
                                                  vs obj.as_angles_funcs(f)[k], obj.as_freq_angles_funcs()[k],
                                                     arim.scat._partial_one_scat_key(obj, k[, frequency=f]) on the three objects
  [matrices]  as_single_freq_matrices, as_multi_freq_matrices (base class: multi_check, multi_loop, stack_slabs)
                                                  vs the methods of PointSourceScat (all values) and SdhScat (errors, keys, shapes)
"""
import math
from concurrent.futures import ThreadPoolExecutor

import numpy as np

from common import cZ, cfloat, clist, cpair, cbool, copt, cstr

KEYS = ("LL", "LT", "TL", "TT")
PI = float(np.pi)
TOL = 1e-12
CORR = {
    "lowlevel": "bshape / bidx / nd_read / ravel / unravel / atleast_2d / nd_reshape / nd_map2 / nd_broadcast_to / nd_vector vs numpy",
    "grid": "make_angles, make_angles_grid (NumF, pi = binary64) vs arim.scat.make_angles, make_angles_grid",
    "sdh": "sdh_2d_scat_nd / sdh_obj_call, sdh_maxn, sdh_alpha, sdh_beta, nd_outer_arange vs arim.scat.sdh_2d_scat / SdhScat.__call__",
    "intangle": "sdh_phi_typed vs the argument of cos in arim.scat.sdh_2d_scat on integer-typed angles",
    "point": "point_obj_call vs arim.scat.PointSourceScat.__call__",
    "crack": "crack_2d_scat_nd / crack_obj_call (oracle kernels = the library's scalar calls) vs arim.scat.crack_2d_scat / CrackCentreScat.__call__",
    "history": "crack_step / crack_run (any history, raising matrix requests included) vs CrackCentreScat: results and _in_matrix_calculation",
    "wrapper": "partial_one_scat_key / as_angles_funcs / as_freq_angles_funcs vs Scattering2d.as_angles_funcs / as_freq_angles_funcs / _partial_one_scat_key",
    "matrices": "as_single_freq_matrices / as_multi_freq_matrices vs Scattering2d.as_single_freq_matrices / as_multi_freq_matrices",
}

PRE = r"""From Coq Require Import ZArith List Bool String PrimFloat.
From Arim Require Import Base.Num Base.NumF Base.ListX Model.Scat Model.ScatMatrix Model.ScatGlue.
Import ListNotations.
Local Open Scope Z_scope.
Definition PIF : float := 0x1.921fb54442d18p+1%float.
Definition NumFpi : Num float := {|
  n0 := n0 NumF; n1 := n1 NumF; nadd := nadd NumF; nsub := nsub NumF; nmul := nmul NumF; ndiv := ndiv NumF;
  nopp := nopp NumF; nsqrt := nsqrt NumF; nsin := nsin NumF; ncos := ncos NumF; nasin := nasin NumF;
  nacos := nacos NumF; natan2 := natan2 NumF; nexp := nexp NumF; nln := nln NumF; npi := PIF;
  nltb := nltb NumF; nleb := nleb NumF; neqb := neqb NumF; nofZ := nofZ NumF;
  nfloor := nfloor NumF; ntrunc := ntrunc NumF; nround := nround NumF |}.
Definition fnan_b (a : float) : bool := negb (PrimFloat.eqb a a).
Definition feq (a b : float) : bool := PrimFloat.eqb a b || (fnan_b a && fnan_b b).
Definition cplx := (float * float)%type.
Definition ceq (a b : cplx) : bool := feq (fst a) (fst b) && feq (snd a) (snd b).
Definition fnear (tol a b : float) : bool := PrimFloat.leb (PrimFloat.abs (PrimFloat.sub a b)) tol.
Definition cnear (tol : float) (a b : cplx) : bool := fnear tol (fst a) (fst b) && fnear tol (snd a) (snd b).
Definition rc_eq (a : float) (b : cplx) : bool := feq a (fst b) && feq PrimFloat.zero (snd b).
Fixpoint all2 {A B} (f : A -> B -> bool) (l : list A) (m : list B) : bool :=
  match l, m with [] , [] => true | x :: l', y :: m' => f x y && all2 f l' m' | _, _ => false end.
Definition shp (l : list Z) : list nat := map Z.to_nat l.
Definition zl (l : list nat) : list Z := map Z.of_nat l.
(* C-order position of a multi-index and the list of all multi-indices in C order (the tie's own, independent of the
   model's ravel / unravel) *)
Fixpoint posn (s idx : list nat) (acc : nat) : nat :=
  match s, idx with d :: s', i :: idx' => posn s' idx' (acc * d + i)%nat | _, _ => acc end.
Fixpoint indices (s : list nat) : list (list nat) :=
  match s with [] => [[]] | d :: s' => flat_map (fun i => map (cons i) (indices s')) (seq 0 d) end.
Definition flat {A} (a : nd A) : list A := map (nd_at a) (indices (nd_shape a)).
Definition arrE := (list Z * list float)%type.
Definition mkA (p : arrE) : nd float :=
  let s := shp (fst p) in mkNd s (fun idx => nth (posn s idx 0) (snd p) PrimFloat.nan).
Definition mkZ (s : list Z) (v : list Z) : nd Z := let s' := shp s in mkNd s' (fun idx => nth (posn s' idx 0) v (-777)).
Definition arangeZ (s : list Z) : nd Z := let s' := shp s in mkNd s' (fun idx => Z.of_nat (posn s' idx 0)).
Definition ndZ (a : nd Z) : list Z := Z.of_nat (List.length (nd_shape a)) :: zl (nd_shape a) ++ flat a.
Definition ecode := (Z * string)%type.
Definition err_is (e : scat_err) (c : ecode) : bool :=
  match e with
  | EBroadcast => fst c =? 1 | EToCompute => fst c =? 2 | EEmptyModes => fst c =? 3 | ENotImplemented => fst c =? 4
  | EKeyError k => (fst c =? 5) && (String.eqb (snd c) "*" || String.eqb k (snd c))
  | ETypeError => fst c =? 6
  end.
Definition err_show (e : scat_err) : ecode :=
  match e with
  | EBroadcast => (1, "ValueError broadcast") | EToCompute => (2, "ValueError to_compute") | EEmptyModes => (3, "IndexError")
  | ENotImplemented => (4, "NotImplementedError") | EKeyError k => (5, k) | ETypeError => (6, "TypeError frequency")
  end%string.
Definition edict (W : Type) := list (string * (list Z * list W)).
Definition dict_eq {V W} (eqv : V -> W -> bool) (vals : bool) (d : dict (nd V)) (ex : edict W) : bool :=
  all2 (fun kv e => String.eqb (fst kv) (fst e) && list_eqb Z.eqb (zl (nd_shape (snd kv))) (fst (snd e))
                    && (negb vals || all2 eqv (flat (snd kv)) (snd (snd e)))) d ex.
Definition chk_dict {V W} (eqv : V -> W -> bool) (vals : bool) (r : scat_err + dict (nd V)) (e : ecode) (ex : edict W) : bool :=
  match r with inl err => err_is err e | inr d => (fst e =? 0) && dict_eq eqv vals d ex end.
Definition show_dict {V} (r : scat_err + dict (nd V)) : ecode + list (string * (list Z * list V)) :=
  match r with inl e => inl (err_show e) | inr d => inr (map (fun kv => (fst kv, (zl (nd_shape (snd kv)), flat (snd kv)))) d) end.
Fixpoint dedup {V} (seen : list string) (d : dict V) : dict V :=
  match d with
  | [] => []
  | (k, v) :: r => if existsb (String.eqb k) seen then dedup seen r else (k, v) :: dedup (k :: seen) r
  end.
Definition h0 : Z -> float -> cplx := fun _ _ => (PrimFloat.zero, PrimFloat.zero).

(* ---- lowlevel *)
Definition caseL := (Z * list Z * list Z * list Z * (Z * list Z))%type.
Definition modL (c : caseL) : Z * list Z :=
  let '(tag, a, b, v, _) := c in
  match tag with
  | 0 => match bshape (shp a) (shp b) with Some s => (0, zl s) | None => (1, []) end
  | 1 => (0, zl (bidx (shp a) (shp b)))
  | 2 => (0, [Z.of_nat (ravel (shp a) (shp b))])
  | 3 => (0, zl (unravel (shp a) (Z.to_nat (hd 0 b))))
  | 4 => (0, ndZ (atleast_2d (arangeZ a)))
  | 5 => (0, ndZ (nd_reshape (shp b) (arangeZ a)))
  | 6 => let na := Z.to_nat (fold_right Z.mul 1 a) in
         match nd_map2 Z.sub (mkZ a (firstn na v)) (mkZ b (skipn na v)) with Some r => (0, ndZ r) | None => (1, []) end
  | 7 => (0, ndZ (nd_broadcast_to (shp b) (arangeZ a)))
  | 8 => (0, ndZ (nd_vector (-777) v))
  | _ => (0, [nd_read (arangeZ a) (shp b)])
  end.
Definition chkL (c : caseL) : bool :=
  let '(_, _, _, _, (code, ex)) := c in let '(mc, ml) := modL c in (mc =? code) && list_eqb Z.eqb ml ex.

(* ---- grids *)
Definition caseG := (Z * list float * list float * list float)%type.
Definition modG (c : caseG) :=
  let '(n, _, _, _) := c in
  let a := make_angles NumFpi (Z.to_nat n) in let g := make_angles_grid NumFpi (Z.to_nat n) in
  ((zl (nd_shape a), flat a), (zl (nd_shape (fst g)), flat (fst g)), (zl (nd_shape (snd g)), flat (snd g))).
Definition chkG (c : caseG) : bool :=
  let '(n, ea, ei, eo) := c in let '((sa, va), (si, vi), (so, vo)) := modG c in
  list_eqb Z.eqb sa [n] && list_eqb Z.eqb si [n; n] && list_eqb Z.eqb so [n; n]
  && all2 feq va ea && all2 feq vi ei && all2 feq vo eo.

(* ---- sdh_2d_scat on arrays *)
Definition caseS := (bool * arrE * arrE * list float * list Z * list string * ecode * edict unit
                     * (list Z * list (list Z * float)) * (bool * list float))%type.
Definition fdedup (l : list float) : list float :=
  match l with [a; b] => if feq a b then [a] else l | _ => l end.
Definition modS_call (c : caseS) : scat_err + dict (nd cplx) :=
  let '(viaobj, inc, out, p, z, tc, _, _, _, _) := c in
  let f := nth 0 p PrimFloat.nan in let r := nth 1 p PrimFloat.nan in
  let vL := nth 2 p PrimFloat.nan in let vT := nth 3 p PrimFloat.nan in
  let mt := nth 0 z 0 in let tf := nth 1 z 0 in
  if viaobj then sdh_obj_call NumFpi h0 h0 (mkSdhKw r vL vT mt tf) (mkA inc) (mkA out) f tc
  else sdh_2d_scat_nd NumFpi h0 h0 (mkA inc) (mkA out) f r vL vT mt tf tc.
Definition modS_maxn (c : caseS) : Z :=
  let '(viaobj, _, _, p, z, _, _, _, _, _) := c in
  let f := nth 0 p PrimFloat.nan in let r := nth 1 p PrimFloat.nan in
  let vL := nth 2 p PrimFloat.nan in let vT := nth 3 p PrimFloat.nan in
  if viaobj then sdh_obj_maxn NumFpi (mkSdhKw r vL vT (nth 0 z 0) (nth 1 z 0)) f
  else sdh_maxn NumFpi f r vL vT (nth 0 z 0) (nth 1 z 0).
Definition modS_x (c : caseS) : list float :=
  let '(_, _, _, p, _, _, _, _, _, _) := c in
  let f := nth 0 p PrimFloat.nan in let r := nth 1 p PrimFloat.nan in
  fdedup [sdh_alpha NumFpi f r (nth 2 p PrimFloat.nan); sdh_beta NumFpi f r (nth 3 p PrimFloat.nan)].
(* the array handed to cos / sin: n_phi = einsum('...,j->...j', (out - inc) + pi, arange(0, maxn + 1)) *)
Definition modS_nphi (c : caseS) : option (nd float) :=
  let '(_, inc, out, _, _, _, _, _, _, _) := c in
  match nd_map2 (nsub NumFpi) (mkA out) (mkA inc) with
  | None => None
  | Some theta => Some (nd_outer_arange NumFpi (nd_map (fun t => nadd NumFpi t (npi NumFpi)) theta)
                                        (S (Z.to_nat (modS_maxn c))))
  end.
Definition chkS (c : caseS) : bool :=
  let '(_, _, _, _, _, _, e, ex, (nshape, samples), (spied, xs)) := c in
  match modS_call c with
  | inl err => err_is err e
  | inr d => (fst e =? 0) && dict_eq (fun (_ : cplx) (_ : unit) => true) false d ex
             && (negb spied ||
                 match modS_nphi c with
                 | None => false
                 | Some np => list_eqb Z.eqb (zl (nd_shape np)) nshape
                              && forallb (fun s => feq (nd_at np (shp (fst s))) (snd s)) samples
                              && all2 feq (modS_x c) xs
                 end)
  end.
Definition showS (c : caseS) :=
  (match modS_call c with inl e => inl (err_show e) | inr d => inr (map (fun kv => (fst kv, zl (nd_shape (snd kv)))) d) end,
   modS_maxn c, modS_x c,
   match modS_nphi c with None => None | Some np =>
     let '(_, _, _, _, _, _, _, _, (_, samples), _) := c in
     Some (zl (nd_shape np), map (fun s => nd_at np (shp (fst s))) samples) end).

(* ---- integer-typed angles *)
Definition angE := (bool * Z * float)%type.
Definition mkang (a : angE) : ang (T:=float) := let '(isint, z, x) := a in if isint then AInt z else AFloat x.
Definition caseA := (angE * angE * float)%type.
Definition modA (c : caseA) : float := let '(i, o, _) := c in sdh_phi_typed NumFpi (mkang i) (mkang o).
Definition chkA (c : caseA) : bool := let '(_, _, phi) := c in feq (modA c) phi.

(* ---- point source *)
Definition caseP := (arrE * arrE * list float * list string * ecode * edict float)%type.
Definition modP (c : caseP) : scat_err + dict (nd float) :=
  let '(inc, out, p, tc, _, _) := c in
  point_obj_call NumFpi (nth 0 p PrimFloat.nan) (nth 1 p PrimFloat.nan) (mkA inc) (mkA out) (nth 2 p PrimFloat.nan) tc.
Definition chkP (c : caseP) : bool := let '(_, _, _, _, e, ex) := c in chk_dict feq true (modP c) e ex.
"""

# the part of the preamble that needs the oracle table of the crack kernels (appended at run time)
PRE_CRACK = r"""
Definition np_pool : nat := List.length pool.
Fixpoint fpos (x : float) (l : list float) : nat :=
  match l with [] => O | y :: r => if PrimFloat.eqb x y then O else S (fpos x r) end.
Definition cnan : cplx := (PrimFloat.nan, PrimFloat.nan).
Definition kern (fi k : nat) (a b : float) : cplx :=
  let ia := fpos a pool in let ib := fpos b pool in
  if (Nat.ltb fi (List.length fpool) && Nat.ltb ia np_pool && Nat.ltb ib np_pool)%bool
  then nth k (nth ((fi * np_pool + ia) * np_pool + ib)%nat tbl []) cnan else cnan.
(* the four kernels at one frequency = the library's own scalar calls *)
Definition Kf (f : float) : crack_kernels (T:=float) :=
  let fi := fpos f fpool in mkKern (kern fi 0) (kern fi 1) (kern fi 2) (kern fi 3).

(* ---- crack_2d_scat on arrays; via: 0 the function, 1 the object (flag as given) *)
Definition caseC := (Z * arrE * arrE * float * bool * list string * ecode * edict cplx * float)%type.
Definition modC (c : caseC) : scat_err + dict (nd cplx) :=
  let '(via, inc, out, f, safe, tc, _, _, _) := c in
  match via with
  | 0 => crack_2d_scat_nd NumFpi (Kf f) (mkA inc) (mkA out) safe tc
  | _ => crack_obj_call NumFpi Kf safe (mkA inc) (mkA out) f tc
  end.
Definition chkC (c : caseC) : bool := let '(_, _, _, _, _, _, e, ex, tol) := c in chk_dict (cnear tol) true (modC c) e ex.

(* ---- histories on one CrackCentreScat *)
Definition opE := (Z * (arrE * arrE) * list float * Z * list string)%type.
Definition mkop (o : opE) : crack_op (T:=float) :=
  let '(tag, io, fs, n, tc) := o in
  match tag with
  | 0 => OpCall (mkA (fst io)) (mkA (snd io)) (hd PrimFloat.nan fs) tc
  | 1 => OpSingle (hd PrimFloat.nan fs) (Z.to_nat n) tc
  | _ => OpMulti fs (Z.to_nat n) tc
  end.
Definition stepE := (ecode * bool * Z * edict cplx)%type.
Definition res_chk (tol : float) (r : crack_res (T:=float)) (e : ecode) (kind : Z) (vals : edict cplx) : bool :=
  match r with
  | RDict r' => chk_dict (cnear tol) true r' e vals
  | RMulti (inl err) => err_is err e
  | RMulti (inr None) => (fst e =? 0) && (kind =? 1)
  | RMulti (inr (Some D)) => (fst e =? 0) && (kind =? 0) && dict_eq (cnear tol) true (dedup [] D) vals
  end.
Fixpoint run_chk (tol : float) (flag : bool) (ops : list opE) (ex : list stepE) : bool :=
  match ops, ex with
  | [], [] => true
  | o :: ops', (e, fl, kind, vals) :: ex' =>
      let '(r, fl') := crack_step NumFpi Kf flag (mkop o) in
      Bool.eqb fl fl' && Bool.eqb (res_ok r) (fst e =? 0) && res_chk tol r e kind vals && run_chk tol fl' ops' ex'
  | _, _ => false
  end.
Definition caseH := (bool * list opE * list stepE * float)%type.
Definition chkH (c : caseH) : bool :=
  let '(flag0, ops, ex, tol) := c in
  Bool.eqb flag0 crack_init_flag && run_chk tol crack_init_flag ops ex
  && (let '(rs, fl) := crack_run NumFpi Kf crack_init_flag (map mkop ops) in
      Bool.eqb fl (last (map (fun s => snd (fst (fst s))) ex) crack_init_flag)
      && list_eqb Bool.eqb (map (@res_ok float) rs) (map (fun s => fst (fst (fst (fst s))) =? 0) ex)).
Definition show_res (r : crack_res (T:=float)) :=
  match r with
  | RDict r' => (0, show_dict r')
  | RMulti (inl e) => (2, inl (err_show e))
  | RMulti (inr None) => (1, inr [])
  | RMulti (inr (Some D)) => (2, show_dict (inr (dedup [] D)))
  end.
Fixpoint showH_aux (flag : bool) (ops : list opE) :=
  match ops with
  | [] => []
  | o :: ops' => let '(r, fl') := crack_step NumFpi Kf flag (mkop o) in (fl', show_res r) :: showH_aux fl' ops'
  end.
Definition showH (c : caseH) := let '(_, ops, _, _) := c in (crack_init_flag, showH_aux crack_init_flag ops).

(* ---- the frequency-binding wrappers.  obj: 0 point source [vL; vT], 1 crack, 2 hole [radius; vL; vT] (mt, tf) *)
Definition argE := (Z * arrE * arrE * option float * option float)%type.
Definition mkargs (a : argE) : pyargs float :=
  let '(tag, inc, out, fr, kw) := a in
  match tag with
  | 2 => Args2 (mkA inc) (mkA out) kw
  | _ => Args3 (mkA inc) (mkA out) (match fr with Some f => f | None => PrimFloat.nan end) kw
  end.
(* route: 0 _partial_one_scat_key directly, 1 through the dict of as_angles_funcs / as_freq_angles_funcs *)
Definition caseW := (Z * list float * list Z * Z * string * option float * argE * ecode * (list Z * list cplx))%type.
Definition via_dict {V} (self : scat_obj float V) (route : Z) (key : string) (bound : option float) (a : pyargs float)
  : scat_err + nd V :=
  match route with
  | 0 => partial_one_scat_key self key bound a
  | _ => match lookup key (match bound with Some f => as_angles_funcs self f | None => as_freq_angles_funcs self end) with
         | Some fn => fn a
         | None => inl (EKeyError "not a key of the returned dict")
         end
  end.
Definition chk_arr {V} (eqv : V -> cplx -> bool) (vals : bool) (r : scat_err + nd V) (e : ecode) (ex : list Z * list cplx) : bool :=
  match r with
  | inl err => err_is err e
  | inr a => (fst e =? 0) && list_eqb Z.eqb (zl (nd_shape a)) (fst ex) && (negb vals || all2 eqv (flat a) (snd ex))
  end.
Definition show_arr {V} (r : scat_err + nd V) := match r with inl e => inl (err_show e) | inr a => inr (zl (nd_shape a), flat a) end.
Definition selfP (p : list float) := point_obj_call NumFpi (nth 0 p PrimFloat.nan) (nth 1 p PrimFloat.nan).
Definition selfS (p : list float) (z : list Z) :=
  sdh_obj_call NumFpi h0 h0 (mkSdhKw (nth 0 p PrimFloat.nan) (nth 1 p PrimFloat.nan) (nth 2 p PrimFloat.nan) (nth 0 z 0) (nth 1 z 0)).
Definition chkW (c : caseW) : bool :=
  let '(obj, p, z, route, key, bound, a, e, ex) := c in
  match obj with
  | 0 => chk_arr rc_eq true (via_dict (selfP p) route key bound (mkargs a)) e ex
  | 1 => chk_arr (cnear (nth 0 p PrimFloat.nan)) true (via_dict (crack_obj_call NumFpi Kf false) route key bound (mkargs a)) e ex
  | _ => chk_arr (fun (_ _ : cplx) => true) false (via_dict (selfS p z) route key bound (mkargs a)) e ex
  end.
Definition showW (c : caseW) :=
  let '(obj, p, z, route, key, bound, a, e, ex) := c in
  match obj with
  | 0 => inl (show_arr (via_dict (selfP p) route key bound (mkargs a)))
  | 1 => inr (show_arr (via_dict (crack_obj_call NumFpi Kf false) route key bound (mkargs a)))
  | _ => inr (match via_dict (selfS p z) route key bound (mkargs a) with inl e => inl (err_show e) | inr a => inr (zl (nd_shape a), []) end)
  end.
(* the keys of the returned dicts (sorted on the library side) *)
Definition caseK := (option float * list string)%type.
Definition chkK (c : caseK) : bool :=
  let '(bound, ks) := c in
  let self := selfP [PrimFloat.one; PrimFloat.one] in
  list_eqb String.eqb ks (map fst (match bound with Some f => as_angles_funcs self f | None => as_freq_angles_funcs self end)).

(* ---- base-class matrices.  obj 0 point source, 2 hole; single: frequencies = [f] *)
Definition caseM := (Z * list float * list Z * bool * list float * Z * list string * ecode * Z * edict cplx)%type.
Definition res_multi {V} (r : scat_err + option (dict (nd V))) : scat_err + (Z * dict (nd V)) :=
  match r with inl e => inl e | inr None => inr (1, []) | inr (Some D) => inr (0, dedup [] D) end.
Definition chk_multi {V} (eqv : V -> cplx -> bool) (vals : bool) (r : scat_err + (Z * dict (nd V))) (e : ecode) (kind : Z)
           (ex : edict cplx) : bool :=
  match r with
  | inl err => err_is err e
  | inr (k, d) => (fst e =? 0) && (k =? kind) && dict_eq eqv vals d ex
  end.
Definition modM_P (c : caseM) : scat_err + (Z * dict (nd float)) :=
  let '(obj, p, z, single, fs, n, tc, _, _, _) := c in
  if single then match as_single_freq_matrices NumFpi (selfP p) (hd PrimFloat.nan fs) (Z.to_nat n) tc with
                 | inl e => inl e | inr d => inr (0, d) end
  else res_multi (as_multi_freq_matrices NumFpi PrimFloat.zero (selfP p) fs (Z.to_nat n) tc).
Definition modM_S (c : caseM) : scat_err + (Z * dict (nd cplx)) :=
  let '(obj, p, z, single, fs, n, tc, _, _, _) := c in
  if single then match as_single_freq_matrices NumFpi (selfS p z) (hd PrimFloat.nan fs) (Z.to_nat n) tc with
                 | inl e => inl e | inr d => inr (0, d) end
  else res_multi (as_multi_freq_matrices NumFpi (PrimFloat.zero, PrimFloat.zero) (selfS p z) fs (Z.to_nat n) tc).
Definition chkM (c : caseM) : bool :=
  let '(obj, _, _, _, _, _, _, e, kind, ex) := c in
  match obj with
  | 0 => chk_multi rc_eq true (modM_P c) e kind ex
  | _ => chk_multi (fun (_ _ : cplx) => true) false (modM_S c) e kind ex
  end.
Definition showM (c : caseM) :=
  let '(obj, _, _, _, _, _, _, _, _, _) := c in
  match obj with
  | 0 => inl (match modM_P c with inl e => inl (err_show e) | inr (k, d) => inr (k, show_dict (inr d)) end)
  | _ => inr (match modM_S c with inl e => inl (err_show e)
                               | inr (k, d) => inr (k, map (fun kv => (fst kv, zl (nd_shape (snd kv)))) d) end)
  end.
"""


# ------------------------------------------------------------------------------------------------------------------
# encoders
# ------------------------------------------------------------------------------------------------------------------
def c_arr(a):
    """an angle argument (Python scalar / 0-d / n-d array) as (shape, flat values in C order)"""
    a = np.asarray(a, dtype=float)
    return cpair(clist(a.shape, cZ), clist([float(x) for x in a.reshape(-1)], cfloat))


def c_cplx(z):
    z = complex(z)
    return cpair(cfloat(z.real), cfloat(z.imag))


def c_ecode(e):
    return cpair(cZ(e[0]), cstr(e[1]))


def c_edict(items, conv):
    """[(key, array)] -> edict; conv None: shapes only"""
    out = []
    for k, v in items:
        v = np.asarray(v)
        vals = "[]" if conv is None else clist([x for x in v.reshape(-1)], conv)
        out.append(cpair(cstr(k), cpair(clist(v.shape, cZ), vals)))
    return clist(out)


def classify(exc, any_key=False):
    """exception of the library -> (code, key) as err_is reads it"""
    msg = str(exc)
    if isinstance(exc, ValueError) and "to_compute" in msg:
        return (2, "")
    if isinstance(exc, ValueError) and "broadcast" in msg:
        return (1, "")
    if isinstance(exc, IndexError):
        return (3, "")
    if isinstance(exc, NotImplementedError):
        return (4, "")
    if isinstance(exc, KeyError):
        k = exc.args[0] if exc.args else ""
        ok = isinstance(k, str) and all(32 <= ord(ch) < 127 for ch in k)
        return (5, "*" if any_key or not ok else k)
    if isinstance(exc, TypeError) and "frequency" in msg:
        return (6, "")
    return (90, "unexpected " + "".join(ch for ch in f"{type(exc).__name__}: {msg}"[:60] if 32 <= ord(ch) < 127 and ch != '"'))


def attempt(fn, any_key=False):
    try:
        return (0, ""), fn()
    except Exception as exc:  # noqa: BLE001  (the kind of exception is the observable)
        return classify(exc, any_key), None


# ------------------------------------------------------------------------------------------------------------------
# generators
# ------------------------------------------------------------------------------------------------------------------
def gen_tc(rng, valid=True, allow_default=True, allow_str=False):
    """(python value or None = argument absent, list handed to the model, is_unordered)"""
    r = rng.integers(0, 10)
    if valid:
        if allow_default and r == 0:
            return None, list(KEYS), True        # the default is the frozenset SCAT_KEYS (a set for crack_2d_scat)
        m = int(rng.integers(0, 5)) if rng.random() < 0.8 else int(rng.integers(5, 8))
        ks = [KEYS[int(i)] for i in rng.integers(0, 4, size=m)] if m > 4 else [KEYS[int(i)] for i in rng.permutation(4)[:m]]
    else:
        bad = ["XX", "ll", "L", "", "LLT", "TT "][int(rng.integers(0, 6))]
        ks = [KEYS[int(i)] for i in rng.permutation(4)[:int(rng.integers(0, 4))]]
        ks.insert(int(rng.integers(0, len(ks) + 1)), bad)
        if allow_str and r == 1:
            s = ["LL", "LT", "TLX"][int(rng.integers(0, 3))]
            return s, list(s), False        # a str: iterated / tested character by character
    form = int(rng.integers(0, 4))
    if form == 0:
        return list(ks), list(ks), False
    if form == 1:
        return tuple(ks), list(ks), False
    # a set: the list handed to the model is sorted; where the order of iteration over to_compute shows in the result
    # (the dict of as_multi_freq_matrices) the library's dict is compared as a mapping (sorted by key as well)
    s = set(ks) if form == 2 else frozenset(ks)
    return s, sorted(s), True


def gen_shapes(rng, maxdim=3, compatible=True, zero_ok=False):
    nd_ = int(rng.integers(0, maxdim + 1))
    sizes = [1, 2, 3, 2, 3, 4] + ([0] if zero_ok and rng.random() < 0.3 else [])
    res = [int(sizes[int(rng.integers(0, len(sizes)))]) for _ in range(nd_)]

    def operand():
        k = int(rng.integers(0, nd_ + 1)) if rng.random() < 0.6 else nd_
        s = res[nd_ - k:]
        return [1 if rng.random() < 0.3 else d for d in s]
    a, b = operand(), operand()
    if rng.random() < 0.5:
        a, b = b, a
    if not compatible:
        # make one common axis clash
        na, nb = len(a), len(b)
        m = min(na, nb)
        if m == 0:
            a, b = a + [2], b + [3]
        else:
            ax = int(rng.integers(1, m + 1))
            a[na - ax], b[nb - ax] = (2, 3) if rng.random() < 0.5 else (4, 2)
    return a, b


def as_arg(rng, vals, shape):
    """the values as the argument handed to the library: Python float / numpy scalar / 0-d array for shape (), C or Fortran
    ordered or a non-contiguous view otherwise"""
    a = np.array(vals, dtype=float).reshape(shape)
    if a.ndim == 0:
        r = int(rng.integers(0, 3))
        return float(a) if r == 0 else (np.float64(a) if r == 1 else a)
    r = int(rng.integers(0, 5))
    if r == 0:
        return np.asfortranarray(a)
    if r == 1 and a.ndim >= 1 and a.shape[-1] >= 1:
        big = np.zeros(a.shape[:-1] + (2 * a.shape[-1],))
        big[..., ::2] = a
        return big[..., ::2]
    return a


def dyadic(rng, n, scale=8, lim=32):
    return [float(int(k)) / scale for k in rng.integers(-lim, lim + 1, size=n)]


class Spy:
    """records the arguments handed to arim.scat.cos / hankel1 (the originals are called)"""

    def __init__(self, scat):
        self.scat = scat
        self.ok = hasattr(scat, "cos") and hasattr(scat, "hankel1")
        self.nphi = []
        self.xs = []

    def __enter__(self):
        if self.ok:
            self.o_cos, self.o_h1 = self.scat.cos, self.scat.hankel1

            def cos_(x, *a, **k):
                self.nphi.append(np.array(x, copy=True))
                return self.o_cos(x, *a, **k)

            def h1_(n, x, *a, **k):
                self.xs.append(float(x))
                return self.o_h1(n, x, *a, **k)
            self.scat.cos, self.scat.hankel1 = cos_, h1_
        return self

    def __exit__(self, *exc):
        if self.ok:
            self.scat.cos, self.scat.hankel1 = self.o_cos, self.o_h1
        return False


# ------------------------------------------------------------------------------------------------------------------
def run(chk, arim, rng, quick):
    import arim.scat as scat
    mult = 1 if quick else 10
    streams = []          # (name, PRE text, case type, check expr, show expr or None, [literal], [replay])

    def cnt(kind):
        chk.count(tie_C09=kind)

    # ---------------------------------------------------------------- lowlevel
    lits, reps = [], []

    def addL(tag, a, b, v, code, ex, what):
        lits.append(cpair(cZ(tag), clist(a, cZ), clist(b, cZ), clist(v, cZ), cpair(cZ(code), clist(ex, cZ))))
        reps.append({"what": what, "a": list(a), "b": list(b), "values": list(v), "library": [code, list(ex)]})
        cnt("lowlevel:" + what)

    def ndz(x):
        x = np.asarray(x)
        return [x.ndim] + list(x.shape) + [int(t) for t in x.reshape(-1)]

    fixed_b = [([3, 1], [2]), ([2, 1, 4], [3, 1]), ([3], [2]), ([], [5]), ([1], [1]), ([2, 3], [2, 1]), ([2, 3], [3, 2]),
               ([0], [1]), ([0], [3]), ([2, 0], [1])]
    for i in range(len(fixed_b) + 25 * mult):
        if i < len(fixed_b):
            a, b = fixed_b[i]
        else:
            a, b = gen_shapes(rng, maxdim=4, compatible=rng.random() < 0.7, zero_ok=True)
        try:
            s = list(np.broadcast_shapes(tuple(a), tuple(b)))
            addL(0, a, b, [], 0, s, "bshape")
        except ValueError:
            addL(0, a, b, [], 1, [], "bshape")
            continue
        if 0 in s:
            continue
        # element of each operand read at a random index of the result
        idx = [int(rng.integers(0, d)) for d in s]
        for op in (a, b):
            src = np.arange(int(np.prod(op))).reshape(op)
            v = int(np.broadcast_to(src, s)[tuple(idx)])
            addL(1, op, idx, [], 0, [int(t) for t in np.unravel_index(v, op)] if op else [], "bidx")
            addL(9, op, idx, [], 0, [v], "nd_read")
        va, vb = rng.integers(-50, 50, size=int(np.prod(a))), rng.integers(-50, 50, size=int(np.prod(b)))
        addL(6, a, b, [int(t) for t in va] + [int(t) for t in vb], 0, ndz(va.reshape(a) - vb.reshape(b)), "nd_map2")
        addL(7, a, s, [], 0, ndz(np.broadcast_to(np.arange(int(np.prod(a))).reshape(a), s)), "nd_broadcast_to")
    addL(6, [3], [2], [1, 2, 3, 4, 5], 1, [], "nd_map2")
    for i in range(20 * mult):
        s = [int(t) for t in rng.integers(1, 5, size=int(rng.integers(0, 5)))]
        idx = [int(rng.integers(0, d)) for d in s]
        k = int(np.ravel_multi_index(tuple(idx), tuple(s))) if s else 0
        addL(2, s, idx, [], 0, [k], "ravel")
        addL(3, s, [k], [], 0, [int(t) for t in np.unravel_index(k, tuple(s))] if s else [], "unravel")
        src = np.arange(int(np.prod(s))).reshape(s)
        addL(4, s, [], [], 0, ndz(np.atleast_2d(src)), "atleast_2d")
        # a reshape to another factorisation of the same size (the source in Fortran order half of the time)
        n = int(np.prod(s))
        facs = [[n], [1, n], [n, 1], []] if n == 1 else [[n], [1, n], [n, 1]]
        for d in (2, 3, 4):
            if n % d == 0:
                facs += [[d, n // d], [n // d, d], [d, 1, n // d]]
        t = facs[int(rng.integers(0, len(facs)))]
        srcm = np.asfortranarray(src) if rng.random() < 0.5 else src
        addL(5, s, t, [], 0, ndz(srcm.reshape(t)), "nd_reshape")
        v = [int(x) for x in rng.integers(-9, 9, size=int(rng.integers(0, 5)))]
        addL(8, [], [], v, 0, ndz(np.array(v, dtype=int)), "nd_vector")
    streams.append(("lowlevel", PRE, "caseL", "chkL", "modL", lits, reps))

    # ---------------------------------------------------------------- grids
    lits, reps = [], []
    for n in list(range(0, 9)) + [int(t) for t in rng.integers(9, 40, size=3 * mult)]:
        a = scat.make_angles(n)
        gi, go = scat.make_angles_grid(n)
        lits.append(cpair(cZ(n), clist(a.reshape(-1), cfloat), clist(gi.reshape(-1), cfloat), clist(go.reshape(-1), cfloat))
                    if np.shape(a) == (n,) and gi.shape == (n, n) and go.shape == (n, n) else
                    cpair(cZ(-1 - n), "[]", "[]", "[]"))
        reps.append({"numpoints": n, "library": {"make_angles": a, "inc_theta": gi, "out_theta": go}})
        cnt("grid")
    streams.append(("grid", PRE, "caseG", "chkG", "modG", lits, reps))

    # ---------------------------------------------------------------- sdh
    lits, reps = [], []
    vL0, vT0 = 6300.0, 3120.0

    def sdh_case(inc_s, out_s, f, radius, vL, vT, mt, tf, tcs, viaobj, defaults=False):
        tc_py, tc_model, _ = tcs
        iv, ov = dyadic(rng, int(np.prod(inc_s))), dyadic(rng, int(np.prod(out_s)))
        inc, out = as_arg(rng, iv, inc_s), as_arg(rng, ov, out_s)
        kw = {} if tc_py is None else {"to_compute": tc_py}
        with Spy(scat) as spy:
            if viaobj:
                obj = scat.SdhScat(radius, vL, vT) if defaults else scat.SdhScat(radius, vL, vT, min_terms=mt, term_factor=tf)
                e, r = attempt(lambda: obj(inc, out, f, **kw))
            elif defaults:
                e, r = attempt(lambda: scat.sdh_2d_scat(inc, out, f, radius, vL, vT, **kw))
            else:
                e, r = attempt(lambda: scat.sdh_2d_scat(inc, out, f, radius, vL, vT, min_terms=mt, term_factor=tf, **kw))
        if defaults:
            mt, tf = 10, 4          # the documented defaults of sdh_2d_scat / SdhScat
        items = [(k, v) for k, v in r.items()] if r is not None else []
        spied = bool(spy.ok and r is not None and len(spy.nphi) >= 1)
        nshape, samples, xs = [], [], []
        if spied:
            nphi = spy.nphi[0]
            nshape = list(nphi.shape)
            if nphi.size:
                for _ in range(5):
                    idx = [int(rng.integers(0, d)) for d in nphi.shape]
                    samples.append((idx, float(nphi[tuple(idx)])))
                if nphi.shape[-1] >= 2:
                    idx = [int(rng.integers(0, d)) for d in nphi.shape[:-1]] + [1]
                    samples.append((idx, float(nphi[tuple(idx)])))
            for x in spy.xs:
                if not any(x == y or (x != x and y != y) for y in xs):
                    xs.append(x)
        lits.append(cpair(cbool(viaobj), c_arr(np.array(iv).reshape(inc_s)), c_arr(np.array(ov).reshape(out_s)),
                          clist([f, radius, vL, vT], cfloat), clist([int(mt), tf], cZ), clist(tc_model, cstr),
                          c_ecode(e), c_edict(items, None),
                          cpair(clist(nshape, cZ), clist([cpair(clist(i, cZ), cfloat(v)) for i, v in samples])),
                          cpair(cbool(spied), clist(xs, cfloat))))
        reps.append({"call": ("SdhScat(radius, vL, vT, min_terms, term_factor)(inc, out, f, to_compute)" if viaobj else
                              "sdh_2d_scat(inc, out, f, radius, vL, vT, min_terms, term_factor, to_compute)"),
                     "defaults_of_min_terms_term_factor_used": defaults,
                     "inc_theta": {"shape": inc_s, "values": iv}, "out_theta": {"shape": out_s, "values": ov},
                     "frequency": f, "radius": radius, "vL": vL, "vT": vT, "min_terms": mt, "term_factor": tf,
                     "to_compute": repr(tc_py),
                     "library": {"error": e, "keys_shapes": [(k, list(np.shape(v))) for k, v in items],
                                 "n_phi_shape": nshape, "n_phi_samples": samples, "hankel1_arguments": xs}})
        cnt("sdh:" + ("error" if e[0] else "ok") + (":obj" if viaobj else ":func"))

    z2, z3, z31 = [2], [3], [3, 1]
    for (a, b, f, mt, tc) in [(z2, z3, 2e6, 10, ["XX"]), (z2, z31, 2e6, 10, ["LL", "XX"]), (z2, z31, -2e6, -3, ["LL"]),
                              (z2, z31, -2e6, -3, ["XX"]), (z2, z31, 2e6, -3, ["TT", "LL"]), ([], [], 2e6, 10, list(KEYS)),
                              ([4], [], 2e6, 10, []), ([], [], 5e6, 10, ["LL"]), ([], [], -2e6, -1, ["LL"])]:
        sdh_case(a, b, f, 0.5e-3, vL0, vT0, mt, 4, (list(tc), list(tc), False), False)
    for i in range(60 * mult):
        r = rng.random()
        comp = r < 0.8
        a, b = gen_shapes(rng, maxdim=3, compatible=comp, zero_ok=True)
        tcs = gen_tc(rng, valid=rng.random() < 0.8, allow_str=True)
        f = float(rng.uniform(0.5e6, 6e6)) * (-1.0 if rng.random() < 0.15 else 1.0)
        radius = float(rng.uniform(0.1e-3, 1e-3))
        vL, vT = float(rng.uniform(5000, 7000)), float(rng.uniform(2500, 3500))
        if rng.random() < 0.1:
            vL, vT = vT, vL
        mt = [10, 1, 0, -1, -3, 25, 2.7, -2.7, np.int64(7)][int(rng.integers(0, 9))]
        tf = int(rng.integers(0, 5))
        defaults = rng.random() < 0.25
        sdh_case(a, b, f, radius, vL, vT, mt, tf, tcs, rng.random() < 0.5, defaults)
    streams.append(("sdh", PRE, "caseS", "chkS", "showS", lits, reps))

    # ---------------------------------------------------------------- integer-typed angles
    lits, reps = [], []

    def ang(kind):
        """(argument for the library, (isint, z, x))"""
        if kind < 4:
            z = int(rng.integers(-6, 7)) if rng.random() < 0.6 else int(rng.integers(-2 ** 60, 2 ** 60))
            arg = [z, np.int64(z), np.array([z], dtype=np.int64), np.array(z, dtype=np.int64)][kind]
            return arg, (True, z, 0.0)
        x = float(rng.integers(-48, 49)) / 8 if rng.random() < 0.6 else float(rng.integers(-2 ** 60, 2 ** 60))
        arg = [x, np.array([x])][kind - 4]
        return arg, (False, 0, x)

    for i in range(40 * mult):
        ki, ko = (int(rng.integers(0, 6)), int(rng.integers(0, 6))) if i >= 2 else ((0, 0), (2, 4))[i]
        (ia, ie), (oa, oe) = ang(ki), ang(ko)
        if ki == 0 and ko == 0 and abs(oe[1] - ie[1]) >= 2 ** 63:
            continue
        with Spy(scat) as spy:
            e, r = attempt(lambda: scat.sdh_2d_scat(ia, oa, 2e6, 0.5e-3, vL0, vT0))
        if not spy.ok or e[0] or not spy.nphi or spy.nphi[0].shape[-1] < 2:
            cnt("intangle:not-observable")
            continue
        phi = float(np.asarray(spy.nphi[0]).reshape(-1, spy.nphi[0].shape[-1])[0, 1])
        enc = lambda t: cpair(cbool(t[0]), cZ(t[1]), cfloat(t[2]))
        lits.append(cpair(enc(ie), enc(oe), cfloat(phi)))
        reps.append({"inc_theta": repr(ia), "out_theta": repr(oa), "library": {"phi = n_phi[..., 1]": phi}})
        cnt("intangle:" + ("int" if ie[0] else "float") + "-" + ("int" if oe[0] else "float"))
    streams.append(("intangle", PRE, "caseA", "chkA", "modA", lits, reps))

    # ---------------------------------------------------------------- point source
    lits, reps = [], []
    for i in range(50 * mult):
        comp = rng.random() < 0.8
        a, b = gen_shapes(rng, maxdim=4, compatible=comp, zero_ok=True)
        tc_py, tc_model, _ = gen_tc(rng, valid=rng.random() < 0.7)
        vL, vT = float(rng.uniform(1000, 7000)), float(rng.uniform(1000, 7000))
        f = float(rng.uniform(1e5, 1e7))
        iv, ov = dyadic(rng, int(np.prod(a))), dyadic(rng, int(np.prod(b)))
        inc, out = as_arg(rng, iv, a), as_arg(rng, ov, b)
        obj = scat.PointSourceScat(vL, vT)
        e, r = attempt(lambda: obj(inc, out, f) if tc_py is None else obj(inc, out, f, tc_py))
        items = list(r.items()) if r is not None else []
        lits.append(cpair(c_arr(np.array(iv).reshape(a)), c_arr(np.array(ov).reshape(b)), clist([vL, vT, f], cfloat),
                          clist(tc_model, cstr), c_ecode(e), c_edict(items, cfloat)))
        reps.append({"call": "PointSourceScat(vL, vT)(inc, out, f, to_compute)", "vL": vL, "vT": vT, "frequency": f,
                     "inc_shape": a, "out_shape": b, "to_compute": repr(tc_py),
                     "library": {"error": e, "result": [(k, np.asarray(v)) for k, v in items]}})
        cnt("point:" + ("error" if e[0] else "ok"))
    streams.append(("point", PRE, "caseP", "chkP", "fun c => show_dict (modP c)", lits, reps))

    # ---------------------------------------------------------------- the oracle table of the crack kernels
    Lc = float(rng.uniform(0.8e-3, 1.5e-3))
    vLc, vTc, rho = 6300.0, 3120.0, 2700.0
    fpool = [1.0e6, 1.5e6, 2.25e6]
    NMAX = 4
    pool = []
    for x in [float(t) for t in np.round(rng.uniform(-3.0, 3.0, size=6) * 64) / 64] + \
            [float(t) for n in range(1, NMAX + 1) for t in np.linspace(-np.pi, np.pi, n, endpoint=False)]:
        if x not in pool:
            pool.append(x)
    nfree = 6 if len(pool) >= 6 else len(pool)
    free = pool[:nfree]
    tbl = []
    for f in fpool:
        for a in pool:
            for b in pool:
                r = scat.crack_2d_scat(a, b, f, Lc, vLc, vTc, rho)
                tbl.append(clist([c_cplx(complex(r[k])) for k in KEYS]))
    pre_crack = (PRE + f"Definition pool : list float := {clist(pool, cfloat)}.\n"
                 f"Definition fpool : list float := {clist(fpool, cfloat)}.\n"
                 "Definition tbl : list (list cplx) := [\n" + ";\n".join(tbl) + "].\n" + PRE_CRACK)
    crack_cfg = {"crack_length": Lc, "vL": vLc, "vT": vTc, "density": rho, "frequencies": fpool, "angle_pool": pool,
                 "oracle": "Kf f = table of arim.scat.crack_2d_scat(a, b, f, crack_length, vL, vT, density) over the pool"}
    cnt("crack:oracle-table-entries=%d" % len(tbl))

    def pool_vals(n):
        return [free[int(i)] for i in rng.integers(0, len(free), size=n)]

    def lib_crack_obj():
        return scat.CrackCentreScat(Lc, vLc, vTc, rho)

    # ---------------------------------------------------------------- crack_2d_scat on arrays
    lits, reps = [], []

    def crack_case(a, b, iv, ov, f, safe, tcs, via):
        tc_py, tc_model, _ = tcs
        inc, out = as_arg(rng, iv, a), as_arg(rng, ov, b)
        if via == 0:
            kw = {} if tc_py is None else {"to_compute": tc_py}
            e, r = attempt(lambda: scat.crack_2d_scat(inc, out, f, Lc, vLc, vTc, rho, assume_safe_for_opt=safe, **kw))
        else:
            obj = lib_crack_obj()
            if safe:
                obj._in_matrix_calculation = True
            e, r = attempt(lambda: obj(inc, out, f) if tc_py is None else obj(inc, out, f, tc_py))
        items = list(r.items()) if r is not None else []
        lits.append(cpair(cZ(via), c_arr(np.array(iv).reshape(a)), c_arr(np.array(ov).reshape(b)), cfloat(f), cbool(safe),
                          clist(tc_model, cstr), c_ecode(e), c_edict(items, c_cplx), cfloat(TOL)))
        reps.append({"call": ("crack_2d_scat(inc, out, f, ..., assume_safe_for_opt, to_compute)" if via == 0 else
                              "CrackCentreScat(...)(inc, out, f, to_compute) with _in_matrix_calculation = assume_safe_for_opt"),
                     "config": crack_cfg, "inc_theta": {"shape": a, "values": iv}, "out_theta": {"shape": b, "values": ov},
                     "frequency": f, "assume_safe_for_opt": safe, "to_compute": repr(tc_py),
                     "library": {"error": e, "result": [(k, np.asarray(v)) for k, v in items]}})
        cnt("crack:" + ("error" if e[0] else "ok") + (":opt" if safe else ":general") + (":obj" if via else ":func"))
        if e[0] == 3:
            cnt("crack:IndexError-no-row")

    allk = (list(KEYS), list(KEYS), False)
    p6 = (free * 6)[:8]
    fixed_c = [([2, 2], [2, 2], False, allk), ([2, 2], [2, 2], True, allk), ([2, 2], [2, 2], False, (["LT"], ["LT"], False)),
               ([3], [], True, allk), ([2, 1], [3], False, allk), ([2, 1], [3], True, allk), ([], [], True, allk),
               ([2, 2, 2], [], False, (["XX"], ["XX"], False)), ([2, 2, 2], [], False, allk), ([1, 1, 2], [], False, allk),
               ([2], [3], False, allk), ([2], [3], False, (["XX"], ["XX"], False)), ([3], [2, 1], False, (["LL"], ["LL"], False)),
               ([2, 2], [2, 2], True, (["TT"], ["TT"], False)), ([2, 3], [1, 3], True, ([], [], False)),
               # no row in the computed 2-d arrays: IndexError of inc_theta[0] with the optimised driver only; a vector
               # of length 0 is computed as (1, 0) and raises nothing; ValueError / NotImplementedError come first
               ([0, 2], [], True, allk), ([0, 2], [], False, allk), ([0, 2], [2], True, (["LT"], ["LT"], False)),
               ([0, 1], [3], True, allk), ([0, 0], [0, 0], True, allk), ([1], [0, 1], True, allk), ([0], [], True, allk),
               ([0], [0], False, allk), ([0, 2], [], True, (["XX"], ["XX"], False)), ([0, 2], [3], True, allk),
               ([2, 0, 2], [], True, allk), ([1, 0], [], True, allk), ([2, 0], [], True, allk)]
    for a, b, safe, tcs in fixed_c:
        crack_case(a, b, p6[:int(np.prod(a))], p6[::-1][:int(np.prod(b))], fpool[1], safe, tcs, 0)
    for i in range(70 * mult):
        r = rng.random()
        maxdim = 2 if r < 0.8 else 3
        a, b = gen_shapes(rng, maxdim=maxdim, compatible=rng.random() < 0.85, zero_ok=True)
        safe = bool(rng.random() < 0.5)
        tcs = gen_tc(rng, valid=rng.random() < 0.8, allow_str=True)
        crack_case(a, b, pool_vals(int(np.prod(a))), pool_vals(int(np.prod(b))), fpool[int(rng.integers(0, 3))], safe, tcs,
                   int(rng.random() < 0.4))
    streams.append(("crack", pre_crack, "caseC", "chkC", "fun c => show_dict (modC c)", lits, reps))

    # ---------------------------------------------------------------- histories on one CrackCentreScat
    lits, reps = [], []

    def enc_op(op):
        tag, a, iv, b, ov, fs, n, tc_model = op
        return cpair(cZ(tag), cpair(c_arr(np.array(iv).reshape(a)), c_arr(np.array(ov).reshape(b))), clist(fs, cfloat), cZ(n),
                     clist(tc_model, cstr))

    def history(ops_spec):
        """ops_spec: list of dicts; runs them all on one fresh object"""
        obj = lib_crack_obj()
        ops, steps, rep_ops = [], [], []
        flag0 = bool(obj._in_matrix_calculation)
        for sp in ops_spec:
            tc_py, tc_model, unordered = sp["tc"]
            if sp["op"] == "call":
                inc, out = as_arg(rng, sp["iv"], sp["a"]), as_arg(rng, sp["ov"], sp["b"])
                e, r = attempt(lambda: obj(inc, out, sp["f"]) if tc_py is None else obj(inc, out, sp["f"], tc_py))
                ops.append((0, sp["a"], sp["iv"], sp["b"], sp["ov"], [sp["f"]], 0, tc_model))
            elif sp["op"] == "single":
                e, r = attempt(lambda: obj.as_single_freq_matrices(sp["f"], sp["n"]) if tc_py is None else
                               obj.as_single_freq_matrices(sp["f"], sp["n"], tc_py))
                ops.append((1, [], [0.0], [], [0.0], [sp["f"]], sp["n"], tc_model))
            else:
                fs_arg = sp["fs"] if sp.get("fs_list", True) else np.array(sp["fs"], dtype=float)
                e, r = attempt(lambda: obj.as_multi_freq_matrices(fs_arg, sp["n"]) if tc_py is None else
                               obj.as_multi_freq_matrices(fs_arg, sp["n"], tc_py), any_key=unordered)
                ops.append((2, [], [0.0], [], [0.0], list(sp["fs"]), sp["n"], tc_model))
            flag = obj._in_matrix_calculation
            kind = 1 if (e[0] == 0 and r is None) else 0
            items = list(r.items()) if isinstance(r, dict) else []
            if unordered and sp["op"] == "multi":
                items.sort(key=lambda kv: kv[0])
            steps.append(cpair(c_ecode(e), cbool(bool(flag)), cZ(kind), c_edict(items, c_cplx)))
            rep_ops.append({"op": sp["op"], "frequency": sp.get("f"), "frequencies": sp.get("fs"), "numangles": sp.get("n"),
                            "inc_theta": {"shape": sp.get("a"), "values": sp.get("iv")},
                            "out_theta": {"shape": sp.get("b"), "values": sp.get("ov")}, "to_compute": repr(tc_py),
                            "library": {"error": e, "flag_after": bool(flag), "returned_None": bool(kind),
                                        "result": [(k, np.asarray(v)) for k, v in items]}})
            cnt("history:" + sp["op"] + (":error" if e[0] else ":ok"))
            if e[0] == 3:
                cnt("history:" + sp["op"] + ":IndexError-numangles-0")
            if sp["op"] != "call" and e[0] and sp is not ops_spec[-1]:
                cnt("history:continued-after-raising-matrix-request")
        lits.append(cpair(cbool(flag0), clist([enc_op(o) for o in ops]), clist(steps), cfloat(TOL)))
        reps.append({"config": crack_cfg, "object": "CrackCentreScat(crack_length, vL, vT, density), fresh",
                     "flag_of_the_fresh_object": flag0, "history": rep_ops})

    def call_spec(valid=True, twod=True):
        if twod and rng.random() < 0.7:
            a = [int(rng.integers(2, 4)), int(rng.integers(1, 4))]       # several rows: the two drivers differ
            b = a if rng.random() < 0.6 else [a[1]]
        else:
            a, b = gen_shapes(rng, maxdim=2, compatible=True)
        return {"op": "call", "a": a, "b": b, "iv": pool_vals(int(np.prod(a))), "ov": pool_vals(int(np.prod(b))),
                "f": fpool[int(rng.integers(0, 3))], "tc": gen_tc(rng, valid=valid)}

    def gen_n():
        # numangles = 0: the grid has the shape (0, 0) and the matrix request raises IndexError (inc_theta[0])
        return 0 if rng.random() < 0.12 else int(rng.integers(1, NMAX + 1))

    def single_spec():
        return {"op": "single", "f": fpool[int(rng.integers(0, 3))], "n": gen_n(),
                "tc": gen_tc(rng, valid=rng.random() < 0.8)}

    def multi_spec():
        nf = int(rng.integers(0, 4))
        # an empty sequence of frequencies returns None without raising, whatever to_compute holds
        tcs = gen_tc(rng, valid=False) if (nf == 0 and rng.random() < 0.5) else gen_tc(rng, valid=rng.random() < 0.8)
        fs = [fpool[int(i)] for i in (rng.permutation(3)[:nf] if rng.random() < 0.7 else rng.integers(0, 3, size=nf))]
        return {"op": "multi", "fs": fs, "n": gen_n(),
                "tc": tcs, "fs_list": bool(rng.random() < 0.7)}

    inc22 = {"a": [2, 2], "b": [2, 2], "iv": p6[:4], "ov": p6[2:6]}
    call22 = dict(op="call", f=fpool[0], tc=allk, **inc22)
    history([dict(op="single", f=fpool[0], n=3, tc=allk), call22,
             dict(op="call", f=fpool[0], tc=(["XX"], ["XX"], False), **inc22),
             dict(op="multi", fs=[fpool[0], fpool[2]], n=2, tc=(["LL"], ["LL"], False)), call22,
             dict(op="multi", fs=[], n=2, tc=(["XX"], ["XX"], False)), call22])
    history([call22])
    history([])
    # matrix requests that raise (invalid key; numangles = 0), each followed by a plain call on several rows: the flag is
    # False again and the call is evaluated by the general driver (the witness of the defect repaired by /repo 3989d85)
    history([dict(op="single", f=fpool[0], n=4, tc=(["XX"], ["XX"], False)), call22])
    history([dict(op="multi", fs=[fpool[0]], n=3, tc=(["LL", "XX"], ["LL", "XX"], False)), call22,
             dict(op="single", f=fpool[1], n=0, tc=allk), call22,
             dict(op="multi", fs=[fpool[0], fpool[1]], n=0, tc=(["TT"], ["TT"], False)), call22,
             dict(op="multi", fs=[], n=0, tc=allk), call22,
             dict(op="single", f=fpool[1], n=0, tc=(["XX"], ["XX"], False)),
             dict(op="single", f=fpool[2], n=2, tc=allk), call22])
    for i in range(28 * mult):
        m = int(rng.integers(1, 6))
        spec = []
        for j in range(m):
            r = rng.random()
            spec.append(call_spec(valid=rng.random() < 0.8) if r < 0.5 else (single_spec() if r < 0.75 else multi_spec()))
        if m < 5 and rng.random() < 0.7:
            spec.append(call_spec(valid=True))       # ends with a plain call on several rows
        history(spec)
    streams.append(("history", pre_crack, "caseH", "chkH", "showH", lits, reps))

    # ---------------------------------------------------------------- wrappers
    lits, reps = [], []

    def wrapper_case(objkind, fixed=None):
        if objkind == 0:
            params, ints = [float(rng.uniform(1000, 7000)), float(rng.uniform(1000, 7000))], []
            obj = scat.PointSourceScat(*params)
        elif objkind == 1:
            params, ints = [TOL], []
            obj = lib_crack_obj()
        else:
            params, ints = [float(rng.uniform(0.2e-3, 0.8e-3)), vL0, vT0], [int(rng.integers(-2, 12)), 4]
            obj = scat.SdhScat(params[0], params[1], params[2], min_terms=ints[0], term_factor=ints[1])
        fr_pool = fpool if objkind == 1 else [float(rng.uniform(1e6, 3e6)) for _ in range(3)]
        pick = lambda: fr_pool[int(rng.integers(0, 3))]
        bad_key = rng.random() < 0.12
        key = ["XX", "ll", ""][int(rng.integers(0, 3))] if bad_key else KEYS[int(rng.integers(0, 4))]
        bound = pick() if rng.random() < 0.5 else None
        route = 0 if (bad_key or rng.random() < 0.3) else 1
        spelling = int(rng.integers(0, 4))      # f(i,o)  f(i,o,frequency=g)  f(i,o,fr)  f(i,o,fr,frequency=g)
        if fixed is not None:
            key, bound, route, spelling = fixed
            bound = fr_pool[0] if bound else None
        comp = rng.random() < 0.9
        a, b = gen_shapes(rng, maxdim=2, compatible=comp)
        iv = pool_vals(int(np.prod(a))) if objkind == 1 else dyadic(rng, int(np.prod(a)))
        ov = pool_vals(int(np.prod(b))) if objkind == 1 else dyadic(rng, int(np.prod(b)))
        inc, out = as_arg(rng, iv, a), as_arg(rng, ov, b)
        fr = pick() if spelling >= 2 else None
        kwf = pick() if spelling in (1, 3) else None
        if kwf is not None and bound is not None and kwf == bound and rng.random() < 0.8:
            kwf = fr_pool[(fr_pool.index(bound) + 1) % 3]      # the caller's keyword differs from the bound frequency
        if route == 0:
            fn = scat._partial_one_scat_key(obj, key) if bound is None else scat._partial_one_scat_key(obj, key, frequency=bound)
        else:
            fn = (obj.as_freq_angles_funcs() if bound is None else obj.as_angles_funcs(bound))[key]
        args = (inc, out) if fr is None else (inc, out, fr)
        kws = {} if kwf is None else {"frequency": kwf}
        e, r = attempt(lambda: fn(*args, **kws))
        shape, vals = ([], [])
        if r is not None:
            r = np.asarray(r)
            shape = list(r.shape)
            vals = [] if objkind == 2 else [complex(x) for x in r.reshape(-1)]
        lits.append(cpair(cZ(objkind), clist(params, cfloat), clist(ints, cZ), cZ(route), cstr(key), copt(bound, cfloat),
                          cpair(cZ(2 if fr is None else 3), c_arr(np.array(iv).reshape(a)), c_arr(np.array(ov).reshape(b)),
                                copt(fr, cfloat), copt(kwf, cfloat)),
                          c_ecode(e), cpair(clist(shape, cZ), clist(vals, c_cplx))))
        reps.append({"object": ["PointSourceScat(vL, vT)", "CrackCentreScat (config below)", "SdhScat(radius, vL, vT, min_terms, term_factor)"][objkind],
                     "params": params, "min_terms_term_factor": ints, "config": crack_cfg if objkind == 1 else None,
                     "function": ("_partial_one_scat_key(obj, key%s)" % ("" if bound is None else ", frequency=bound") if route == 0 else
                                  ("obj.as_freq_angles_funcs()[key]" if bound is None else "obj.as_angles_funcs(bound)[key]")),
                     "key": key, "bound_frequency": bound,
                     "called_as": ["f(inc, out)", "f(inc, out, frequency=g)", "f(inc, out, fr)", "f(inc, out, fr, frequency=g)"][spelling],
                     "fr": fr, "g": kwf, "inc_theta": {"shape": a, "values": iv}, "out_theta": {"shape": b, "values": ov},
                     "library": {"error": e, "shape": shape, "values": vals}})
        cnt("wrapper:%s:%s" % (["point", "crack", "sdh"][objkind], "error%d" % e[0] if e[0] else "ok"))

    for ok_ in (0, 1, 2):
        for fx in [("LT", True, 1, 0), ("LT", True, 1, 1), ("LT", True, 1, 2), ("LT", False, 1, 0), ("LT", False, 1, 2),
                   ("LT", False, 1, 3), ("XX", False, 0, 2), ("XX", True, 0, 0)]:
            wrapper_case(ok_, fx)
    for i in range(60 * mult):
        wrapper_case([0, 1, 1, 2][int(rng.integers(0, 4))])
    streams.append(("wrapper", pre_crack, "caseW", "chkW", "showW", lits, reps))
    # the keys of the returned dicts
    lits_k, reps_k = [], []
    for obj in (scat.PointSourceScat(6300.0, 3120.0), lib_crack_obj(), scat.SdhScat(0.5e-3, vL0, vT0)):
        for bound in (None, 2e6):
            d = obj.as_freq_angles_funcs() if bound is None else obj.as_angles_funcs(bound)
            ks = sorted(str(k) for k in d)
            lits_k.append(cpair(copt(bound, cfloat), clist(ks, cstr)))
            reps_k.append({"object": type(obj).__name__, "bound_frequency": bound, "library": {"sorted keys": ks}})
            cnt("wrapper:keys")
    streams.append(("wrapper-keys", pre_crack, "caseK", "chkK", None, lits_k, reps_k))

    # ---------------------------------------------------------------- base-class matrices on the point source and the hole
    lits, reps = [], []

    def matrices_case(objkind, single, fs, n, tcs, fs_list=True):
        tc_py, tc_model, unordered = tcs
        if objkind == 0:
            params, ints = [float(rng.uniform(1000, 7000)), float(rng.uniform(1000, 7000))], []
            obj = scat.PointSourceScat(*params)
        else:
            params, ints = [float(rng.uniform(0.2e-3, 0.8e-3)), vL0, vT0], [int([10, 3, -2][int(rng.integers(0, 3))]), 4]
            obj = scat.SdhScat(params[0], params[1], params[2], min_terms=ints[0], term_factor=ints[1])
        if single:
            e, r = attempt(lambda: obj.as_single_freq_matrices(fs[0], n) if tc_py is None else
                           obj.as_single_freq_matrices(fs[0], n, tc_py), any_key=unordered)
        else:
            fa = list(fs) if fs_list else np.array(fs, dtype=float)
            e, r = attempt(lambda: obj.as_multi_freq_matrices(fa, n) if tc_py is None else
                           obj.as_multi_freq_matrices(fa, n, tc_py), any_key=unordered)
        kind = 1 if (e[0] == 0 and r is None) else 0
        items = list(r.items()) if isinstance(r, dict) else []
        if unordered and not single:
            items.sort(key=lambda kv: kv[0])
        lits.append(cpair(cZ(objkind), clist(params, cfloat), clist(ints, cZ), cbool(single), clist(fs, cfloat), cZ(n),
                          clist(tc_model, cstr), c_ecode(e), cZ(kind), c_edict(items, c_cplx if objkind == 0 else None)))
        reps.append({"object": ["PointSourceScat(vL, vT)", "", "SdhScat(radius, vL, vT, min_terms, term_factor)"][objkind],
                     "params": params, "min_terms_term_factor": ints,
                     "call": "as_single_freq_matrices(f, n, to_compute)" if single else "as_multi_freq_matrices(fs, n, to_compute)",
                     "frequencies": fs, "numangles": n, "to_compute": repr(tc_py),
                     "library": {"error": e, "returned_None": bool(kind),
                                 "result": [(k, np.asarray(v) if objkind == 0 else list(np.shape(v))) for k, v in items]}})
        cnt("matrices:%s:%s:%s" % (["point", "", "sdh"][objkind], "single" if single else "multi", "error%d" % e[0] if e[0] else
                                   ("None" if kind else "ok")))

    matrices_case(0, False, [], 2, (["XX"], ["XX"], False))
    matrices_case(0, False, [1.0], 2, (["XX"], ["XX"], False))
    matrices_case(0, False, [1.0, 2.0, 3.0], 2, (["TL", "LL"], ["TL", "LL"], False))
    matrices_case(2, False, [1e6], 3, (["XX"], ["XX"], False))
    matrices_case(2, False, [1e6, -1e6], 3, (["LL"], ["LL"], False))
    for i in range(40 * mult):
        objkind = 0 if rng.random() < 0.6 else 2
        single = bool(rng.random() < 0.35)
        nf = 1 if single else int(rng.integers(0, 4))
        fs = [float(rng.uniform(1e6, 4e6)) * (-1.0 if (objkind == 2 and rng.random() < 0.15) else 1.0) for _ in range(nf)]
        n = int(rng.integers(0, 5))
        matrices_case(objkind, single, fs, n, gen_tc(rng, valid=rng.random() < 0.75), fs_list=bool(rng.random() < 0.7))
    streams.append(("matrices", pre_crack, "caseM", "chkM", "showM", lits, reps))

    # ---------------------------------------------------------------- evaluation inside coqc
    def evaluate(st):
        name, pre, ctype, check, show, lits_, reps_ = st
        if not lits_:
            return st, []
        return st, chk.coq_failing(f"tie_C09_{name.replace('-', '_')}", pre, ctype, lits_, check, shard=60 if name == "history" else 150)

    with ThreadPoolExecutor(max_workers=4) as ex:
        results = list(ex.map(evaluate, streams))
    total = 0
    for (name, pre, ctype, check, show, lits_, reps_), bad in results:
        total += len(lits_)
        for j, i in enumerate(bad[:4]):          # at most four reports per stream (the count is in the message)
            rep = dict(reps_[i])
            key = name.split("-")[0]
            rep["correspondence"] = CORR[key]
            rep["coq_case"] = lits_[i] if len(lits_[i]) < 20000 else lits_[i][:20000] + " ..."
            if show is not None and j < 2:
                try:
                    rep["model"] = chk.coq_values(f"tie_C09_{name.replace('-', '_')}_show{j}", pre,
                                                  [f"({show}) (({lits_[i]}) : {ctype})"])[-6000:]
                except Exception as exc:  # noqa: BLE001  (diagnostics only)
                    rep["model"] = f"(could not be printed: {exc})"[:500]
            chk.violation(f"tie:{key}", f"tie of Model/ScatGlue.v [{name}]: the model and the library disagree on case {i} "
                          f"({len(bad)} of {len(lits_)} cases of this stream disagree; {CORR[key]})", rep, failing_input_found=False)
    return total
