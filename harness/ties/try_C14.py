"""Development runner of the C14 tie (harness/ties/tie_C14.py) alone; see /tmp/tie_brief.md.
Run: cd /verif && VERIF_ARIM_SRC=/repo/src PYTHONPATH=/verif/harness /venv/bin/python harness/ties/try_C14.py --tier quick --no-proofs"""
import hashlib
import itertools
import json
import os
import sys
import time
import warnings

import numpy as np

from common import Check, cZ, clist, cpair

chk = Check("C14", design_ref="DESIGN.md §5 C14")
arim = chk.import_arim()
import numba  # noqa: E402

numba.set_num_threads(1)

from ties import tie_C14  # noqa: E402

t0 = time.time()
n = tie_C14.run(chk, arim, chk.rng, chk.tier == "quick")
print(f"# tie_C14: {n} comparisons in {time.time() - t0:.1f}s; {json.dumps(chk.cov.get('tie_C14'))}", flush=True)
chk.finish(evaluations=n, distinct_nontrivial=n, rule="tie only", samples=[])
