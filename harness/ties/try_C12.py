"""Development runner of the C12 tie alone (no proofs):
   cd /verif && VERIF_ARIM_SRC=/repo/src PYTHONPATH=/verif/harness /venv/bin/python harness/ties/try_C12.py --tier quick --no-proofs
"""
import time

import numpy as np  # noqa: F401
from common import Check

chk = Check("C12", design_ref="DESIGN.md §5 C12")
arim = chk.import_arim()

from ties import tie_C12  # noqa: E402

t0 = time.time()
n = tie_C12.run(chk, arim, chk.rng, chk.tier == "quick")
print(f"# tie_C12: {n} comparisons in {time.time() - t0:.1f} s", flush=True)
for k, v in sorted(chk.hist.items()):
    if k.startswith("tie_C12"):
        print("#  ", k, len(v), "families;", dict(sorted(v.items())) if len(v) < 400 else "...")
print("#  ", chk.cov.get("tie_C12"))
chk.finish(evaluations=n, distinct_nontrivial=n, rule="tie only", samples=[])
