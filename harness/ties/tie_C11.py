"""Tie of the new C11 model (coq/theories/Model/Synthesis.v) to the real library, evaluated on every run of the check.

    run(chk, arim, rng, quick) -> number of comparisons

Every case = one concrete input, run on the REAL library (public functions, real `arim.core.Time` objects and numpy
arrays), and the model's answer computed by `vm_compute` inside coqc on the very same input (instance `NumQ`: exact
rationals; every float handed to the library is a small dyadic number, so that every + - * / the library performs is
exact in binary64 and the rational answer of the model must be met bit for bit).  Discrete observables (error kinds,
lengths, shapes, indices, supports, weight tables) are compared exactly.

What cannot be computed inside coqc: cos / sin / exp of a NON-ZERO argument (NumQ answers a sentinel).  Therefore
  * toneburst samples are compared through their exact CLASS: 0 (zero padding, or one of the two Hann end samples whose
    value is +-0.0), 1 (the centre sample, exactly 1.0 on both sides), 2 (any other sample: non-zero, |.| < 1); the sample
    values themselves are tied by theorem to Signal.toneburst_at, which harness/prop_C11.py compares with the library;
  * spectral shifts are compared where the phase is exactly 0 (delay 0 or frequency 0): the factor is exp(0) = 1 on both
    sides; transfer_func_to_timetraces is run with delays ON the sample grid (remainder exactly 0), or OFF the grid with
    zero frequencies (the rounding of the delay index, half to even, is then observable and everything stays exact);
  * the inverse FFT (an oracle argument `ifft1` of the model) is instantiated (a) with the exact transform for
    n in {1, 2, 4} (roots of unity 1, i, -1, -i: scipy's butterflies are exact on small dyadic data), and (b) for any n
    with the "spectrum view" `ifft1 X n j := X j`: the model then returns the weighted / zero-padded / truncated spectrum
    handed to the inverse FFT, which is compared with numpy's forward FFT of the library's result, rounded to the grid
    1/64 (the inputs are multiples of 1/4; a residual above 1e-7 is reported as a disagreement).

Ties (model function vs arim / numpy / scipy call):
  py_index, py_bound                  vs  range(len)[i] (IndexError), slice(i, None).indices(len)[0]
  set_index, fill_slice, set_slice    vs  numpy  a[i] = v,  a[lo:hi] = v,  a[lo:hi] = vals  (ValueError "could not broadcast")
  slice_from, slice_to, rotate_array  vs  arr[n:], arr[:n], arim.model._rotate_array(arr, n)
  next_fast_len                       vs  scipy.fftpack.next_fast_len (the call of model.py:177), ValueError for negative targets
  hilbert_table                       vs  the weights recovered from arim.signal.rfft_to_hilbert(ones(numfreq), n) (IndexError = None)
  make_toneburst                      vs  arim.model.make_toneburst: error kind (the five messages, in their priority),
                                          length, class of every sample (support, wrap, centre, end samples)
  make_toneburst2                     vs  arim.model.make_toneburst2: error kind (make_toneburst's / next_fast_len / np.zeros /
                                          broadcast), toneburst_time.start and .step (exact), len(time), len(array), t0_idx,
                                          class of every sample; negative num_before / num_after, use_fast_len, defaults
  rfft_to_hilbert                     vs  arim.signal.rfft_to_hilbert on 0..3-dimensional arrays, any axis spelling: error kind
                                          (IndexError / ValueError), shape, every entry (exact for n in {1,2,4}; spectrum view else)
  timeshift_spectra                   vs  arim.signal.timeshift_spectra: ValueError or shape and every entry whose phase is 0
  transfer_func_to_timetraces         vs  arim.model.transfer_func_to_timetraces: error kind (unpack ValueError, AssertionError,
                                          NotImplementedError, core-dimension ValueError, broadcast ValueError, IndexError,
                                          "invalid number of data points" ValueError) or shape and every entry of the result,
                                          2-D / 3-D transfer functions, 1-D / 2-D delays, timetraces=None / given (in place)

Restrictions (the model is silent or differs there; see the final message of the tie task):
  * echoes outside the window (model: TfOutside) are outside the domain of the property; the library's behaviour there
    (SystemError from the numba prange loop, or the echo silently dropped / wrapped) is recorded, not compared: only the
    model's classification of those inputs is evaluated;
  * the two assertions of transfer_func_to_timetraces raise the same AssertionError: TfAssertShape and TfAssertNegative are
    one observable class;
  * len(timetraces_time) = 0, a preallocated `timetraces` of the wrong shape and non-finite inputs are outside the model.
"""
import fractions
import re

import numpy as np

from common import cZ, cQ, clist, cpair, cbool, copt

F = fractions.Fraction

CORR = {
    "py": "py_index / py_bound / set_index / fill_slice / set_slice / slice_from / slice_to / rotate_array / next_fast_len / "
          "hilbert_table vs Python indexing, numpy item and slice assignment, arim.model._rotate_array, "
          "scipy.fftpack.next_fast_len, the weights of arim.signal.rfft_to_hilbert",
    "tb": "make_toneburst NumQ vs arim.model.make_toneburst (error kind, length, class of every sample)",
    "tb2": "make_toneburst2 NumQ next_fast_len vs arim.model.make_toneburst2 (error kind, time origin and step, lengths, "
           "t0_idx, class of every sample)",
    "hil": "rfft_to_hilbert NumQ ifft1 vs arim.signal.rfft_to_hilbert (error kind, shape, entries)",
    "ts": "timeshift_spectra NumQ vs arim.signal.timeshift_spectra (ValueError, shape, entries with phase 0)",
    "tf": "transfer_func_to_timetraces NumQ ifft_q vs arim.model.transfer_func_to_timetraces (error kind, shape, entries)",
}

PREAMBLE = r"""
From Coq Require Import ZArith QArith List Bool.
From Arim Require Import Base.Num Base.NumQ Base.ListX Model.Signal Model.Synthesis.
Import ListNotations.
Open Scope bool_scope.
Open Scope Z_scope.

Definition cq : Type := (Q * Q)%type.
Definition q0 : cq := (0%Q, 0%Q).
Definition cq_eqb (a b : cq) : bool := Qeq_bool (fst a) (fst b) && Qeq_bool (snd a) (snd b).
Definition zl_eqb : list Z -> list Z -> bool := list_eqb Z.eqb.
Definition cql_eqb : list cq -> list cq -> bool := list_eqb cq_eqb.

(* exact inverse FFT for n in {1, 2, 4}: the roots of unity are 1, i, -1, -i *)
Definition root4 (m : Z) : cq :=
  match m mod 4 with 0 => (1%Q, 0%Q) | 1 => (0%Q, 1%Q) | 2 => ((-1)%Q, 0%Q) | _ => (0%Q, (-1)%Q) end.
Definition ifft_q (X : nat -> cq) (n : nat) (j : Z) : cq :=
  let s := fold_left (fun acc k => cadd NumQ acc (cmul NumQ (X k) (root4 ((4 / Z.of_nat n) * j * Z.of_nat k))))
                     (seq 0 n) q0 in
  cscale NumQ (1 / inject_Z (Z.of_nat n))%Q s.
(* the spectrum view: entry j of what is handed to the inverse FFT *)
Definition spec_ifft (X : nat -> cq) (n : nat) (j : Z) : cq := X (Z.to_nat j).

(* ---- Python / numpy helpers, next_fast_len, the weight table ---- *)
Inductive pycase :=
| PIndex (len i : Z) (ans : option Z)
| PBound (len i ans : Z)
| PSetIndex (l : list Z) (i v : Z) (ans : option (list Z))
| PFill (l : list Z) (a b v : Z) (ans : list Z)
| PSetSlice (l : list Z) (a b : Z) (vals : list Z) (ans : option (list Z))
| PSliceFrom (l : list Z) (n : Z) (ans : list Z)
| PSliceTo (l : list Z) (n : Z) (ans : list Z)
| PRotate (l : list Z) (n : Z) (ans : list Z)
| PFast (target : Z) (ans : option Z)
| PTable (n numfreq : Z) (ans : option (list Z)).

Definition table_view (n numfreq : Z) : option (list Z) :=
  option_map (fun h => map (fun k => nth (Z.to_nat k) h 0) (zrange n)) (hilbert_table n (Z.to_nat numfreq)).

Definition chk_py (c : pycase) : bool :=
  match c with
  | PIndex len i ans => option_eqb Z.eqb (option_map Z.of_nat (py_index len i)) ans
  | PBound len i ans => Z.eqb (py_bound len i) ans
  | PSetIndex l i v ans => option_eqb zl_eqb (set_index l i v) ans
  | PFill l a b v ans => zl_eqb (fill_slice l a b v) ans
  | PSetSlice l a b vals ans => option_eqb zl_eqb (set_slice 0 l a b vals) ans
  | PSliceFrom l n ans => zl_eqb (slice_from l n) ans
  | PSliceTo l n ans => zl_eqb (slice_to l n) ans
  | PRotate l n ans => zl_eqb (rotate_array l n) ans
  | PFast t ans => option_eqb Z.eqb (next_fast_len t) ans
  | PTable n nf ans => option_eqb zl_eqb (table_view n nf) ans
  end.
Definition show_py (c : pycase) : option (list Z) :=
  match c with
  | PIndex len i _ => option_map (fun k => [Z.of_nat k]) (py_index len i)
  | PBound len i _ => Some [py_bound len i]
  | PSetIndex l i v _ => set_index l i v
  | PFill l a b v _ => Some (fill_slice l a b v)
  | PSetSlice l a b vals _ => set_slice 0 l a b vals
  | PSliceFrom l n _ => Some (slice_from l n)
  | PSliceTo l n _ => Some (slice_to l n)
  | PRotate l n _ => Some (rotate_array l n)
  | PFast t _ => option_map (fun k => [k]) (next_fast_len t)
  | PTable n nf _ => table_view n nf
  end.

(* ---- make_toneburst / make_toneburst2 ---- *)
Definition tb_code (e : tb_error) : Z :=
  match e with TbNegStep => 1 | TbNegFreq => 2 | TbNegCycles => 3 | TbNegSamples => 4 | TbTooShort => 5 | TbBroadcast => 6 end.
Definition tb2_code (e : tb2_error) : Z :=
  match e with Tb2Toneburst e => tb_code e | Tb2FastLen => 11 | Tb2Zeros => 12 | Tb2Broadcast => 13 end.
(* class of a sample: 0 = zero, 1 = exactly one, 2 = anything else *)
Definition class_of (z : cq) : Z := if cq_eqb z q0 then 0 else if cq_eqb z (1%Q, 0%Q) then 1 else 2.
(* the two Hann end samples (positions e0, e1 of the array; pulses of at least 3 samples) are +-0.0 in the library *)
Definition classes (M e0 e1 : Z) (l : list cq) : list Z :=
  map (fun kz : Z * cq => if (3 <=? M) && ((fst kz =? e0) || (fst kz =? e1)) then 0 else class_of (snd kz))
      (combine (zrange (Z.of_nat (length l))) l).

Record tbcase := mkTB { b_cyc : Q; b_f : Q; b_dt : Q; b_ns : option Z; b_wrap : bool; b_an : bool;
                        b_ans : Z; b_cls : list Z }.
Definition model_tb (c : tbcase) : Z + list Z :=
  match make_toneburst NumQ (b_cyc c) (b_f c) (b_dt c) (b_ns c) (b_wrap c) (b_an c) with
  | inl e => inl (tb_code e)
  | inr l =>
      let M := pulse_len NumQ (b_cyc c) (b_f c) (b_dt c) in
      let h := M / 2 in
      let L := Z.of_nat (length l) in
      let e0 := if b_wrap c then (0 - h) mod L else 0 in
      let e1 := if b_wrap c then (M - 1 - h) mod L else M - 1 in
      inr (classes M e0 e1 l)
  end.
Definition chk_tb (c : tbcase) : bool :=
  match model_tb c with
  | inl e => Z.eqb e (b_ans c)
  | inr cl => Z.eqb (b_ans c) 0 && zl_eqb cl (b_cls c)
  end.

Record tb2case := mkTB2 { d_cyc : Q; d_f : Q; d_dt : Q; d_nb : Z; d_na : Z; d_an : bool; d_fast : bool;
                          d_ans : Z; d_start : Q; d_step : Q; d_lent : Z; d_t0 : Z; d_cls : list Z }.
Definition model_tb2 (c : tb2case) : Z + (Q * Q * Z * Z * list Z) :=
  match make_toneburst2 NumQ next_fast_len (d_cyc c) (d_f c) (d_dt c) (d_nb c) (d_na c) (d_an c) (d_fast c) with
  | inl e => inl (tb2_code e)
  | inr t =>
      let M := pulse_len NumQ (d_cyc c) (d_f c) (d_dt c) in
      let L := Z.of_nat (length (tb2_samples t)) in
      let a := py_bound L (d_nb c * M) in
      inr (tb2_start t, tb2_step t, L, tb2_t0 t, classes M a (a + M - 1) (tb2_samples t))
  end.
Definition chk_tb2 (c : tb2case) : bool :=
  match model_tb2 c with
  | inl e => Z.eqb e (d_ans c)
  | inr (st, sp, L, t0, cl) =>
      Z.eqb (d_ans c) 0 && (Z.eqb L 0 || Qeq_bool st (d_start c)) && Qeq_bool sp (d_step c) && Z.eqb L (d_lent c)
      && Z.eqb t0 (d_t0 c) && zl_eqb cl (d_cls c)
  end.

(* ---- n-dimensional arrays: row-major data ---- *)
Fixpoint flat_index (shape idx : list nat) : nat :=
  match shape, idx with
  | _ :: shape', i :: idx' => (i * fold_right Nat.mul 1 shape' + flat_index shape' idx')%nat
  | _, _ => O
  end.
Fixpoint all_idx (shape : list nat) : list (list nat) :=
  match shape with
  | [] => [[]]
  | s :: r => flat_map (fun i => map (cons i) (all_idx r)) (seq 0 s)
  end.
Definition arr_of (shape : list nat) (data : list cq) : list nat -> cq := fun idx => nth (flat_index shape idx) data q0.

Record hcase := mkH { h_shape : list Z; h_data : list cq; h_n : Z; h_axis : Z; h_exact : bool;
                      h_ans : Z; h_oshape : list Z; h_out : list cq }.
Definition model_hil (c : hcase) : Z + (list Z * list cq) :=
  let sh := map Z.to_nat (h_shape c) in
  match rfft_to_hilbert NumQ (if h_exact c then ifft_q else spec_ifft) sh (arr_of sh (h_data c)) (h_n c) (h_axis c) with
  | inl HIndexError => inl 1
  | inl HValueError => inl 2
  | inr (osh, out) => inr (map Z.of_nat osh, map out (all_idx osh))
  end.
Definition chk_hil (c : hcase) : bool :=
  match model_hil c with
  | inl e => Z.eqb e (h_ans c)
  | inr (osh, out) => Z.eqb (h_ans c) 0 && zl_eqb osh (h_oshape c) && cql_eqb out (h_out c)
  end.

(* ---- timeshift_spectra ---- *)
Record tscase := mkTS { s_ns : Z; s_nt : Z; s_nxf : Z; s_x : list cq; s_d : list Q; s_f : list Q;
                        s_ans : Z; s_oshape : list Z; s_out : list cq }.
Definition ts_entries (c : tscase) : option (list (bool * cq)) :=
  let ns := Z.to_nat (s_ns c) in let nt := Z.to_nat (s_nt c) in let nxf := Z.to_nat (s_nxf c) in
  let nf := length (s_f c) in
  let x := fun s t k : nat => nth ((s * nt + t) * nxf + k) (s_x c) q0 in
  let d := fun s t : nat => nth (s * nt + t) (s_d c) 0%Q in
  match timeshift_spectra NumQ nxf x d (s_f c) with
  | None => None
  | Some sh =>
      Some (flat_map (fun s => flat_map (fun t => map (fun k =>
              (Qeq_bool (d s t) 0 || Qeq_bool (nth k (s_f c) 0%Q) 0, sh s t k)) (seq 0 nf)) (seq 0 nt)) (seq 0 ns))
  end.
Fixpoint ts_match (m : list (bool * cq)) (l : list cq) : bool :=
  match m, l with
  | [], [] => true
  | (comparable, z) :: m', w :: l' => (if comparable then cq_eqb z w else true) && ts_match m' l'
  | _, _ => false
  end.
Definition chk_ts (c : tscase) : bool :=
  match ts_entries c with
  | None => Z.eqb (s_ans c) 1
  | Some m => Z.eqb (s_ans c) 0 && zl_eqb [s_ns c; s_nt c; Z.of_nat (length (s_f c))] (s_oshape c) && ts_match m (s_out c)
  end.

(* ---- transfer_func_to_timetraces ---- *)
Record tfcase := mkTF { c_hshape : list Z; c_h : list cq; c_dshape : list Z; c_d : list Q;
                        c_tt : Q * Q * Z; c_tb : Q * Q * Z; c_freq : list Q; c_tf : list cq; c_t0 : Z;
                        c_given : option (list cq); c_ans : Z; c_oshape : list Z; c_out : list cq }.
Definition mk_hin (shape : list Z) (h : list cq) : tf_input (T:=Q) :=
  match map Z.to_nat shape with
  | [nt; nf] => TF2 nt nf (fun t k => nth (t * nf + k) h q0)
  | [ns; nt; nf] => TF3 ns nt nf (fun s t k => nth ((s * nt + t) * nf + k) h q0)
  | _ => TFother
  end.
Definition mk_din (shape : list Z) (d : list Q) : delays_input (T:=Q) :=
  match map Z.to_nat shape with
  | [nt] => D1 nt (fun t => nth t d 0%Q)
  | [ns; nt] => D2 ns nt (fun s t => nth (s * nt + t) d 0%Q)
  | _ => Dother
  end.
Definition mk_time (t : Q * Q * Z) : time_axis (T:=Q) := mkTime (fst (fst t)) (snd (fst t)) (snd t).
Definition tf_code (e : tf_error) : Z :=
  match e with
  | TfUnpack => 1 | TfAssertShape => 2 | TfAssertNegative => 2 | TfNotImplemented => 3 | TfFreqMismatch => 5
  | TfBroadcast => 6 | TfHilbert HIndexError => 7 | TfHilbert HValueError => 8 | TfOutside => 9
  end.
Definition model_tf (c : tfcase) : Z + (list Z * list cq) :=
  let len := snd (c_tt c) in
  let given := option_map (fun g => fun (t : nat) (j : Z) => nth (t * Z.to_nat len + Z.to_nat j) g q0) (c_given c) in
  match transfer_func_to_timetraces NumQ ifft_q (mk_hin (c_hshape c) (c_h c)) (mk_din (c_dshape c) (c_d c))
          (mk_time (c_tt c)) (mk_time (c_tb c)) (c_freq c) (c_tf c) (c_t0 c) given with
  | inl e => inl (tf_code e)
  | inr (nt, len', out) =>
      inr ([Z.of_nat nt; len'], flat_map (fun t => map (fun j => out t (Z.of_nat j)) (seq 0 (Z.to_nat len'))) (seq 0 nt))
  end.
Definition chk_tf (c : tfcase) : bool :=
  match model_tf c with
  | inl e => Z.eqb e (c_ans c)
  | inr (osh, out) => Z.eqb (c_ans c) 0 && zl_eqb osh (c_oshape c) && cql_eqb out (c_out c)
  end.
"""


# ---------------------------------------------------------------------------------------------------------------------
# literals
# ---------------------------------------------------------------------------------------------------------------------
def ccq(z):
    z = complex(z)
    return cpair(cQ(z.real), cQ(z.imag))


def czl(l):
    return clist([cZ(int(v)) for v in l])


def cql(l):
    return clist([cQ(float(v)) for v in l])


def ccql(l):
    return clist([ccq(v) for v in l])


def jz(a):
    """JSON form of an array of complex / real numbers"""
    a = np.asarray(a)
    if np.iscomplexobj(a):
        return [[float(z.real), float(z.imag)] for z in a.ravel()]
    return [float(v) for v in a.ravel()]


def classes_of(a):
    """class of every sample of a library array: 0 = zero (either sign), 1 = exactly 1, 2 = anything else"""
    out = []
    for v in np.asarray(a).ravel():
        v = complex(v)
        out.append(0 if v == 0 else (1 if v == 1 else 2))
    return out


def run(chk, arim, rng, quick):
    import scipy.fftpack
    import arim.model as model
    import arim.signal as signal
    from arim.core import Time

    scale = 1 if quick else 10
    total = 0

    def ri(a, b):
        """integer in [a, b]"""
        return int(rng.integers(a, b + 1))

    def pick(seq):
        return seq[int(rng.integers(0, len(seq)))]

    def coin(p=0.5):
        return bool(rng.random() < p)

    def dyc(shape, lo=-8, hi=8):
        """complex dyadic values: multiples of 1/4"""
        return (rng.integers(lo, hi + 1, size=shape) * 0.25 + 1j * rng.integers(lo, hi + 1, size=shape) * 0.25).astype(complex)

    def dyr(shape, lo=-8, hi=8):
        return rng.integers(lo, hi + 1, size=shape).astype(np.float64) * 0.25

    def call(f, *a, **k):
        try:
            return ("ok", f(*a, **k))
        except BaseException as e:  # noqa: BLE001  (numba raises SystemError in one stream)
            if isinstance(e, (KeyboardInterrupt, MemoryError)):
                raise
            return (type(e).__name__, str(e))

    def report(fam, prefix, cases, bad, show):
        if not bad:
            return
        shown = {}
        try:
            out = chk.coq_values(f"tie_C11_{fam}_show", PREAMBLE, [f"{show} ({cases[i]['lit']})" for i in bad[:3]])
            parts = [p.strip() for p in re.split(r"(?m)^\s*= ", out)]
            for n_, i in enumerate(bad[:3]):
                shown[i] = parts[n_ + 1][:3000] if n_ + 1 < len(parts) else out[-3000:]
        except Exception as e:  # noqa: BLE001
            shown = {i: f"(could not print: {e})"[:500] for i in bad[:3]}
        for i in bad[:6]:
            c = cases[i]
            chk.violation(f"tie:{prefix}:{c['kind']}",
                          f"model of Synthesis.v and the library disagree ({CORR[fam]}) on {c['kind']}",
                          dict(c["replay"], model_answer=shown.get(i, "differs from the library's answer (see coq_case)"),
                               coq_case=c["lit"][:6000], correspondence=CORR[fam]),
                          failing_input_found=False)

    # =====================================================================================================================
    # A. Python / numpy helpers, next_fast_len, the weight table
    # =====================================================================================================================
    cases = []

    def add_py(kind, lit, replay):
        cases.append({"kind": kind, "lit": lit, "replay": replay})
        chk.count(tie_C11=f"py:{kind}")

    def py_index_case(ln, i):
        try:
            r = range(ln)[i]
        except IndexError:
            r = None
        add_py("index", f"PIndex {cZ(ln)} {cZ(i)} {copt(r, cZ)}", {"len": ln, "i": i, "library_answer": r if r is not None else "IndexError"})

    def py_bound_case(ln, i):
        r = slice(i, None).indices(ln)[0]
        add_py("bound", f"PBound {cZ(ln)} {cZ(i)} {cZ(r)}", {"len": ln, "i": i, "library_answer": r})

    def set_index_case(l, i, v):
        a = np.array(l, dtype=np.int64)
        try:
            a[i] = v
            r = [int(x) for x in a]
        except IndexError:
            r = None
        add_py("set_index", f"PSetIndex {czl(l)} {cZ(i)} {cZ(v)} {copt(r, czl)}",
               {"l": l, "i": i, "v": v, "library_answer": r if r is not None else "IndexError"})

    def fill_case(l, lo, hi, v):
        a = np.array(l, dtype=np.int64)
        a[lo:hi] = v
        r = [int(x) for x in a]
        add_py("fill_slice", f"PFill {czl(l)} {cZ(lo)} {cZ(hi)} {cZ(v)} {czl(r)}", {"l": l, "a": lo, "b": hi, "v": v, "library_answer": r})

    def set_slice_case(l, lo, hi, vals):
        a = np.array(l, dtype=np.int64)
        try:
            a[lo:hi] = np.array(vals, dtype=np.int64)
            r = [int(x) for x in a]
        except ValueError:
            r = None
        add_py("set_slice:" + ("fit" if r is not None and len(vals) != 1 else ("one" if r is not None else "error")),
               f"PSetSlice {czl(l)} {cZ(lo)} {cZ(hi)} {czl(vals)} {copt(r, czl)}",
               {"l": l, "a": lo, "b": hi, "vals": vals, "library_answer": r if r is not None else "ValueError"})

    def slices_case(l, n):
        add_py("slice_from", f"PSliceFrom {czl(l)} {cZ(n)} {czl(l[n:])}", {"l": l, "n": n, "library_answer": l[n:]})
        add_py("slice_to", f"PSliceTo {czl(l)} {cZ(n)} {czl(l[:n])}", {"l": l, "n": n, "library_answer": l[:n]})
        arr = l if coin(0.3) and l else np.array(l, dtype=np.int64)
        r = [int(x) for x in model._rotate_array(arr, n)]
        add_py("rotate", f"PRotate {czl(l)} {cZ(n)} {czl(r)}", {"arr": l, "n": n, "library_answer": r})

    def fast_case(t):
        kind, r = call(scipy.fftpack.next_fast_len, t)
        if kind == "ok":
            ans = int(r)
        elif kind == "ValueError":
            ans = None
        else:
            ans = -99
        add_py("fast_len" + (":negative" if t < 0 else ""), f"PFast {cZ(t)} {copt(ans, cZ)}",
               {"target": t, "library_answer": ans if ans is not None else "ValueError"})

    def table_case(n, nf):
        kind, y = call(signal.rfft_to_hilbert, np.ones(nf, dtype=pick([complex, float])), n)
        if kind == "ok":
            w = np.fft.fft(y)
            r = [int(round(float(v.real))) for v in w]
            if len(w) != n or any(abs(v - k) > 1e-7 for v, k in zip(w, r)):
                r = [-99]
        elif kind == "IndexError":
            r = None
        else:
            r = [-98]
        add_py("table:" + ("IndexError" if r is None else ("even" if n % 2 == 0 else "odd")),
               f"PTable {cZ(n)} {cZ(nf)} {copt(r, czl)}", {"n": n, "numfreq": nf, "library_answer": r if r is not None else "IndexError"})

    for ln in range(0, 5):
        for i in range(-ln - 2, ln + 3):
            py_index_case(ln, i)
            py_bound_case(ln, i)
    slices_case([1, 2, 3, 4, 5, 6, 7], 2)
    slices_case([1, 2, 3, 4, 5, 6, 7], -2)
    for t in [-1, 0, 1, 7, 11, 13, 17, 75, 100, 121, 127, 405, 481, 1001, -7, 2, 3, 4, 5, 6, 2049, 3125, 3126]:
        fast_case(t)
    for n, nf in [(8, 5), (7, 4), (8, 4), (7, 3), (4, 5), (1, 1), (2, 1), (2, 2), (5, 0), (24, 12), (24, 13), (3, 1), (6, 9)]:
        table_case(n, nf)
    for _ in range(40 * scale):
        ln = ri(0, 9)
        l = [ri(-9, 9) for _ in range(ln)]
        py_index_case(ri(0, 40), ri(-45, 45))
        py_bound_case(ri(0, 40), ri(-45, 45))
        set_index_case(l, ri(-ln - 2, ln + 2), ri(10, 20))
        fill_case(l, ri(-ln - 3, ln + 3), ri(-ln - 3, ln + 3), ri(10, 20))
        lo, hi = ri(-ln - 3, ln + 3), ri(-ln - 3, ln + 3)
        size = len(l[lo:hi])
        u = rng.random()
        nv = size if u < 0.5 else (1 if u < 0.7 else (0 if u < 0.8 else ri(0, ln + 2)))
        set_slice_case(l, lo, hi, [ri(10, 20) for _ in range(nv)])
        slices_case(l, ri(-ln - 3, ln + 3))
        fast_case(ri(0, 60) if coin(0.3) else (ri(-20, -1) if coin(0.1) else ri(61, 6000)))
        n = ri(1, 40)
        table_case(n, pick([n // 2 + 1, n // 2 + 1, n // 2, (n + 1) // 2, ri(0, 30), n, n + 3]))
    bad = chk.coq_failing("tie_C11_py", PREAMBLE, "pycase", [c["lit"] for c in cases], "chk_py", shard=500)
    report("py", "py", cases, bad, "show_py")
    total += len(cases)

    # =====================================================================================================================
    # B. make_toneburst / make_toneburst2
    # =====================================================================================================================
    ANS_TB = {0: "ok", 1: "negative time step", 2: "negative centre frequency", 3: "negative number of cycles",
              4: "negative number of time samples", 5: "too short", 11: "next_fast_len ValueError", 12: "np.zeros ValueError",
              13: "broadcast ValueError"}
    ANS_TF = {0: "ok", 1: "unpack ValueError", 2: "AssertionError", 3: "NotImplementedError", 5: "core-dimension ValueError",
              6: "broadcast ValueError", 7: "IndexError", 8: "no-data-point ValueError", 9: "(outside the window: not compared)"}
    TB_MSG = {"negative time step": 1, "negative centre frequency": 2, "negative number of cycles": 3,
              "negative number of time samples": 4, "time vector is too short for this pulse": 5}

    def exact_quotient(cyc, f, dt):
        """num_cycles / centre_freq / dt is computed without rounding by the library (binary64)"""
        try:
            q1 = cyc / f
            q2 = q1 / dt
        except ZeroDivisionError:
            return True   # dt <= 0 / f <= 0 is rejected before the quotient
        if not (np.isfinite(q1) and np.isfinite(q2)):
            return False
        return F(cyc) / F(f) == F(float(q1)) and F(float(q1)) / F(dt) == F(float(q2))

    def pulse_params():
        """(cycles, f, dt) with an exact quotient of moderate size"""
        for _ in range(200):
            u = rng.random()
            if u < 0.4:
                f = 2.0 ** ri(-2, 22)
                b = ri(0, 6)
                dt = 2.0 ** (-b) / f * pick([1, 1, 2, 0.5])
                cyc = pick([1, 2, 3, 4, 5, 7, 10, 0.5, 1.5, 2.5, 7.5, 2.25, 0.125, 12])
            elif u < 0.7:
                fi = pick([3, 5, 6, 10, 1.5, 12])
                cyc = fi * pick([1, 2, 3, 4, 0.5, 0.25, 7])
                f = fi
                dt = pick([1.0, 0.5, 0.25, 0.125, 0.75, 0.375, 1.5, 0.0625, 3.0, 0.3125])
            else:
                cyc = pick([1, 2, 3, 4, 5, 6, 7.5, 0.5, 10, 2.25, 9])
                f = pick([0.25, 0.5, 1, 2, 4, 8, 3, 5, 1.5, 0.75])
                dt = pick([1.0, 0.5, 0.25, 0.125, 0.0625, 0.03125, 0.75, 0.375, 1.5, 2.0, 0.1875])
            if not exact_quotient(cyc, f, dt):
                chk.count(tie_C11="toneburst:skipped-inexact-quotient")
                continue
            if cyc / f / dt > 140:
                continue
            return cyc, f, dt
        return 3, 1, 0.5

    def spell_num(x):
        """the same number as int / float / numpy scalar"""
        u = rng.random()
        if float(x) == int(x) and u < 0.4:
            return int(x)
        if u < 0.55:
            return np.float64(x)
        return float(x)

    def pulse_len_of(cyc, f, dt):
        q = F(cyc) / F(f) / F(dt)
        lp = -((-q.numerator) // q.denominator)
        return lp + 1 if lp % 2 == 0 else lp

    cases = []

    def tb_case(cyc, f, dt, ns, wrap, an, kind, how="kw"):
        if how == "pos":
            kind_, r = call(model.make_toneburst, cyc, f, dt, ns, wrap, an)
        elif how == "absent":
            assert ns is None and not wrap and not an
            kind_, r = call(model.make_toneburst, cyc, f, dt)
        else:
            kind_, r = call(model.make_toneburst, num_cycles=cyc, centre_freq=f, dt=dt, num_samples=ns, wrap=wrap, analytical=an)
        if kind_ == "ok":
            ans, cls, lib = 0, classes_of(r), {"len": len(r), "classes": "".join(map(str, classes_of(r)))}
        elif kind_ == "ValueError" and r in TB_MSG:
            ans, cls, lib = TB_MSG[r], [], f"ValueError({r})"
        else:
            ans, cls, lib = 99, [], f"{kind_}({r})"
        lit = (f"mkTB {cQ(float(cyc))} {cQ(float(f))} {cQ(float(dt))} {copt(None if ns is None else int(ns), cZ)} "
               f"{cbool(wrap)} {cbool(an)} {cZ(ans)} {czl(cls)}")
        cases.append({"kind": kind, "lit": lit,
                      "replay": {"call": "arim.model.make_toneburst", "num_cycles": float(cyc), "centre_freq": float(f), "dt": float(dt),
                                 "num_samples": None if ns is None else int(ns), "wrap": wrap, "analytical": an,
                                 "library_answer": lib}})
        chk.count(tie_C11=f"make_toneburst:{kind}")
        chk.count(tie_C11_answers=f"make_toneburst:{kind.split(':')[0]}->{ANS_TB.get(ans, ans)}")

    # the examples of the note
    for (cyc, f, dt, ns) in [(5, 5, 0.0, None), (5, -1, 0.0, None), (0, -1, 1.0, None), (0, 1, 1.0, 0), (1, 1, 1.0, 0), (3, 1, 1.0, 2)]:
        tb_case(cyc, f, dt, ns, False, False, "fixed-error")
    tb_case(3, 1, 0.5, 9, False, False, "fixed")
    tb_case(3, 1, 0.5, None, False, False, "fixed", how="absent")
    tb_case(5, 5, 1 / 32, 40, False, False, "fixed")
    tb_case(3, 1, 0.5, 9, True, False, "fixed")
    tb_case(3, 1, 0.5, 9, True, True, "fixed")
    tb_case(1, 1, 1.0, 4, True, False, "fixed-one-sample")
    tb_case(1, 2, 1.0, 3, False, True, "fixed-one-sample")
    for _ in range(110 * scale):
        cyc, f, dt = pulse_params()
        M = pulse_len_of(cyc, f, dt)
        u = rng.random()
        if u < 0.25:
            ns = None
        elif u < 0.45:
            ns = M
        elif u < 0.6:
            ns = M + 1
        else:
            ns = M + ri(2, M + 6)
        if ns is not None and coin(0.3):
            ns = np.int64(ns)
        wrap, an = coin(0.5), coin(0.4)
        kind = ("one-sample" if M == 1 else "pulse") + (":wrap" if wrap else "") + (":analytical" if an else "") + \
               (":exact-length" if ns is None or ns == M else ":padded")
        if ns is None and not wrap and not an and coin(0.5):
            tb_case(spell_num(cyc), spell_num(f), spell_num(dt), None, False, False, kind, how="absent")
        else:
            tb_case(spell_num(cyc), spell_num(f), spell_num(dt), ns, wrap, an, kind, how=pick(["kw", "pos"]))
    for _ in range(40 * scale):
        # error stream: one or several offending arguments (the first test that fails decides)
        cyc, f, dt = pulse_params()
        M = pulse_len_of(cyc, f, dt)
        ns = pick([None, M, M + 3])
        which = set()
        if coin(0.5):
            which.add(pick(["dt", "f", "cyc", "ns", "short", "short"]))
        else:
            for name in ("dt", "f", "cyc", "ns", "short"):
                if coin(0.35):
                    which.add(name)
            if not which:
                which.add(pick(["dt", "f", "cyc", "ns", "short"]))
        if M == 1:
            which.discard("short")      # a one-sample pulse fits in every positive number of samples
            if not which:
                which.add("dt")
        if "short" in which:
            ns = pick([M - 1, M - 2, 1, max(1, M // 2)])
        if "ns" in which:
            ns = pick([0, -1, -M])
        if "cyc" in which:
            cyc = pick([0, -1, -2.5, 0.0, -0.0])
        if "f" in which:
            f = pick([0, -1, -0.5, 0.0, -0.0])
        if "dt" in which:
            dt = pick([0, 0.0, -0.0, -0.25, -1])
        tb_case(cyc, f, dt, ns, coin(0.3), coin(0.3), "error:" + "+".join(sorted(which)), how=pick(["kw", "pos"]))
    bad = chk.coq_failing("tie_C11_tb", PREAMBLE, "tbcase", [c["lit"] for c in cases], "chk_tb", shard=60)
    report("tb", "make_toneburst", cases, bad, "model_tb")
    total += len(cases)

    cases = []

    def tb2_case(cyc, f, dt, nb, na, an, fast, kind, absent=()):
        kw = {}
        if "nb" not in absent:
            kw["num_before"] = nb
        if "na" not in absent:
            kw["num_after"] = na
        if "an" not in absent:
            kw["analytical"] = an
        if "fast" not in absent:
            kw["use_fast_len"] = fast
        kind_, r = call(model.make_toneburst2, cyc, f, dt, **kw)
        start = step = 0.0
        lent = t0 = 0
        cls = []
        if kind_ == "ok":
            tt, arr, t0 = r
            ans = 0
            # a Time of zero samples has no .start (IndexError in arim.core.Time.start): a one-sample pulse with
            # num_before = -1, num_after = 0, use_fast_len=False gives such an (empty) toneburst; the origin is then not compared
            step, lent = float(tt.step), len(tt)
            start = float(tt.start) if lent > 0 else 0.0
            cls = classes_of(arr)
            if len(arr) != lent or not isinstance(t0, (int, np.integer)):
                ans = 97
            lib = {"start": start, "step": step, "len_time": lent, "len_array": len(arr), "t0_idx": int(t0), "classes": "".join(map(str, cls))}
        elif kind_ == "ValueError" and r in TB_MSG:
            ans, lib = TB_MSG[r], f"ValueError({r})"
        elif kind_ == "ValueError" and "Target length must be positive" in r:
            ans, lib = 11, f"ValueError({r})"
        elif kind_ == "ValueError" and "negative dimensions" in r:
            ans, lib = 12, f"ValueError({r})"
        elif kind_ == "ValueError" and "could not broadcast" in r:
            ans, lib = 13, f"ValueError({r})"
        else:
            ans, lib = 99, f"{kind_}({r})"
        lit = (f"mkTB2 {cQ(float(cyc))} {cQ(float(f))} {cQ(float(dt))} {cZ(nb)} {cZ(na)} {cbool(an)} {cbool(fast)} {cZ(ans)} "
               f"{cQ(start)} {cQ(step)} {cZ(lent)} {cZ(int(t0))} {czl(cls)}")
        cases.append({"kind": kind, "lit": lit,
                      "replay": {"call": "arim.model.make_toneburst2", "num_cycles": float(cyc), "centre_freq": float(f), "dt": float(dt),
                                 "num_before": nb, "num_after": na, "analytical": an, "use_fast_len": fast,
                                 "arguments_left_to_their_defaults": sorted(absent), "library_answer": lib}})
        chk.count(tie_C11=f"make_toneburst2:{kind}")
        chk.count(tie_C11_answers=f"make_toneburst2:{kind.split(':')[0]}->{ANS_TB.get(ans, ans)}")

    tb2_case(5, 5, 1 / 32, 2, 1, False, True, "fixed", absent=("nb", "na", "an", "fast"))
    tb2_case(5, 5, 1 / 32, 1, 1, False, True, "fixed")
    tb2_case(3, 1, 0.5, 0, 0, False, True, "fixed")
    tb2_case(3, 1, 0.5, 0, 0, True, False, "fixed")
    tb2_case(3, 1, 0.5, -2, 3, False, True, "fixed-negative-before")
    for nb, na in [(-1, 0), (0, -1), (-1, 3)]:
        tb2_case(3, 1, 0.5, nb, na, False, True, "fixed-broadcast-error")
    tb2_case(3, 1, 0.0, 2, 1, False, True, "fixed-error", absent=("nb", "na", "an", "fast"))
    tb2_case(1, 1, 1.0, 2, 1, False, True, "fixed-one-sample")
    tb2_case(3, 1, 0.5, -3, 0, False, True, "fixed-fastlen-error")
    tb2_case(3, 1, 0.5, -3, 0, False, False, "fixed-zeros-error")
    for _ in range(100 * scale):
        cyc, f, dt = pulse_params()
        M = pulse_len_of(cyc, f, dt)
        if M > 61:
            continue
        u = rng.random()
        if u < 0.7:
            nb, na = ri(0, 4), ri(0, 4)
            kind = "padding"
        elif u < 0.85:
            nb, na = ri(-3, -1), ri(0, 5)
            kind = "negative-before"
        elif u < 0.95:
            nb, na = ri(0, 4), ri(-4, -1)
            kind = "negative-after"
        else:
            nb, na = ri(-3, -1), ri(-3, -1)
            kind = "negative-both"
        an, fast = coin(0.4), coin(0.6)
        absent = set()
        if nb == 2 and coin(0.7):
            absent.add("nb")
        if na == 1 and coin(0.7):
            absent.add("na")
        if not an and coin(0.4):
            absent.add("an")
        if fast and coin(0.5):
            absent.add("fast")
        if coin(0.06):
            dt_, kind = pick([0.0, -0.5]), "error-toneburst"
        else:
            dt_ = dt
        tb2_case(spell_num(cyc), spell_num(f), spell_num(dt_), nb, na, an, fast,
                 kind + (":fast" if fast else ":exact") + (":analytical" if an else ""), absent=tuple(sorted(absent)))
    bad = chk.coq_failing("tie_C11_tb2", PREAMBLE, "tb2case", [c["lit"] for c in cases], "chk_tb2", shard=50)
    report("tb2", "make_toneburst2", cases, bad, "model_tb2")
    total += len(cases)

    # =====================================================================================================================
    # C. rfft_to_hilbert on n-dimensional arrays
    # =====================================================================================================================
    cases = []

    def hil_case(x, n, axis, kind, axis_absent=False):
        x = np.asarray(x)
        exact = n in (1, 2, 4)
        if axis_absent:
            kind_, r = call(signal.rfft_to_hilbert, x, n)
        else:
            kind_, r = call(signal.rfft_to_hilbert, x, n, pick([axis, np.int64(axis)]) if coin(0.2) else axis)
        oshape, out = [], []
        if kind_ == "ok":
            ans = 0
            oshape = list(r.shape)
            if exact:
                vals = r
            else:
                # spectrum view: the forward FFT of the result, on the grid 1/64
                ax = axis if axis >= 0 else axis + x.ndim
                sp = np.fft.fft(r, axis=ax) if r.size else r
                vals = np.round(sp * 64) / 64
                if r.size and np.max(np.abs(vals - sp)) > 1e-7:
                    ans = 98
            out = [complex(v) for v in np.asarray(vals, dtype=complex).ravel()]
            lib = {"shape": oshape, ("entries" if exact else "spectrum_of_result"): jz(np.asarray(vals, dtype=complex))}
        elif kind_ == "IndexError":
            ans, lib = 1, f"IndexError({r})"
        elif kind_ == "ValueError":
            ans, lib = 2, f"ValueError({r})"
        else:
            ans, lib = 99, f"{kind_}({r})"
        lit = (f"mkH {czl(x.shape)} {ccql(x.ravel())} {cZ(n)} {cZ(axis)} {cbool(exact)} {cZ(ans)} {czl(oshape)} {ccql(out)}")
        cases.append({"kind": kind, "lit": lit,
                      "replay": {"call": "arim.signal.rfft_to_hilbert", "xf_shape": list(x.shape), "xf_dtype": str(x.dtype),
                                 "xf": jz(x), "n": int(n), "axis": "absent (-1)" if axis_absent else int(axis),
                                 "library_answer": lib}})
        chk.count(tie_C11=f"rfft_to_hilbert:{kind}:{'exact-ifft' if exact else 'spectrum-view'}:ndim{x.ndim}")
        chk.count(tie_C11_answers=f"rfft_to_hilbert:{kind}->{ {0: 'ok', 1: 'IndexError', 2: 'ValueError'}.get(ans, ans)}")

    def xa(shape):
        i, k = np.indices(shape)
        return (i + 1) * (k + 1) + 1j * (i - k)

    hil_case(xa((2, 3)), 4, -1, "fixed", axis_absent=True)
    hil_case(xa((2, 3)), 4, 1, "fixed")
    hil_case(xa((3, 2)), 4, 0, "fixed")
    hil_case(xa((3, 2)), 4, -2, "fixed")
    hil_case(xa((2, 3)), 2, -1, "fixed")
    hil_case(xa((2, 3)), 1, 0, "fixed")
    for sh, n, ax in [((), 4, -1), ((), 1, 0), ((), 0, -1), ((), 0, 0), ((), -1, -1), ((), -1, 1), ((), -2, -2), ((2, 3), 4, 2), ((2, 3), 4, -3), ((2, 2), 4, -1), ((2, 0), 4, -1), ((2, 3), 0, -1), ((2, 3), 4, 0)]:
        hil_case(xa(sh) if sh else np.array(1 + 0j), n, ax, "fixed-error")

    def rand_array(shape):
        u = rng.random()
        if u < 0.7:
            return dyc(shape)
        if u < 0.85:
            return dyr(shape)
        return rng.integers(-8, 9, size=shape)

    for _ in range(70 * scale):
        nd = pick([1, 1, 2, 2, 2, 3, 3])
        u = rng.random()
        n = pick([1, 2, 4, 4, 4]) if u < 0.5 else ri(1, 12)
        axis_pos = ri(0, nd - 1)
        # the number of bins: enough for n (mostly), sometimes more (ignored bins), sometimes fewer (zero padding / IndexError)
        nf = pick([n // 2 + 1, n // 2 + 1, n // 2 + 1, n // 2 + 2, n + 1, (n + 1) // 2, max(0, n // 2), ri(0, 7)])
        shape = [pick([1, 2, 2, 3, 0]) if coin(0.15) else ri(1, 3) for _ in range(nd)]
        shape[axis_pos] = nf
        axis = axis_pos if coin(0.5) else axis_pos - nd
        x = rand_array(tuple(shape))
        kind = "valid"
        v = rng.random()
        if v < 0.08:
            axis, kind = pick([nd, nd + 1, -nd - 1, -nd - 2]), "axis-out-of-range"
        elif v < 0.16:
            n, kind = pick([0, 0, -1, -2, -3, -4, -7, -8]), "n-not-positive"
        absent = (axis == -1 and coin(0.6))
        hil_case(x, n, axis, kind, axis_absent=absent)
    for _ in range(4 * scale):
        # 0-d input, n >= 1: IndexError (scipy looks the axis up in the empty shape), whatever the axis
        hil_case(np.array(pick([1 + 0j, 2.5, -0.25j])), ri(1, 9), pick([-1, 0, 1, -2]), "0-d")
    for _ in range(4 * scale):
        # 0-d input, n < 1: ValueError (scipy checks n before the axis), whatever the axis; default axis too
        ax0 = pick([-1, -1, 0, 1, -2, 2])
        hil_case(np.array(pick([1 + 0j, 2.5, -0.25j])), pick([0, 0, -1, -1, -2, -3, -4, -7, -8]), ax0, "0-d:n-not-positive",
                 axis_absent=(ax0 == -1 and coin(0.5)))
    bad = chk.coq_failing("tie_C11_hil", PREAMBLE, "hcase", [c["lit"] for c in cases], "chk_hil", shard=60)
    report("hil", "rfft_to_hilbert", cases, bad, "model_hil")
    total += len(cases)

    # =====================================================================================================================
    # D. timeshift_spectra
    # =====================================================================================================================
    cases = []

    def ts_case(x, d, fr, kind):
        """x of shape (ns, nt, nxf) or (nt, nxf); d of shape (ns, nt) or (nt,)"""
        kind_, r = call(signal.timeshift_spectra, x, d, fr)
        x3 = x.reshape((1,) * (3 - x.ndim) + x.shape)
        d2 = np.asarray(d, dtype=float).reshape((1,) * (2 - d.ndim) + d.shape)
        ns, nt, nxf = x3.shape
        oshape, out = [], []
        if kind_ == "ok":
            ans = 0
            r = np.asarray(r)
            r3 = r.reshape((1,) * (3 - r.ndim) + r.shape) if r.ndim == x.ndim and r.ndim <= 3 else r
            oshape = list(r3.shape)
            if r3.ndim != 3 or r3.shape != (ns, nt, len(fr)):
                ans = 97
            else:
                comparable = (d2[:, :, None] == 0) | (np.asarray(fr, dtype=float)[None, None, :] == 0)
                out = [complex(v) if c_ else 0j for v, c_ in zip(r3.ravel(), np.broadcast_to(comparable, r3.shape).ravel())]
            lib = {"shape": list(r.shape), "entries": jz(r)}
        elif kind_ == "ValueError":
            ans, lib = 1, f"ValueError({r[:160]})"
        else:
            ans, lib = 99, f"{kind_}({r[:160]})"
        lit = (f"mkTS {cZ(ns)} {cZ(nt)} {cZ(nxf)} {ccql(x3.ravel())} {cql(d2.ravel())} {cql(fr)} {cZ(ans)} {czl(oshape)} {ccql(out)}")
        cases.append({"kind": kind, "lit": lit,
                      "replay": {"call": "arim.signal.timeshift_spectra", "unshifted_x_shape": list(x.shape), "unshifted_x": jz(x),
                                 "delays_shape": list(np.shape(d)), "delays": jz(d), "freq_array": jz(fr), "library_answer": lib}})
        chk.count(tie_C11=f"timeshift_spectra:{kind}")
        chk.count(tie_C11_answers=f"timeshift_spectra:{kind.split(':')[0]}->{ {0: 'ok', 1: 'ValueError'}.get(ans, ans)}")

    Hs = np.array([[[10 * s_ + t + 1j * k for k in range(3)] for t in range(3)] for s_ in range(2)], dtype=complex)
    fr3 = np.array([0., 1., 2.])
    ts_case(Hs[..., :1].copy(), np.zeros((2, 3)), fr3, "fixed:one-frequency")
    ts_case(Hs, np.zeros((2, 3)), fr3, "fixed:all-frequencies")
    ts_case(Hs[..., :2].copy(), np.zeros((2, 3)), fr3, "fixed:mismatch")
    for _ in range(45 * scale):
        ns, nt = pick([1, 1, 2, 2, 3]), pick([0, 1, 2, 2, 3, 3])
        nf = pick([0, 1, 2, 3, 3, 4])
        u = rng.random()
        if u < 0.4:
            nxf, kind = 1, "one-frequency"
        elif u < 0.8:
            nxf, kind = nf, "all-frequencies"
        else:
            nxf, kind = pick([0, 1, 2, 3, 4, 5]), "other"
        if nxf != 1 and nxf != nf:
            kind = "mismatch"
        elif nxf == nf and nf != 1 and kind == "other":
            kind = "all-frequencies"
        elif nxf == 1 and kind == "other":
            kind = "one-frequency"
        x = dyc((ns, nt, nxf))
        d = np.where(rng.random((ns, nt)) < 0.6, 0.0, dyr((ns, nt)))
        fr = np.where(rng.random(nf) < 0.35, 0.0, dyr(nf, 0, 12))
        if ns == 1 and coin(0.5):
            ts_case(np.ascontiguousarray(x[0]), np.ascontiguousarray(d[0]), fr, kind + ":2-D")
        else:
            ts_case(x, d, fr, kind + ":3-D")
    bad = chk.coq_failing("tie_C11_ts", PREAMBLE, "tscase", [c["lit"] for c in cases], "chk_ts", shard=60)
    report("ts", "timeshift_spectra", cases, bad, "ts_entries")
    total += len(cases)

    # =====================================================================================================================
    # E. transfer_func_to_timetraces
    # =====================================================================================================================
    cases = []

    def tf_case(H, d, tt, tb, fr, tf, t0, given, kind, outside=False):
        """tt, tb = (start, step, len) of the two Time objects"""
        ttime, btime = Time(*tt), Time(*tb)
        g = None if given is None else given.copy()
        args = (H, d, ttime, btime, fr, tf, t0)
        if g is None and coin(0.5):
            kind_, r = call(model.transfer_func_to_timetraces, *args)
        elif coin(0.5):
            kind_, r = call(model.transfer_func_to_timetraces, *args, g)
        else:
            kind_, r = call(model.transfer_func_to_timetraces, *args, timetraces=g)
        oshape, out = [], []
        if outside:
            # outside the domain of the property: the library's behaviour is recorded, the model must answer TfOutside
            ans = 9
            lib = f"{kind_}" + ("" if kind_ == "ok" else f"({str(r)[:100]})")
            chk.count(tie_C11_outside_window=f"library:{kind_}")
        elif kind_ == "SystemError":
            # numba's prange loop met a slice that does not fit (the only source of SystemError): the model must say TfOutside
            ans = 9
            lib = f"SystemError({str(r)[:100]})"
            chk.count(tie_C11_outside_window="library:SystemError (not generated as outside)")
        elif kind_ == "ok":
            ans = 0
            r = np.asarray(r)
            oshape = list(r.shape)
            out = [complex(v) for v in r.ravel()]
            if g is not None and r is not g:
                ans = 96   # the given array must be written in place and returned
            lib = {"shape": oshape, "entries": jz(r), "same_object_as_given": (r is g) if g is not None else None}
        else:
            msg = str(r)
            if kind_ == "ValueError" and "values to unpack" in msg:
                ans = 1
            elif kind_ == "AssertionError":
                ans = 2
            elif kind_ == "NotImplementedError":
                ans = 3
            elif kind_ == "ValueError" and "core dimension" in msg:
                ans = 5
            elif kind_ == "ValueError" and "broadcast" in msg:
                ans = 6
            elif kind_ == "IndexError":
                ans = 7
            elif kind_ == "ValueError" and "invalid number of data points" in msg:
                ans = 8
            else:
                ans = 99
            lib = f"{kind_}({msg[:160]})"
        H_, d_ = np.asarray(H), np.asarray(d)
        # ttime.start is samples[0] = the start given (the model takes start, step, len)
        lit = (f"mkTF {czl(H_.shape)} {ccql(H_.ravel())} {czl(d_.shape)} {cql(d_.ravel())} "
               f"{cpair(cQ(float(tt[0])), cQ(float(tt[1])), cZ(tt[2]))} {cpair(cQ(float(tb[0])), cQ(float(tb[1])), cZ(tb[2]))} "
               f"{cql(fr)} {ccql(tf)} {cZ(t0)} {copt(None if given is None else given.ravel(), ccql)} {cZ(ans)} {czl(oshape)} {ccql(out)}")
        cases.append({"kind": kind, "lit": lit,
                      "replay": {"call": "arim.model.transfer_func_to_timetraces",
                                 "unshifted_transfer_func_shape": list(H_.shape), "unshifted_transfer_func_dtype": str(H_.dtype),
                                 "unshifted_transfer_func": jz(H_), "delays_shape": list(d_.shape), "delays": jz(d_),
                                 "timetraces_time": list(tt), "toneburst_time": list(tb), "toneburst_freq": jz(fr),
                                 "toneburst_f": jz(tf), "toneburst_t0_idx": int(t0),
                                 "timetraces": None if given is None else {"shape": list(given.shape), "entries": jz(given)},
                                 "library_answer": lib}})
        chk.count(tie_C11=f"transfer_func_to_timetraces:{kind}")
        chk.count(tie_C11_answers=f"transfer_func_to_timetraces:{kind if kind.startswith(('error', 'fixed-error')) else kind.split(':')[0]}->{ANS_TF.get(ans, ans)}")

    # --- the examples of the note (E7)
    tfq = np.array([1.5, -0.5 - 1j, -0.5])
    frq = np.array([0., 1., 2.])
    TT, TB_ = (0.5, 0.25, 12), (-0.25, 0.25, 4)
    H3 = np.array([[[2], [1j]], [[1 + 1j], [-1]]], dtype=complex)
    d3 = 0.5 + np.array([[3, 5], [4, 5]]) * 0.25
    tf_case(H3, d3, TT, TB_, frq, tfq, 1, None, "fixed:3-D")
    tf_case(H3[0], d3[0], TT, TB_, frq, tfq, 1, None, "fixed:2-D")
    tf_case(H3[0], d3[:1], TT, TB_, frq, tfq, 1, None, "fixed:2-D")
    tf_case(np.array([[(t + 1) * (1 + k) for k in range(3)] for t in range(2)], dtype=complex), d3[0], TT, TB_, frq, tfq, 1, None,
            "fixed:all-frequencies")
    tf_case(H3[0], d3[0], TT, TB_, frq, tfq, 1, np.ones((2, 12), dtype=complex), "fixed:given")
    tf_case(H3[0, :, 0], d3[0], TT, TB_, frq, tfq, 1, None, "fixed-error:unpack")
    tf_case(H3, d3[0], TT, TB_, frq, tfq, 1, None, "fixed-error:assert-shape")
    tf_case(H3[0], d3, TT, TB_, frq, tfq, 1, None, "fixed-error:assert-shape")
    tf_case(H3[0], np.array([1., 1., 1.]), TT, TB_, frq, tfq, 1, None, "fixed-error:assert-shape")
    tf_case(np.ones((2, 2), dtype=complex), d3[0], TT, TB_, frq, tfq, 1, None, "fixed-error:core-dimension")
    tf_case(H3[0], np.array([0.25, 0.25]), TT, TB_, frq, tfq, 1, None, "fixed-error:assert-negative")
    tf_case(H3[0], d3[0], TT, (-0.25, 0.125, 4), frq, tfq, 1, None, "fixed-error:not-implemented")
    tf_case(H3[0], d3[0], TT, TB_, frq, np.array([1.5, 1 + 0j]), 1, None, "fixed-error:broadcast")
    tf_case(H3[0], d3[0], TT, TB_, np.array([0., 1.]), np.array([1.5, 1 + 0j]), 1, None, "fixed-error:IndexError")
    tf_case(H3[0], d3[0], TT, (-0.25, 0.25, 0), frq, tfq, 1, None, "fixed-error:no-data-point")
    tf_case(H3[0], np.array([0.5, 0.5]), TT, TB_, frq, tfq, 1, None, "outside", outside=True)
    tf_case(H3[0], np.array([1.25, 3.0]), TT, TB_, frq, tfq, 1, None, "outside", outside=True)

    def tf_random(err=None):
        dt = 2.0 ** (-ri(0, 4))
        n = pick([1, 2, 4, 4, 4])
        L = ri(max(4, n), 14)
        start = ri(-6, 10) * dt / pick([1, 1, 2, 4])
        t0 = ri(-2, n + 1)
        three = coin(0.5)
        ns = pick([1, 2, 2, 3]) if three else 1
        nt = pick([1, 2, 2, 3, 4])
        if err is None and coin(0.06):
            nt = 0
        if err is None and three and coin(0.04):
            ns = 0
        nf = pick([n // 2 + 1, n // 2 + 1, n // 2 + 1, n // 2 + 2, n + 1, n + 2])
        nxf = pick([1, nf])
        ntf = nf if coin(0.85) else 1
        offgrid = coin(0.3)
        tfv = dyc(ntf)
        if offgrid:
            # zero frequency wherever the bin matters (weight 1 or 2 and a non-zero toneburst spectrum): the phase is then
            # exactly 0 whatever the remainder; the other bins are multiplied by an exact zero on both sides
            fr = dyr(nf, 1, 12)
            for k in range(nf):
                if k <= n // 2 and tfv[k if ntf == nf else 0] != 0:
                    fr[k] = 0.0
            if coin(0.5):
                fr[:] = 0.0
        else:
            fr = dyr(nf, 0, 12)
        if nf == 1 and ntf == 1 and coin(0.5):
            ntf = pick([1, 2, 3]) if n == 1 else n // 2 + 1     # one frequency broadcast against the spectrum
            tfv = dyc(ntf)
            nxf = 1
            if offgrid:
                fr[:] = 0.0
        H = dyc((ns, nt, nxf)) if coin(0.8) else dyr((ns, nt, nxf))
        if L - n + t0 < max(t0, 0):
            return
        # delay indices inside the window: 0 <= q - t0 <= L - n
        q = rng.integers(t0, L - n + t0 + 1, size=(ns, nt))
        q = np.maximum(q, 0)            # delays - start >= 0
        edge = rng.random((ns, nt))
        q = np.where(edge < 0.15, max(t0, 0), np.where(edge > 0.85, L - n + t0, q))
        fracs = np.zeros((ns, nt))
        kind = "grid"
        if offgrid:
            kind = "off-grid"
            fracs = rng.choice([0.0, 0.5, -0.5, 0.25, -0.25, 0.375, -0.375, 0.125, 0.4375], size=(ns, nt))
            # the rounded index (half to even) must stay in the window and the delay non-negative
            for idx in np.ndindex(ns, nt):
                x = q[idx] + fracs[idx]
                if x < 0 or not (max(t0, 0) <= round(x) <= L - n + t0):
                    fracs[idx] = 0.0
        d = start + (q + fracs) * dt
        given = dyc((nt, L)) if coin(0.3) else None
        tt, tb = (start, dt, L), (ri(-8, 8) * dt, dt, n)
        if coin(0.3) and np.all(d == np.round(d)):
            d = d.astype(np.int64)      # delays given as integers
        if not three:
            H = H[0]
            d = d[0] if coin(0.6) else d
        kind += (":3-D" if three else ":2-D") + (":one-frequency" if nxf == 1 and nf != 1 else "") + \
                (":given" if given is not None else "") + (":empty" if nt == 0 or ns == 0 else "")
        if err is None:
            tf_case(H, d, tt, tb, fr, tfv, t0, given, kind)
            return
        # ---- error streams: one offending feature, then (sometimes) a second one further down the function
        errs = [err] + ([pick(ERRS[ERRS.index(err) + 1:])] if ERRS.index(err) + 1 < len(ERRS) and coin(0.35) else [])
        for e in reversed(errs):
            if e == "unpack":
                H = pick([np.array(1 + 0j), dyc((max(nt, 1),)), dyc((1, 1, max(nt, 1), nxf))])
            elif e == "assert-shape":
                Hs_ = np.asarray(H).shape
                if len(Hs_) not in (2, 3):
                    continue
                good = Hs_[:-1] if len(Hs_) == 3 else (Hs_[0],)
                dv = start + max(t0, 0) * dt        # a delay inside the window (when the shape happens to be accepted)
                d = pick([np.zeros(good[-1] + 1) + dv, np.zeros((2,) + tuple(good)) + dv, np.array(dv),
                          np.zeros((good[0] + 1, good[-1])) + dv if len(good) == 2 else np.zeros((3, good[-1])) + dv,
                          np.zeros(tuple(good) + (1,)) + dv])
            elif e == "not-implemented":
                tb = (tb[0], pick([dt / 2, dt * 2, dt * 1.5]), n)
            elif e == "assert-negative":
                d = np.array(d, dtype=float)
                if d.size == 0:
                    continue
                d.ravel()[ri(0, d.size - 1)] = start - dt * pick([0.25, 1, 3])
            elif e == "core-dimension":
                Hs_ = np.asarray(H).shape
                if len(Hs_) not in (2, 3):
                    continue
                bad_nxf = pick([k for k in (0, 2, 3, 4, 5, 6, 7) if k != nf and k != 1])
                H = dyc(Hs_[:-1] + (bad_nxf,))
            elif e == "broadcast":
                if nf <= 1:
                    continue
                tfv = dyc(pick([k for k in (0, 2, 3, 4, 5, 6, 7) if k != nf and k != 1]))
            elif e == "IndexError":
                # even n with at most n/2 bins, or no bin at all
                if n == 1 or coin(0.2):
                    m = 0
                else:
                    m = pick(list(range(1, n // 2 + 1)))
                fr = np.zeros(m)
                tfv = dyc(m) if coin(0.7) or m == 0 else dyc(1)
                Hs_ = np.asarray(H).shape
                if len(Hs_) in (2, 3):
                    H = dyc(Hs_[:-1] + (pick([1, m]),))
            elif e == "no-data-point":
                tb = (tb[0], tb[1], 0)
        tf_case(H, d, tt, tb, fr, tfv, t0, given, "error:" + "+".join(errs))

    ERRS = ["unpack", "assert-shape", "not-implemented", "assert-negative", "core-dimension", "broadcast", "IndexError", "no-data-point"]
    for _ in range(90 * scale):
        tf_random()
    for e in ERRS:
        for _ in range(6 * scale):
            tf_random(err=e)
    for _ in range(8 * scale):
        # echoes outside the window (model: TfOutside)
        dt = 0.25
        n, L, t0 = 4, 12, 1
        nt = 2
        q = np.array([ri(1, 9), ri(1, 9)])
        q[ri(0, 1)] = pick([0, L - n + t0 + 1, L - n + t0 + 2, L + 3])
        tf_case(dyc((nt, 1)), 0.5 + q * dt, (0.5, dt, L), (-0.25, dt, n), frq, dyc(3), t0, None, "outside", outside=True)
    bad = chk.coq_failing("tie_C11_tf", PREAMBLE, "tfcase", [c["lit"] for c in cases], "chk_tf", shard=40)
    report("tf", "transfer_func_to_timetraces", cases, bad, "model_tf")
    total += len(cases)

    chk.cov["tie_C11_comparisons"] = total
    return total
