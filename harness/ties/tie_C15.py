"""Tie of the new C15 model (coq/theories/Model/FrameOps2.v) to the real library, evaluated on every run of the check.

    run(chk, arim, rng, quick) -> number of comparisons

Every case = one concrete input run on REAL arim objects (arim.core.Frame over a real arim.core.Probe, arim.Time,
arim.ExaminationObject) through the public API, and the model's answer computed by `vm_compute` inside coqc on the very same
input.  Everything compared is discrete and compared exactly: tx / rx arrays, every sample of every timetrace (integer valued,
whatever the dtype of the array), the per-element attributes of the probe (location x / y, orientation, dimension, shape, dead
flag), metadata and examination object (by an id they carry), numsamples, numtimetraces, capture_method (CaptureMethod value,
-1 = ValueError), is_complete_assuming_reciprocity, the class of the exception and the call of a history that raises it.

Ties (model function vs arim call):
  init_frame / init_core            vs  arim.core.Frame(timetraces, time, tx, rx, probe, examination_object[, metadata])
                                        (class of the FIRST failing check, metadata None / absent -> {})
  step2 / run2 / reinit             vs  histories of Frame.subframe / subframe_from_probe_elements /
                                        expand_frame_assuming_reciprocity / apply_filter on one frame, state observed after
                                        every call
  subframe2                         vs  Frame.subframe(idx)            idx: int list / int array (negative, repeated, out of
  sub_elements2                     vs  Frame.subframe_from_probe_elements(idx[, make_subprobe])   range), slice, boolean
                                        mask (array or list), bare integer
  expand2 / expand_row / index_last vs  Frame.expand_frame_assuming_reciprocity()
  apply_filter2                     vs  Frame.apply_filter(filt) for ten filters of the 2-D array (identity as lambda and as
                                        arim.signal.NoFilter, row reversal, row / column removal, scaling, roll, sample
                                        reversal, row duplication, widening, row mixing)
  capture_method2                   vs  Frame.capture_method           (on every frame met)
  is_complete2                      vs  Frame.is_complete_assuming_reciprocity()   (on every frame met)
  get_timetrace2                    vs  Frame.get_timetrace(tx, rx)
  take_res idx (per-element tuples) vs  Probe.subprobe(idx)  (every per-element slot indexed alike)
and, as statements of numpy / Python that Frame.subframe_from_probe_elements / expand_frame_assuming_reciprocity are made of
(core.py:385-400, 278-280; they cannot be called separately, the statement itself is executed):
  retained_elements                 vs  np.arange(n)[idx]
  retained_mask                     vs  np.logical_and(np.isin(tx, E), np.isin(rx, E))
  assign_arange                     vs  mapper = np.zeros(n, int); mapper[idx] = np.arange(k)
  gather                            vs  mapper[a]
  index_last                        vs  {(tx, rx): i for i, (tx, rx) in enumerate(zip(tx, rx))}.get(k)

Boolean masks: numpy accepts a mask of the length of the axis and ALSO the EMPTY boolean array on an axis of any length
(nothing selected); np_take (mask_fits) follows that rule and both are generated (the empty mask on a non-empty axis is
counted as "...:mask-empty on a non-empty axis").

Deliberately NOT generated (the model is silent or known to differ there; see the final report of the tie task):
  * tx of dtype uint64 together with rx of a signed dtype (or the converse) in a history: expand_frame_assuming_reciprocity
    rebuilds tx / rx from tuples mixing np.uint64 and np.int64 scalars, numpy promotes them to float64 and the constructor
    raises TypeError, whereas the model's `reinit` assumes an integer kind (generated for the constructor alone);
  * width-changing filters on a frame without timetraces (a (0, w) array has no width in the model);
  * assign_arange with k = 1 and a selection of another size (numpy broadcasts, the model answers ErrValue; unreachable from
    sub_elements2 where k is the size of the selection);
  * negative tx / rx labels, tuple / Ellipsis / 2-D indices, timetraces that are not 2-D (outside the model).
"""
import json

import numpy as np

from common import cZ, clist, cpair, cbool, copt

CORR = {
    "init": "init_frame (init_core) vs arim.core.Frame(timetraces, time, tx, rx, probe, examination_object, metadata)",
    "hist": "step2 / run2 (subframe2, sub_elements2, expand2, apply_filter2, reinit; capture_method2, is_complete2 on every "
            "state) vs Frame.subframe / subframe_from_probe_elements / expand_frame_assuming_reciprocity / apply_filter, "
            "Frame.capture_method, Frame.is_complete_assuming_reciprocity",
    "get": "get_timetrace2 vs Frame.get_timetrace(tx, rx)",
    "subprobe": "take_res idx (f_probe F) vs Probe.subprobe(elements_idx)",
    "pos": "retained_elements vs np.arange(numelements)[elements_idx] (core.py:385)",
    "mask": "retained_mask vs np.logical_and(np.isin(tx, E), np.isin(rx, E)) (core.py:386-388)",
    "assign": "assign_arange vs mapper = np.zeros(n, int); mapper[elements_idx] = np.arange(k) (core.py:396-397)",
    "gather": "gather vs mapper[a] (core.py:399-400)",
    "last": "index_last vs {(tx, rx): i for i, (tx, rx) in enumerate(zip(tx, rx))}[k] (core.py:278-280)",
}

PREAMBLE = r"""
From Coq Require Import Arith ZArith List Bool.
From Arim Require Import Base.ListX Model.ProbeOps Model.Frame Model.FrameOps2.
Import ListNotations.
Open Scope bool_scope.
Open Scope Z_scope.

Definition L : Type := list Z.            (* one probe element: loc x, loc y, orientation, dimension, shape, dead *)
Definition fr : Type := frame2 Z L Z Z.   (* samples Z, metadata id, examination object id *)
Definition view : Type := (list Z * list Z * list (list Z) * list L * (Z * Z * Z * Z))%type.
Definition obs : Type := (view * (Z * bool))%type.
Definition lz_eqb : list Z -> list Z -> bool := list_eqb Z.eqb.
Definition llz_eqb : list (list Z) -> list (list Z) -> bool := list_eqb lz_eqb.
Definition view_of (F : fr) : view :=
  (zlist (f_tx F), zlist (f_rx F), f_tt F, f_probe F,
   (f_meta F, f_exam F, Z.of_nat (f_ns F), Z.of_nat (f_ntt F))).
Definition obs_of (F : fr) : obs := (view_of F, (capture_code (capture_method2 F), is_complete2 F)).
Definition view_eqb (a b : view) : bool :=
  match a, b with
  | (tx, rx, ts, pr, (m, x, ns, n)), (tx', rx', ts', pr', (m', x', ns', n')) =>
      lz_eqb tx tx' && lz_eqb rx rx' && llz_eqb ts ts' && llz_eqb pr pr' &&
      Z.eqb m m' && Z.eqb x x' && Z.eqb ns ns' && Z.eqb n n'
  end.
Definition obs_eqb (a b : obs) : bool :=
  view_eqb (fst a) (fst b) && Z.eqb (fst (snd a)) (fst (snd b)) && Bool.eqb (snd (snd a)) (snd (snd b)).
Definition ecode (e : ferror) : Z :=
  match e with ErrType => 1 | ErrValue => 2 | ErrIndex => 3 | ErrKey => 4 | ErrDimension => 5 | ErrShape => 6 end.
Definition sum_eqb {A} (ea : A -> A -> bool) (a b : A + Z) : bool :=
  match a, b with inl x, inl y => ea x y | inr x, inr y => Z.eqb x y | _, _ => false end.
Definition out_eqb : obs + Z -> obs + Z -> bool := sum_eqb obs_eqb.
Definition outcome {A B} (g : A -> B) (r : res A) : B + Z :=
  match r with Ok a => inl (g a) | Err e => inr (ecode e) end.
Definition nats (l : list Z) : list nat := map Z.to_nat l.

Definition mk_init (time_ok : bool) (ns : Z) (ts : list (list Z)) (ktx : dkind) (tx : list Z) (krx : dkind)
    (rx : list Z) (pr : list L) (ex : Z) (meta : option Z) : res fr :=
  init_frame 0 time_ok (Z.to_nat ns) ts ktx (nats tx) krx (nats rx) pr ex meta.

(* the filters handed to Frame.apply_filter, as functions of the 2-D array *)
Definition filt_of (code c : Z) : list (list Z) -> list (list Z) :=
  match code with
  | 0 => fun x => x                                                   (* lambda x: x, arim.signal.NoFilter() *)
  | 1 => @rev (list Z)                                                (* x[::-1] *)
  | 2 => @tl (list Z)                                                 (* x[1:] *)
  | 3 => map (@tl Z)                                                  (* x[:, 1:] *)
  | 4 => map (map (Z.mul c))                                          (* c * x *)
  | 5 => fun x => match rev x with [] => [] | l :: r => l :: rev r end    (* np.roll(x, 1, axis=0) *)
  | 6 => map (@rev Z)                                                 (* x[:, ::-1] *)
  | 7 => fun x => match x with [] => [] | r :: _ => r :: x end        (* np.vstack([x[:1], x]) *)
  | 8 => map (fun r => r ++ r)                                        (* np.hstack([x, x]) *)
  | _ => fun x => map (fun r => map (fun ab => fst ab + snd ab) (combine r (hd [] x))) x    (* x + x[:1] *)
  end.

Inductive top : Type :=
| TSub (idx : np_idx)
| TEl (idx : np_idx) (mk : bool)
| TExp
| TFil (code c : Z).
Definition op_of (o : top) : op2 Z :=
  match o with
  | TSub i => Op2Subframe i
  | TEl i m => Op2Elements i m
  | TExp => Op2Expand
  | TFil k c => Op2Filter (filt_of k c)
  end.
(* the state after every call; the class of the exception of the call that raises (the history stops there) *)
Fixpoint trace (ops : list top) (F : fr) : list (obs + Z) :=
  match ops with
  | [] => []
  | o :: r => match step2 (op_of o) F with
              | Ok F' => inl (obs_of F') :: trace r F'
              | Err e => [inr (ecode e)]
              end
  end.

Inductive tcase : Type :=
| CInit (time_ok : bool) (ns : Z) (ts : list (list Z)) (ktx : dkind) (tx : list Z) (krx : dkind) (rx : list Z)
        (pr : list L) (ex : Z) (meta : option Z) (want : obs + Z)
| CHist (ns : Z) (ts : list (list Z)) (ktx : dkind) (tx : list Z) (krx : dkind) (rx : list Z)
        (pr : list L) (ex : Z) (meta : option Z) (want0 : obs) (ops : list top) (wants : list (obs + Z))
| CGet (ns : Z) (ts : list (list Z)) (tx rx : list Z) (qs : list (Z * Z * (list Z + Z)))
| CSubprobe (pr : list L) (idx : np_idx) (want : list L + Z)
| CPos (n : Z) (idx : np_idx) (want : list Z + Z)
| CMask (E tx rx : list Z) (want : list bool)
| CAssign (n : Z) (idx : np_idx) (k : option Z) (want : list Z + Z)
| CGather (mp a : list Z) (want : list Z + Z)
| CLast (pairs : list (Z * Z)) (k : Z * Z) (want : option Z).

Definition check_case (c : tcase) : bool :=
  match c with
  | CInit tok ns ts ktx tx krx rx pr ex meta want =>
      out_eqb (outcome obs_of (mk_init tok ns ts ktx tx krx rx pr ex meta)) want
  | CHist ns ts ktx tx krx rx pr ex meta want0 ops wants =>
      match mk_init true ns ts ktx tx krx rx pr ex meta with
      | Err _ => false
      | Ok F =>
          obs_eqb (obs_of F) want0 && list_eqb out_eqb (trace ops F) wants &&
          out_eqb (outcome obs_of (run2 (map op_of ops) F)) (last wants (inl want0))
      end
  | CGet ns ts tx rx qs =>
      match mk_init true ns ts KInt tx KInt rx [] 0 None with
      | Err _ => false
      | Ok F => forallb (fun q => match q with (t, r, want) =>
                           sum_eqb lz_eqb (outcome (fun x => x) (get_timetrace2 F t r)) want end) qs
      end
  | CSubprobe pr idx want => sum_eqb llz_eqb (outcome (fun x => x) (take_res idx pr)) want
  | CPos n idx want => sum_eqb lz_eqb (outcome zlist (retained_elements (Z.to_nat n) idx)) want
  | CMask E tx rx want => list_eqb Bool.eqb (retained_mask (nats E) (nats tx) (nats rx)) want
  | CAssign n idx k want =>
      match retained_elements (Z.to_nat n) idx with
      | Err _ => false
      | Ok E => sum_eqb lz_eqb
                  (outcome zlist (assign_arange (Z.to_nat n) E (match k with None => length E | Some k' => Z.to_nat k' end)))
                  want
      end
  | CGather mp a want => sum_eqb lz_eqb (outcome zlist (gather (nats mp) (nats a))) want
  | CLast pairs k want =>
      option_eqb Z.eqb
        (option_map Z.of_nat (index_last (map (fun p => (Z.to_nat (fst p), Z.to_nat (snd p))) pairs)
                                         (Z.to_nat (fst k), Z.to_nat (snd k))))
        want
  end.
"""

ERR_CODE = {"TypeError": 1, "ValueError": 2, "IndexError": 3, "KeyError": 4, "InvalidDimension": 5, "InvalidShape": 6}
ERR_NAME = {v: k for k, v in ERR_CODE.items()}
KINDS = {"i": "KInt", "u": "KUInt", "b": "KBool", "f": "KFloat"}


class Unobservable(Exception):
    pass


def err_code(e):
    """code of the exception class as the model names it; 0 = a class the model never answers"""
    return ERR_CODE.get(type(e).__name__, 0)


# ---------------------------------------------------------------------------------------------------------------
# Coq literals
# ---------------------------------------------------------------------------------------------------------------
def czl(l):
    return clist([cZ(x) for x in l])

def czll(ll):
    return clist([czl(r) for r in ll])

def cidx(ix):
    k = ix[0]
    if k == "int":
        return f"(IdxInt {cZ(ix[1])})"
    if k == "list":
        return f"(IdxList {czl(ix[1])})"
    if k == "slice":
        return f"(IdxSlice {copt(ix[1], cZ)} {copt(ix[2], cZ)} {copt(ix[3], cZ)})"
    return f"(IdxMask {clist([cbool(b) for b in ix[1]])})"

def cview(o):
    return cpair(czl(o["tx"]), czl(o["rx"]), czll(o["tt"]), czll(o["probe"]),
                 cpair(cZ(o["meta"]), cZ(o["exam"]), cZ(o["ns"]), cZ(o["ntt"])))

def cobs(o):
    return cpair(cview(o), cpair(cZ(o["capture"]), cbool(o["complete"])))

def cout(o):
    """obs + Z"""
    return f"(inr {cZ(o)})" if isinstance(o, int) else f"(inl {cobs(o)})"

def csum(o, conv):
    return f"(inr {cZ(o)})" if isinstance(o, int) else f"(inl {conv(o)})"

def cop(op):
    k = op[0]
    if k == "sub":
        return f"(TSub {cidx(op[1])})"
    if k == "el":
        return f"(TEl {cidx(op[1])} {cbool(op[2] is not False)})"
    if k == "exp":
        return "TExp"
    return f"(TFil {cZ(op[1])} {cZ(op[2])})"

def cframe_args(s):
    """ns tt ktx tx krx rx pr ex meta"""
    meta = None if s["meta"] in (None, "absent") else s["meta"]
    return (f"{cZ(s['ns'])} {czll(s['tt'])} {s['ktx']} {czl(s['tx'])} {s['krx']} {czl(s['rx'])} "
            f"{czll(s['probe'])} {cZ(s['exam'])} {copt(meta, cZ)}")


def js(x):
    if isinstance(x, dict):
        return {k: js(v) for k, v in x.items()}
    if isinstance(x, (list, tuple)):
        return [js(v) for v in x]
    if isinstance(x, np.ndarray):
        return js(x.tolist())
    if isinstance(x, np.integer):
        return int(x)
    if isinstance(x, np.floating):
        return float(x)
    if isinstance(x, np.bool_):
        return bool(x)
    return x


# ---------------------------------------------------------------------------------------------------------------
# spelling of arguments for the real library (deterministic in the selector)
# ---------------------------------------------------------------------------------------------------------------
def sp_idx(ix, sel):
    k = ix[0]
    if k == "int":
        return [int(ix[1]), np.int64(ix[1]), np.int32(ix[1])][sel % 3]
    if k == "list":
        return [list(ix[1]), np.array(ix[1], dtype=np.int64), np.array(ix[1], dtype=np.int32), list(ix[1]),
                np.array(ix[1], dtype=np.int8)][sel % 5]
    if k == "slice":
        return slice(ix[1], ix[2], ix[3]) if sel % 2 else np.s_[ix[1]:ix[2]:ix[3]]
    if sel % 2 or len(ix[1]) == 0:
        return np.array(ix[1], dtype=bool)
    return [bool(b) for b in ix[1]]


INT_DTYPES = {"KInt": ["list", "int64", "int32", "int8", "tuple", "int16"], "KUInt": ["uint8", "uint16", "uint32"]}


def sp_labels(vals, spelling):
    """tx / rx of a frame as the caller writes them"""
    if spelling == "list":
        return [int(v) for v in vals]
    if spelling == "tuple":
        return tuple(int(v) for v in vals)
    if spelling == "bool":
        return np.array([bool(v) for v in vals], dtype=bool)
    if spelling == "float":
        return np.array(vals, dtype=float)
    if spelling == "str":
        return np.array([str(int(v)) for v in vals])
    if spelling == "complex":
        return np.array(vals, dtype=complex)
    if spelling == "object":
        return np.array([int(v) for v in vals] + [None], dtype=object)[:-1]
    return np.array(vals, dtype=spelling)


def kind_of_spelling(spelling, n):
    if spelling in ("list", "tuple"):
        return "KInt" if n else "KFloat"       # np.asarray([]) is float64
    if spelling == "bool":
        return "KBool"
    if spelling == "float":
        return "KFloat"
    if spelling in ("str", "complex", "object"):
        return "KOther"
    return "KUInt" if spelling.startswith("uint") else "KInt"


def filt_py(code, c, sel, arim):
    if code == 0:
        if sel % 2:
            import arim.signal
            return arim.signal.NoFilter()
        return lambda x: x
    return {
        1: lambda x: x[::-1],
        2: lambda x: x[1:],
        3: lambda x: x[:, 1:],
        4: lambda x: c * x,
        5: lambda x: np.roll(x, 1, axis=0),
        6: lambda x: x[:, ::-1],
        7: lambda x: np.vstack([x[:1], x]),
        8: lambda x: np.hstack([x, x]),
        9: lambda x: x + x[:1],
    }[code]


# ---------------------------------------------------------------------------------------------------------------
# generators
# ---------------------------------------------------------------------------------------------------------------
def gen_idx(rng, n, err=None, distinct=False, allow_int=False):
    """an index of an axis of n entries.  err: None | 'int' (bare integer in range) | 'intrange' | 'range' | 'mask' |
    'step0' | 'dup' (a list designating one position twice).  distinct: integer lists without repeated positions."""
    if err == "int":
        return ["int", int(rng.integers(-n, n))] if n else ["int", 0]
    if err == "intrange":
        return ["int", int(rng.choice([n, n + 3, -n - 1, -n - 5]))]
    if err == "range":
        ks = [int(rng.integers(-n, n)) for _ in range(int(rng.integers(0, 4)))] if n else []
        if distinct:
            ks = wrap(rng, list({k % n for k in ks}), n) if n else []
        ks.insert(int(rng.integers(0, len(ks) + 1)), int(rng.choice([n, n + 2, -n - 1, -n - 4])))
        return ["list", ks]
    if err == "mask":
        m = int(rng.choice([k for k in (1, n - 1, n + 1, 2 * n, n + 5) if k > 0 and k != n]))
        return ["mask", [bool(rng.random() < 0.5) for _ in range(m)]]
    if err == "step0":
        return ["slice", None if rng.random() < 0.5 else int(rng.integers(-n - 1, n + 2)),
                None if rng.random() < 0.5 else int(rng.integers(-n - 1, n + 2)), 0]
    if err == "dup":
        assert n > 0
        ps = [int(p) for p in rng.permutation(n)[: int(rng.integers(1, min(n, 4) + 1))]]
        ps.insert(int(rng.integers(0, len(ps) + 1)), ps[int(rng.integers(0, len(ps)))])
        return ["list", wrap(rng, ps, n)]
    if allow_int and n and rng.random() < 0.12:
        return ["int", int(rng.integers(-n, n))]
    k = rng.choice(["list", "slice", "mask"], p=[0.4, 0.35, 0.25])
    if k == "list":
        if n == 0:
            return ["list", []]
        if distinct:
            m = int(rng.choice([0, 1, 2, 3, n, max(n - 1, 0)], p=[0.05, 0.15, 0.2, 0.2, 0.25, 0.15]))
            return ["list", wrap(rng, [int(p) for p in rng.permutation(n)[:m]], n)]
        m = int(rng.choice([0, 1, 2, 3, 4, n, n + 2], p=[0.05, 0.15, 0.2, 0.2, 0.15, 0.2, 0.05]))
        return ["list", [int(rng.integers(-n, n)) for _ in range(m)]]
    if k == "slice":
        def bound():
            r = rng.random()
            if r < 0.35:
                return None
            if r < 0.92:
                return int(rng.integers(-n - 3, n + 4))
            return int(rng.choice([-10 ** 6, 10 ** 6, -n, n, -n - 1, n - 1]))
        st = [None, None, None, 1, 2, 3, -1, -1, -2, -3, 7, -7, n + 1, -(n + 1)][int(rng.integers(14))]
        return ["slice", bound(), bound(), st]
    if n == 0 or rng.random() < 0.15:
        return ["mask", []]          # the EMPTY boolean array: accepted on an axis of any length, selects nothing
    p = [0.5, 0.15, 0.85, 0.0, 1.0, 0.6][int(rng.integers(6))]
    return ["mask", [bool(rng.random() < p) for _ in range(n)]]


def wrap(rng, ps, n):
    """positions spelled as p or p - n"""
    return [int(p - n) if rng.random() < 0.35 else int(p) for p in ps]


def gen_probe(rng, n):
    """per-element tuples [loc x, loc y, orientation, dimension, shape, dead]; -1 = the probe has no such array"""
    has_o, has_d, has_s = rng.random() < 0.6, rng.random() < 0.5, rng.random() < 0.5
    base = int(rng.integers(1, 6)) * 10
    xs = [base * (i + 1) for i in range(n)]
    if rng.random() < 0.3:
        xs = [int(v) for v in rng.permutation(xs)]
    return [[int(xs[i]), int(rng.integers(-3, 4)), int(rng.integers(1, 50)) if has_o else -1,
             int(rng.integers(1, 50)) if has_d else -1, int(rng.integers(0, 2)) if has_s else -1,
             int(rng.random() < 0.3)] for i in range(n)]


def gen_pairs(rng, n):
    """(tx, rx) labels of a frame over n elements (n >= 1) and a tag"""
    fm = [(i, j) for i in range(n) for j in range(n)]
    hm = [(i, j) for i in range(n) for j in range(i, n)]
    u = rng.random()
    if u < 0.25:
        pairs, tag = fm, "fmc"
    elif u < 0.5:
        pairs, tag = hm, "hmc"
    elif u < 0.6:
        pairs, tag = [(j, i) for i, j in hm], "hmc-mirrored"
    elif u < 0.7:
        pairs, tag = [(i, i) for i in range(n)], "pulse-echo"
    else:
        m = int(rng.integers(0, len(fm) + 1))
        pairs, tag = [fm[int(k)] for k in rng.permutation(len(fm))[:m]], "subset"
        if rng.random() < 0.25:       # labels beyond the probe (accepted by the constructor)
            extra = [(int(rng.integers(0, n + 3)), int(rng.integers(n, n + 3))) for _ in range(int(rng.integers(1, 3)))]
            pairs = list(dict.fromkeys(pairs + extra))
            tag = "subset+foreign"
    if rng.random() < 0.35 and tag not in ("subset", "subset+foreign"):
        pairs = [pairs[int(k)] for k in rng.permutation(len(pairs))]
        tag += "-shuffled"
    return pairs, tag


def gen_frame(rng, nmax=5, pairs=None, n=None, ns=None):
    """a valid frame spec"""
    if n is None:
        n = int(rng.choice([1, 2, 3, 4, 5, 6][:nmax], p=np.array([1, 2, 3, 3, 2, 1][:nmax]) / sum([1, 2, 3, 3, 2, 1][:nmax])))
    if pairs is None:
        pairs, tag = gen_pairs(rng, n)
    else:
        tag = "given"
    if ns is None:
        ns = int(rng.choice([1, 2, 3], p=[0.3, 0.5, 0.2]))
    if rng.random() < 0.5:
        tt = [[100 * (t + 1) + 10 * (r + 1) + j for j in range(ns)] for t, r in pairs]
    else:
        tt = [[int(v) for v in rng.integers(-99, 100, ns)] for _ in pairs]
    ktx = "KUInt" if rng.random() < 0.15 else "KInt"
    krx = "KUInt" if rng.random() < 0.15 else "KInt"
    stx = INT_DTYPES[ktx][int(rng.integers(len(INT_DTYPES[ktx])))]
    srx = INT_DTYPES[krx][int(rng.integers(len(INT_DTYPES[krx])))]
    if rng.random() < 0.04:
        ktx = krx = "KUInt"
        stx = srx = "uint64"           # uint64 on both sides only (see the module docstring)
    if not pairs:                      # an empty Python list is a float array
        stx = "int64" if stx in ("list", "tuple") else stx
        srx = "int32" if srx in ("list", "tuple") else srx
    return {"n": n, "ns": ns, "w": ns, "tt": tt, "tx": [p[0] for p in pairs], "rx": [p[1] for p in pairs], "ktx": ktx,
            "krx": krx, "stx": stx, "srx": srx, "probe": gen_probe(rng, n), "exam": int(rng.integers(0, 3)),
            "meta": [None, "absent", 7, int(rng.integers(1, 100))][int(rng.integers(4))],
            "dtype": ["float64", "float64", "int64", "float32", "complex128"][int(rng.integers(5))],
            "time_ok": True, "tag": tag, "sp": int(rng.integers(0, 1 << 20))}


# ---------------------------------------------------------------------------------------------------------------
class Tie:
    def __init__(self, chk, arim, rng, quick):
        from arim import core
        self.chk, self.arim, self.rng, self.quick, self.core = chk, arim, rng, quick, core
        self.cases = []      # (kind, literal, replay dict, model expression)
        self.direct = 0      # comparisons decided on the Python side
        self.reported = {}
        self.exams = [None] + [arim.ExaminationObject(arim.Material(6000.0, 3000.0 + k)) for k in (1, 2)]

    def add(self, kind, sub, lit, replay, model):
        self.chk.count(tie_C15=f"{kind}:{sub}")
        self.cases.append((kind, lit, replay, model))

    def bad(self, key, what, replay, kind):
        self.reported[key] = self.reported.get(key, 0) + 1
        self.chk.count(tie_C15_disagreement=key)
        if self.reported[key] > 3:
            return
        replay = dict(js(replay), correspondence=CORR[kind])
        self.chk.violation("tie:" + key, what, replay, failing_input_found=False)

    # -- real objects ------------------------------------------------------------------------------------------------
    def build_probe(self, labels, sel):
        core = self.core
        n = len(labels)
        locs = np.array([[l[0], l[1], 0.0] for l in labels], float).reshape(n, 3)
        kw = {}
        if n and labels[0][2] >= 0:
            kw["orientations"] = np.array([[l[2], 0.0, 1.0] for l in labels], float)
        if n and labels[0][3] >= 0:
            kw["dimensions"] = np.array([[l[3], 1.0, 2.0] for l in labels], float)
        if n and labels[0][4] >= 0:
            kw["shapes"] = [self.arim.ElementShape(l[4]) if sel % 2 else int(l[4]) for l in labels]
        if n and (any(l[5] for l in labels) or sel % 3 == 0):
            kw["dead_elements"] = np.array([bool(l[5]) for l in labels])
        return core.Probe(locs, 1e6, **kw)

    def obs_probe(self, p):
        def ints(a, name):
            a = np.asarray(a, float)
            if not np.all(a == np.round(a)):
                raise Unobservable(f"{name} is not integer valued: {a.tolist()}")
            return [int(v) for v in a]
        try:
            locs = np.asarray(p.locations.coords, float)
            n = locs.shape[0]
            if locs.ndim != 2 or locs.shape[1] != 3 or int(p.numelements) != n:
                raise Unobservable(f"locations of shape {locs.shape}, numelements {p.numelements}")
            if n and not np.all(locs[:, 2] == 0.0):
                raise Unobservable("z of a location changed")
            cols = [ints(locs[:, 0], "x"), ints(locs[:, 1], "y")]
            for arr, name, rest in ((p.orientations, "orientations", (0.0, 1.0)), (p.dimensions, "dimensions", (1.0, 2.0))):
                if arr is None:
                    cols.append([-1] * n)
                else:
                    a = np.asarray(arr.coords, float)
                    if a.shape != (n, 3) or (n and not (np.all(a[:, 1] == rest[0]) and np.all(a[:, 2] == rest[1]))):
                        raise Unobservable(f"{name}: {a.tolist()}")
                    cols.append(ints(a[:, 0], name))
            if p.shapes is None:
                cols.append([-1] * n)
            else:
                if np.shape(p.shapes) != (n,):
                    raise Unobservable(f"shapes of shape {np.shape(p.shapes)}")
                cols.append([int(v) for v in p.shapes])
            dead = np.asarray(p.dead_elements)
            if dead.shape != (n,):
                raise Unobservable(f"dead_elements of shape {dead.shape}")
            cols.append([int(bool(b)) for b in dead])
            return [[c[i] for c in cols] for i in range(n)]
        except (AttributeError, TypeError, ValueError) as e:
            raise Unobservable(f"probe: {type(e).__name__}: {e}")

    def model_probe(self, labels):
        """what the model carries per element: arrays the probe does not have read -1"""
        return [list(l) for l in labels]

    def build_frame_args(self, s):
        """the arguments of arim.core.Frame for the spec s (real objects)"""
        arim = self.arim
        rows, w = len(s["tt"]), s["w"]
        tt = np.array(s["tt"], dtype=s["dtype"]).reshape(rows, w)
        if s["time_ok"]:
            time = arim.Time(0.0, 1.0, s["ns"])
        else:
            time = [np.arange(s["ns"], dtype=float), [0.0] * s["ns"], None, tuple(range(s["ns"]))][s["sp"] % 4]
        tx = sp_labels(s["tx"], s["stx"])
        rx = sp_labels(s["rx"], s["srx"])
        if (s["sp"] >> 2) % 5 == 0 and s["dtype"] == "float64":
            tt = tt.tolist() if rows else tt           # a nested list of floats
        probe = self.build_probe(s["probe"], s["sp"] >> 5)
        exam = self.exams[s["exam"]]
        return tt, time, tx, rx, probe, exam

    def make_frame(self, s):
        core = self.core
        tt, time, tx, rx, probe, exam = self.build_frame_args(s)
        sel = s["sp"] >> 9
        if s["meta"] == "absent":
            if sel % 2:
                return core.Frame(tt, time, tx, rx, probe, exam)
            return core.Frame(timetraces=tt, time=time, tx=tx, rx=rx, probe=probe, examination_object=exam)
        meta = None if s["meta"] is None else ({"id": s["meta"]} if sel % 3 else {"capture_method": "fmc", "id": s["meta"]})
        if sel % 2:
            return core.Frame(tt, time, tx, rx, probe, exam, meta)
        return core.Frame(tt, time, tx, rx, probe, examination_object=exam, metadata=meta)

    def obs_frame(self, f):
        try:
            tx, rx, tt = np.asarray(f.tx), np.asarray(f.rx), np.asarray(f.timetraces)
            if tx.ndim != 1 or rx.ndim != 1 or tt.ndim != 2 or tx.dtype.kind not in "iu" or rx.dtype.kind not in "iu":
                raise Unobservable(f"tx {tx.shape} {tx.dtype}, rx {rx.shape} {rx.dtype}, timetraces {tt.shape}")
            if (len(tx) and int(tx.min()) < 0) or (len(rx) and int(rx.min()) < 0):
                raise Unobservable("negative labels")
            if tt.shape[0] == 0 and tt.shape[1] != int(f.numsamples):
                raise Unobservable(f"timetraces of shape {tt.shape}")
            if np.iscomplexobj(tt):
                if not np.all(tt.imag == 0):
                    raise Unobservable("complex samples")
                tt = tt.real
            if not np.all(tt == np.round(tt)):
                raise Unobservable("samples are not integer valued")
            md = f.metadata
            if not isinstance(md, dict) or not (md == {} or "id" in md):
                raise Unobservable(f"metadata {md!r}")
            ex = f.examination_object
            exam = 0 if ex is None else int(ex.material.transverse_vel - 3000.0)
            try:
                cap = int(f.capture_method.value)
            except ValueError:
                cap = -1
            return {"tx": [int(v) for v in tx], "rx": [int(v) for v in rx], "tt": [[int(v) for v in r] for r in tt],
                    "probe": self.obs_probe(f.probe), "meta": int(md.get("id", 0)), "exam": exam,
                    "ns": int(f.numsamples), "ntt": int(f.numtimetraces), "capture": cap,
                    "complete": bool(f.is_complete_assuming_reciprocity())}
        except (AttributeError, TypeError, KeyError) as e:
            raise Unobservable(f"frame: {type(e).__name__}: {e}")

    # -- constructor -------------------------------------------------------------------------------------------------------
    def init_case(self, s, sub):
        replay = {"frame": s}
        try:
            f = self.make_frame(s)
        except Exception as e:  # noqa: BLE001
            want = err_code(e)
            replay["library"] = {"raises": type(e).__name__, "message": str(e)[:200]}
            if want == 0:
                self.direct += 1
                self.bad("init-error-class", f"arim.core.Frame raises {type(e).__name__}, a class the model never answers",
                         replay, "init")
                return
        else:
            try:
                want = self.obs_frame(f)
            except Unobservable as e:
                self.direct += 1
                self.bad("init-unobservable", f"the frame built by the constructor has no counterpart in the model: {e}",
                         replay, "init")
                return
            replay["library"] = want
        args = f"{cbool(s['time_ok'])} {cframe_args(s)}"
        self.add("init", sub, f"CInit {args} {cout(want)}", replay, f"outcome obs_of (mk_init {args})")

    def random_init(self, err):
        rng = self.rng
        s = gen_frame(rng, nmax=4)
        s["exam"] = int(rng.integers(0, 3))
        defects = []
        if err:
            # each defect independently: the class of the FIRST failing check (code order) must come out
            p = {"time": 0.25, "ktx": 0.3, "krx": 0.3, "width": 0.3, "lentx": 0.3, "lenrx": 0.3, "dup": 0.35}
            defects = [k for k in p if rng.random() < p[k]]
            if not defects:
                defects = [list(p)[int(rng.integers(len(p)))]]
        rows = len(s["tt"])
        if "time" in defects:
            s["time_ok"] = False
        if "dup" in defects and rows >= 1:
            k = int(rng.integers(rows))
            s["tx"].append(s["tx"][k]); s["rx"].append(s["rx"][k]); s["tt"].append([int(v) for v in rng.integers(-9, 10, s["ns"])])
            rows += 1
        elif "dup" in defects:
            defects.remove("dup")
        if "width" in defects and rows >= 1:
            s["w"] = int(rng.choice([s["ns"] + 1, s["ns"] - 1, 2 * s["ns"] + 1]))
            if s["w"] <= 0:
                s["w"] = s["ns"] + 2
            s["tt"] = [[int(v) for v in rng.integers(-9, 10, s["w"])] for _ in range(rows)]
        elif "width" in defects:
            defects.remove("width")
        for side in ("tx", "rx"):
            if "len" + side in defects:
                if rows and rng.random() < 0.5:
                    del s[side][int(rng.integers(rows))]
                else:
                    s[side].append(int(rng.integers(0, s["n"])))
            if "k" + side in defects:
                sp = ["bool", "float", "float", "str", "complex", "object", "list"][int(rng.integers(7))]
                if sp == "bool":
                    s[side] = [int(v > 0) for v in s[side]]
                if sp == "list":
                    # an EMPTY Python list is a float array: needs an empty frame
                    s[side] = []
                s["s" + side] = sp
                s["k" + side] = kind_of_spelling(sp, len(s[side]))
        if not s["tx"] and s["stx"] in ("list", "tuple"):
            s["ktx"] = "KFloat"
        if not s["rx"] and s["srx"] in ("list", "tuple"):
            s["krx"] = "KFloat"
        if rng.random() < 0.1 and s["ktx"] in ("KInt", "KUInt") and s["tx"]:
            s["stx"], s["ktx"] = "uint64", "KUInt"      # the mixture uint64 / int64 is fine for the constructor alone
        s["defects"] = defects
        self.init_case(s, "errors:" + "+".join(sorted(defects)) if defects else "valid:" + s["tag"])

    # -- histories ---------------------------------------------------------------------------------------------------------
    def apply(self, f, op, sel):
        k = op[0]
        if k == "sub":
            return f.subframe(sp_idx(op[1], sel))
        if k == "el":
            ix = sp_idx(op[1], sel)
            if op[2] == "default":
                return f.subframe_from_probe_elements(ix)
            if sel % 3 == 0:
                return f.subframe_from_probe_elements(ix, op[2])
            return f.subframe_from_probe_elements(elements_idx=ix, make_subprobe=op[2]) if sel % 3 == 1 else \
                f.subframe_from_probe_elements(ix, make_subprobe=op[2])
        if k == "exp":
            return f.expand_frame_assuming_reciprocity()
        return f.apply_filter(filt_py(op[1], op[2], sel, self.arim))

    def hist_case(self, s, steps, sub):
        """s: valid frame spec; steps: list of ops or callable (frame, k) -> op | None"""
        replay = {"frame": s}
        try:
            f = self.make_frame(s)
            want0 = self.obs_frame(f)
        except Exception as e:  # noqa: BLE001
            self.direct += 1
            self.bad("hist-initial-frame", f"a valid frame is refused or unobservable: {type(e).__name__}: {e}", replay, "hist")
            return
        done, wants = [], []
        k = 0
        while True:
            op = (steps[k] if k < len(steps) else None) if isinstance(steps, list) else steps(f, k)
            if op is None:
                break
            done.append(op)
            self.chk.count(tie_C15_call=op[0] + (":" + op[1][0] if op[0] in ("sub", "el") else f":{op[1]}" if op[0] == "fil" else ""))
            if op[0] in ("sub", "el") and op[1][0] == "mask" and len(op[1][1]) == 0:
                axis = int(f.numtimetraces) if op[0] == "sub" else int(f.probe.numelements)
                self.chk.count(tie_C15_call=f"{op[0]}:mask-empty on {'an empty' if axis == 0 else 'a non-empty'} axis")
            try:
                f = self.apply(f, op, (s["sp"] >> 3) + 7 * k)
            except Exception as e:  # noqa: BLE001
                wants.append(err_code(e))
                replay["raises"] = {"call": k, "class": type(e).__name__, "message": str(e)[:200]}
                self.chk.count(tie_C15_raise=type(e).__name__)
                if wants[-1] == 0:
                    self.direct += 1
                    self.bad("hist-error-class", f"call {k} raises {type(e).__name__}, a class the model never answers",
                             dict(replay, calls=done), "hist")
                    return
                break
            try:
                wants.append(self.obs_frame(f))
            except Unobservable as e:
                self.direct += 1
                self.bad("hist-unobservable", f"the frame returned by call {k} has no counterpart in the model: {e}",
                         dict(replay, calls=done), "hist")
                return
            k += 1
        replay.update(calls=done, library_initial=want0, library_after_each_call=wants)
        lit = f"CHist {cframe_args(s)} {cobs(want0)} {clist([cop(o) for o in done])} {clist([cout(w) for w in wants])}"
        model = (f"match mk_init true {cframe_args(s)} with Ok F => trace {clist([cop(o) for o in done])} F "
                 f"| Err e => [inr (ecode e)] end")
        self.add("hist", sub, lit, replay, model)

    def gen_op(self, f, err=None):
        """one call suited to the real frame f"""
        rng = self.rng
        ntt, nel = int(f.numtimetraces), int(f.probe.numelements)
        if err in ("sub:int", "sub:intrange", "sub:range", "sub:mask", "sub:step0", "sub:dup"):
            e = err[4:]
            if e == "dup" and ntt == 0:
                e = "range"
            return ["sub", gen_idx(rng, ntt, err=e, distinct=True)]
        if err in ("el:int", "el:intrange", "el:range", "el:mask", "el:step0"):
            e = err[3:]
            mk = [True, "default", False][int(rng.integers(3))]
            if e == "int":
                mk = [True, "default"][int(rng.integers(2))]
                if nel == 0:
                    e = "intrange"
            return ["el", gen_idx(rng, nel, err=e), mk]
        if err in ("fil:2", "fil:3", "fil:7", "fil:8"):
            code = int(err[4:])
            if ntt == 0 and code in (3, 7, 8):
                code = 2                     # x[1:] of an empty array stays empty: no error, fine
            return ["fil", code, 1]
        u = rng.random()
        if u < 0.25:
            return ["sub", gen_idx(rng, ntt, distinct=True)]
        if u < 0.62:
            mk = [True, "default", False][int(rng.integers(3))]
            return ["el", gen_idx(rng, nel, allow_int=(mk is False)), mk]
        if u < 0.8:
            return ["exp"]
        code = int(rng.choice([0, 1, 4, 5, 6, 9]))
        return ["fil", code, int(rng.integers(-3, 4)) if code == 4 else 1]

    def random_hist(self, err=None):
        rng = self.rng
        s = gen_frame(rng)
        nsteps = int(rng.integers(1, 5))
        at = int(rng.integers(0, nsteps)) if err else -1

        def steps(f, k):
            if k >= nsteps:
                return None
            return self.gen_op(f, err if k == at else None)
        self.hist_case(s, steps, ("error:" + err) if err else "valid:" + s["tag"])

    # -- get_timetrace -----------------------------------------------------------------------------------------------------
    def get_case(self, s, queries, sub):
        replay = {"frame": s, "queries": queries}
        try:
            f = self.make_frame(s)
        except Exception as e:  # noqa: BLE001
            self.direct += 1
            self.bad("get-initial-frame", f"a valid frame is refused: {type(e).__name__}: {e}", replay, "get")
            return
        qs, lib = [], []
        for i, (t, r) in enumerate(queries):
            sel = s["sp"] + i
            a = [int(t), np.int64(t), int(t)][sel % 3]
            b = [int(r), int(r), np.int32(r)][(sel // 3) % 3]
            try:
                row = f.get_timetrace(a, b) if sel % 2 else f.get_timetrace(tx=a, rx=b)
                row = np.asarray(row)
                if row.ndim != 1:
                    raise Unobservable(f"get_timetrace returns an array of shape {row.shape}")
                want = [int(v) for v in np.real(row)]
                if not np.all(np.real(row) == want) or (np.iscomplexobj(row) and np.any(row.imag != 0)):
                    raise Unobservable("samples changed")
            except Unobservable as e:
                self.direct += 1
                self.bad("get-unobservable", str(e), replay, "get")
                return
            except Exception as e:  # noqa: BLE001
                want = err_code(e)
                if want == 0:
                    self.direct += 1
                    self.bad("get-error-class", f"get_timetrace({t}, {r}) raises {type(e).__name__}", replay, "get")
                    return
            lib.append(want)
            qs.append(cpair(cZ(t), cZ(r), csum(want, czl)))
            self.chk.count(tie_C15_get="found" if not isinstance(want, int) else ERR_NAME[want])
        replay["library"] = lib
        head = f"{cZ(s['ns'])} {czll(s['tt'])} {czl(s['tx'])} {czl(s['rx'])}"
        model = (f"match mk_init true {cZ(s['ns'])} {czll(s['tt'])} KInt {czl(s['tx'])} KInt {czl(s['rx'])} [] 0 None with "
                 f"Ok F => map (fun q => outcome (fun x => x) (get_timetrace2 F (fst q) (snd q))) "
                 f"{clist([cpair(cZ(t), cZ(r)) for t, r in queries])} | Err e => [] end")
        self.add("get", sub, f"CGet {head} {clist(qs)}", replay, model)

    def random_get(self):
        rng = self.rng
        s = gen_frame(rng, nmax=5)
        n = s["n"]
        qs = []
        for _ in range(6):
            u = rng.random()
            if u < 0.5 and s["tx"]:
                k = int(rng.integers(len(s["tx"])))
                q = (s["tx"][k], s["rx"][k]) if rng.random() < 0.7 else (s["rx"][k], s["tx"][k])
            elif u < 0.75:
                q = (int(rng.integers(0, n + 2)), int(rng.integers(0, n + 2)))
            else:     # negative values never wrap around: they are compared, not used as indices
                q = (int(rng.integers(-n - 1, n + 3)), int(rng.integers(-n - 1, n + 3)))
            qs.append(q)
        self.get_case(s, qs, s["tag"])

    # -- Probe.subprobe ----------------------------------------------------------------------------------------------------
    def subprobe_case(self, labels, ix, sub, sel=0):
        replay = {"probe": labels, "index": ix}
        try:
            p = self.build_probe(labels, sel)
            q = p.subprobe(sp_idx(ix, sel)) if sel % 2 else p.subprobe(sp_idx(ix, sel), save_metadata=bool(sel % 4 == 0))
            want = self.obs_probe(q)
        except Unobservable as e:
            self.direct += 1
            self.bad("subprobe-unobservable", str(e), replay, "subprobe")
            return
        except Exception as e:  # noqa: BLE001
            want = err_code(e)
            if want == 0:
                self.direct += 1
                self.bad("subprobe-error-class", f"Probe.subprobe raises {type(e).__name__}", replay, "subprobe")
                return
        replay["library"] = want if not isinstance(want, int) else ERR_NAME[want]
        self.add("subprobe", sub, f"CSubprobe {czll(labels)} {cidx(ix)} {csum(want, czll)}", replay,
                 f"outcome (fun x => x) (take_res {cidx(ix)} {czll(labels)})")

    def random_subprobe(self):
        rng = self.rng
        n = int(rng.integers(0, 7))
        err = [None, None, None, None, None, "range", "mask", "step0"][int(rng.integers(8))]
        self.subprobe_case(gen_probe(rng, n), gen_idx(rng, n, err=err), "error:" + err if err else "valid",
                           sel=int(rng.integers(0, 1 << 10)))

    # -- the numpy / Python statements the methods are made of -------------------------------------------------------------
    def pos_case(self, n, ix, sub, sel=0):
        try:
            want = [int(v) for v in np.atleast_1d(np.arange(n)[sp_idx(ix, sel)])]
        except (IndexError, ValueError) as e:
            want = err_code(e)
        self.add("pos", sub, f"CPos {cZ(n)} {cidx(ix)} {csum(want, czl)}", {"n": n, "index": ix, "numpy": want},
                 f"outcome zlist (retained_elements (Z.to_nat {cZ(n)}) {cidx(ix)})")

    def statement_cases(self):
        rng = self.rng
        n = int(rng.integers(0, 8))
        err = [None] * 6 + ["int", "intrange", "range", "mask", "step0"]
        e = err[int(rng.integers(len(err)))]
        if e == "int" and n == 0:
            e = "intrange"
        ix = gen_idx(rng, n, err=e)
        sel = int(rng.integers(0, 64))
        self.pos_case(n, ix, ("error:" + e) if e else ix[0], sel)
        # retained_mask
        m = int(rng.integers(0, 10))
        E = [int(v) for v in rng.integers(0, n + 2, int(rng.integers(0, 5)))]
        tx = [int(v) for v in rng.integers(0, n + 2, m)]
        rx = [int(v) for v in rng.integers(0, n + 2, m)]
        Ea = np.array(E, dtype=int) if len(E) != 1 or rng.random() < 0.5 else np.array(E, dtype=int)[0]
        want = [bool(b) for b in np.logical_and(np.isin(np.array(tx, dtype=int), Ea), np.isin(np.array(rx, dtype=int), Ea))]
        self.add("mask", "isin", f"CMask {czl(E)} {czl(tx)} {czl(rx)} {clist([cbool(b) for b in want])}",
                 {"E": E, "tx": tx, "rx": rx, "numpy": want},
                 f"retained_mask (nats {czl(E)}) (nats {czl(tx)}) (nats {czl(rx)})")
        # assign_arange (valid index only: the assignment is reached after np.arange(n)[idx] succeeded)
        ix = gen_idx(rng, n)
        sel = int(rng.integers(0, 64))
        sizeE = len(np.arange(n)[sp_idx(ix, sel)])
        k = None
        if rng.random() < 0.2:
            k = int(rng.choice([v for v in (0, 2, 3, sizeE + 1, sizeE + 2, max(sizeE - 1, 0)) if v != 1 and v != sizeE]))
        mapper = np.zeros(n, dtype=np.int_)
        try:
            mapper[sp_idx(ix, sel)] = np.arange(sizeE if k is None else k)
            want = [int(v) for v in mapper]
        except (ValueError, IndexError) as e:
            want = err_code(e)
        self.add("assign", "mismatch" if k is not None else ix[0],
                 f"CAssign {cZ(n)} {cidx(ix)} {copt(k, cZ)} {csum(want, czl)}", {"n": n, "index": ix, "k": k, "numpy": want},
                 f"outcome zlist (rbind (retained_elements (Z.to_nat {cZ(n)}) {cidx(ix)}) (fun E => assign_arange (Z.to_nat {cZ(n)}) E "
                 f"({'length E' if k is None else f'Z.to_nat {cZ(k)}'})))")
        # gather
        mp = [int(v) for v in rng.integers(0, 9, n)]
        a = [int(v) for v in rng.integers(0, max(n, 1), int(rng.integers(0, 6)))] if n else []
        if rng.random() < 0.2:
            a.insert(int(rng.integers(0, len(a) + 1)), n + int(rng.integers(0, 3)))
        try:
            want = [int(v) for v in np.array(mp, dtype=np.int_)[np.array(a, dtype=np.int64)]]
        except IndexError as e:
            want = err_code(e)
        self.add("gather", "error" if isinstance(want, int) else "valid", f"CGather {czl(mp)} {czl(a)} {csum(want, czl)}",
                 {"mapper": mp, "a": a, "numpy": want}, f"outcome zlist (gather (nats {czl(mp)}) (nats {czl(a)}))")
        # index_last (duplicates allowed here: the dictionary keeps the LAST index)
        m = int(rng.integers(0, 9))
        pairs = [(int(rng.integers(0, 3)), int(rng.integers(0, 3))) for _ in range(m)]
        key = (int(rng.integers(0, 3)), int(rng.integers(0, 4)))
        d = {(t, r): i for i, (t, r) in enumerate(zip(np.array([p[0] for p in pairs], dtype=int), np.array([p[1] for p in pairs], dtype=int)))}
        want = d.get(key)
        cps = clist([cpair(cZ(a_), cZ(b_)) for a_, b_ in pairs])
        self.add("last", "found" if want is not None else "absent",
                 f"CLast {cps} {cpair(cZ(key[0]), cZ(key[1]))} {copt(want, cZ)}", {"pairs": pairs, "key": key, "python": want},
                 f"index_last (map (fun p => (Z.to_nat (fst p), Z.to_nat (snd p))) {cps}) (Z.to_nat {cZ(key[0])}, Z.to_nat {cZ(key[1])})")

    # -- the worked examples of the prover's note ------------------------------------------------------------------------------
    def fixed(self):
        def frame(pairs, labels, meta=7, ns=2, **kw):
            s = {"n": len(labels), "ns": ns, "w": ns, "tt": [[10 * (t + 1), 10 * (r + 1)][:ns] for t, r in pairs],
                 "tx": [p[0] for p in pairs], "rx": [p[1] for p in pairs], "ktx": "KInt", "krx": "KInt", "stx": "int64",
                 "srx": "int64", "probe": [[x, 0, -1, -1, -1, 0] for x in labels], "exam": 0, "meta": meta,
                 "dtype": "float64", "time_ok": True, "tag": "note", "sp": 1 << 9}
            s.update(kw)
            return s
        fmc4 = [(i, j) for i in range(4) for j in range(4)]
        hmc3 = [(i, j) for i in range(3) for j in range(i, 3)]
        L4, L3 = [10, 20, 30, 40], [10, 20, 30]
        # constructor
        def ctor(time_ok, ns, tt, stx, tx, srx, rx, meta="absent"):
            s = frame([], [], meta=meta, ns=ns)
            s.update(tt=tt, w=len(tt[0]), tx=tx, rx=rx, stx=stx, srx=srx, ktx=kind_of_spelling(stx, len(tx)),
                     krx=kind_of_spelling(srx, len(rx)), time_ok=time_ok, n=0)
            self.init_case(s, "note")
        ctor(True, 1, [[1], [2]], "float", [0, 0], "int64", [1, 1])
        ctor(True, 1, [[1, 0], [2, 3]], "int64", [0], "int64", [1, 1])
        ctor(True, 1, [[1], [2]], "int64", [0], "int64", [1, 1])
        ctor(True, 1, [[1], [2]], "int64", [0, 0], "int64", [1, 1])
        ctor(False, 1, [[1], [2]], "bool", [0, 0], "int64", [1, 1])
        ctor(True, 1, [[1], [2]], "int64", [0, 1], "int64", [1, 1], meta=None)
        ctor(True, 1, [[1], [2]], "list", [0, 1], "uint8", [1, 1], meta=5)
        ctor(True, 1, [[1], [2]], "uint64", [0, 1], "int64", [1, 1], meta=5)
        self.init_case(frame(fmc4, L4, srx="uint16", krx="KUInt"), "note")
        self.init_case(frame([], L3, stx="int64", srx="int64"), "note:empty")
        self.init_case(frame([], L3, stx="list", srx="list", ktx="KFloat", krx="KFloat"), "note:empty-lists")
        # get_timetrace
        self.get_case(frame(fmc4, L4), [(1, 0), (-1, 0), (4, 0), (3, 3), (0, -4)], "note")
        self.get_case(frame(hmc3, L3), [(1, 0), (0, 1), (2, 2), (3, 0)], "note")
        # single calls on ex_fmc4 / ex_hmc3
        F4, H3 = frame(fmc4, L4), frame(hmc3, L3)
        for s, ops in (
            (F4, [["el", ["list", [2, -4]], True]]),
            (F4, [["el", ["list", [0, 0, 1]], "default"]]),
            (F4, [["el", ["int", -1], False]]),
            (F4, [["el", ["int", 2], True]]),
            (F4, [["el", ["int", 4], True]]),
            (F4, [["el", ["list", [2, 4]], True]]),
            (F4, [["el", ["slice", None, None, 0], False]]),
            (F4, [["sub", ["list", [0, -16]]]]),
            (F4, [["sub", ["int", 3]]]),
            (F4, [["sub", ["int", 99]]]),
            (F4, [["el", ["mask", [True, False, True, False]], True]]),
            (F4, [["el", ["mask", [True, False, True, False]], False]]),
            (F4, [["el", ["mask", [True, False, True]], False]]),
            (F4, [["el", ["slice", -3, None, None], True]]),
            (F4, [["el", ["slice", None, None, -2], True]]),
            (F4, [["el", ["slice", 1, -1, None], "default"]]),
            (F4, [["el", ["list", []], True], ["exp"], ["fil", 0, 1], ["sub", ["slice", None, None, -1]]]),
            (F4, [["el", ["list", [3, 0, 2]], True]]),
            (H3, [["el", ["mask", [True, False, True]], True]]),
            (H3, [["el", ["slice", None, None, -1], True]]),
            (H3, [["el", ["list", [1, 0, 2]], True]]),
            (H3, [["exp"]]),
            (H3, [["fil", 1, 1]]),
            (H3, [["fil", 2, 1]]),
            (H3, [["fil", 3, 1]]),
            (H3, [["exp"], ["el", ["list", [2, -3]], True], ["fil", 0, 1], ["sub", ["slice", None, None, -1]],
                  ["el", ["mask", [False, True]], False]]),
            (frame(hmc3, L3, meta=1), [["exp"], ["el", ["list", [2, -3]], True], ["fil", 0, 1],
                                       ["sub", ["slice", None, None, -1]], ["el", ["mask", [False, True]], False]]),
            (frame([], L3), [["exp"], ["el", ["list", [1]], True], ["sub", ["list", []]], ["fil", 5, 1]]),
            (frame([], []), [["el", ["slice", None, None, None], True], ["el", ["mask", []], False], ["exp"]]),
            # the EMPTY boolean array on non-empty axes: no timetrace; no element / the elements as they are
            (F4, [["sub", ["mask", []]]]),
            (F4, [["el", ["mask", []], True]]),
            (F4, [["el", ["mask", []], False]]),
            (F4, [["el", ["mask", []], "default"], ["sub", ["mask", []]], ["exp"], ["fil", 0, 1]]),
            (H3, [["sub", ["mask", []]], ["el", ["mask", []], True], ["el", ["mask", []], True]]),
            (H3, [["sub", ["mask", []]], ["sub", ["mask", [True]]]]),
            (H3, [["el", ["mask", []], True], ["el", ["mask", [False]], True]]),
        ):
            self.hist_case(dict(s), ops, "note")
        # positions
        for ix in (["slice", -3, None, None], ["slice", None, None, -2], ["slice", 1, -1, None], ["slice", 0, 3, 0],
                   ["mask", [True, False, True, False]], ["mask", [True, False, True]], ["list", [2, -4, 2]],
                   ["list", [2, 4]], ["int", -1], ["int", 4], ["mask", []]):
            self.pos_case(4, ix, "note")
        # Probe.subprobe
        px = [[0, 0, 1, -1, 0, 0], [1, 0, 1, -1, 1, 1], [2, 0, 0, -1, 1, 0]]
        self.subprobe_case(px, ["list", [2, 0]], "note")
        self.subprobe_case(px, ["list", [3]], "note")
        self.subprobe_case(px, ["mask", []], "note:empty mask")

    # ---------------------------------------------------------------------------------------------------------------------
    def generate(self):
        m = 1 if self.quick else 10
        self.fixed()
        for _ in range(40 * m):
            self.random_init(err=False)
        for _ in range(90 * m):
            self.random_init(err=True)
        for _ in range(230 * m):
            self.random_hist()
        for err in ("sub:int", "sub:intrange", "sub:range", "sub:mask", "sub:step0", "sub:dup", "el:int", "el:intrange",
                    "el:range", "el:mask", "el:step0", "fil:2", "fil:3", "fil:7", "fil:8"):
            for _ in range(7 * m):
                self.random_hist(err)
        for _ in range(40 * m):
            self.random_get()
        for _ in range(40 * m):
            self.random_subprobe()
        for _ in range(30 * m):
            self.statement_cases()

    def evaluate(self):
        chk = self.chk
        lits = ["(" + c[1] + ")" for c in self.cases]
        bad = chk.coq_failing("tie_C15", PREAMBLE, "tcase", lits, "check_case", shard=120)
        shown = 0
        per_kind = {}
        for b in bad:
            per_kind[self.cases[b][0]] = per_kind.get(self.cases[b][0], 0) + 1
        for b in bad:
            kind, lit, replay, model = self.cases[b]
            chk.count(tie_C15_disagreement=kind)
            self.reported[kind] = self.reported.get(kind, 0) + 1
            if self.reported[kind] > 3:
                continue
            replay = dict(js(replay), correspondence=CORR[kind], disagreeing_cases_of_this_kind=per_kind[kind],
                          cases_of_this_kind=sum(1 for c in self.cases if c[0] == kind))
            if shown < 4:        # what the model answers (diagnostics; computed by Coq)
                shown += 1
                try:
                    out = chk.coq_values(f"tie_C15_diag_{shown}", PREAMBLE, [model])
                    replay["model_answer_vm_compute"] = out.strip()[-3000:]
                except Exception as e:  # noqa: BLE001
                    replay["model_answer_vm_compute"] = f"(not printed: {e})"[:300]
            replay["model_expression"] = model[:3000]
            chk.violation(f"tie:{kind}", f"the model ({CORR[kind].split(' vs ')[0]}) and the library disagree on a generated input",
                          replay, failing_input_found=False)
        return len(lits)


def run(chk, arim, rng, quick):
    t = Tie(chk, arim, rng, quick)
    t.generate()
    n = t.evaluate()
    return n + t.direct
