"""C08 — Model coefficients are assembled as Q_i * Q'_j * S(theta_i - a, theta_j - a).

Proof side : Props/C08.v (weights = product of the four factors, x sqrt(lambda_last) on receive;
             a disabled switch replaces exactly its factor by one; sinc / exp laws; both
             ModelAmplitudes classes = the index-level specification for ALL tx/rx lists and grid
             index lists; matrix class = function class on the bilinear interpolant;
             sensitivities independent of the block size).
Tie        : (a) tx_ray_weights / rx_ray_weights (weights AND every weights_dict entry) for all 16
             switch sets, with constant / polynomial / absent attenuation laws, on Snell-exact
             single-ray paths (model fed with ANALYTIC leg lengths and angles) and on ray-traced
             immersion set-ups (model fed with RayGeometry's leg lengths and angles);
             ray_weights_for_views puts the same arrays under the right paths.
             (b) model_amplitudes_factory on synthetic RayWeights: dyadic-exact inputs and a
             polynomial S compared BIT FOR BIT with the extracted model (and a shard with
             vm_compute on binary64 inside coqc), random floats at 1e-11; FMC, HMC, repeated,
             partial, permuted, negative tx/rx; int / negative int / slice / stepped / reversed
             slice / Ellipsis / index list / mask / chunk-tuple grid selectors; rotation a;
             function and matrix classes; error behaviour (out-of-range indices).
             (c) sensitivity_uniform_tfm / sensitivity_model_assisted_tfm for block sizes
             1..2*grid (+ huge) vs the model at the same block size and vs the unchunked definition.
Spec on impl: weights == product of the returned factors (bit for bit), disabled factor == 1,
             enabled factors independent of the other switches, directivity == sinc law at
             conventional_out_angle(0), attenuation == exp(-sum alpha_k d_k), rx/tx extra factor
             sqrt(lambda_last); P[g][k] == S(..)Q Q' in exact rational arithmetic; sensitivities ==
             definition on P[...] for every block size.
"""
import fractions
import itertools
import math

import numpy as np

from common import Check, close, cZ, cfloat, clist, cpair
import arimgen
import snellexact
from arimgen import fhex, unhex

chk = Check("C08", design_ref="DESIGN.md §5 C08")
chk.proofs(extra_trusted=[
    "extraction: ExtrOcamlBasic only (Extract/C08.v); ocaml/common/numf.ml and ocaml/C08/driver.ml hand-written, trusted "
    "(cross-checked on a dyadic shard against vm_compute of the same Coq terms on binary64)",
    "grid selectors (slice, Ellipsis, mask, chunk tuple) are expanded to index lists by numpy's own indexing of arange(numpoints); "
    "int selectors and index lists (incl. negative) are normalised by the model",
    "Python float // and % in the interpolation kernel are modelled by their exact-arithmetic meaning (C10)",
])
arim = chk.import_arim()
import arim.model as model
import arim.models.block_in_immersion as bim
import arim.ray

drv = arimgen.Driver(chk.ocaml_driver("C08"))
rng = chk.rng
# second tie: the scalar kernels are re-translated from the current source and checked
# convertible with the model; a broken tie deepens the correspondence run (thorough sizes)
_ties = chk.translation_tie()
Q = chk.tier == "quick" and all(v == "ok" for v in _ties.values())
evaluations = 0
nontrivial = set()
samples = []
SWITCHES = list(itertools.product([True, False], repeat=4))      # (directivity, transrefl, beamspread, attenuation)
TOL = 1e-9
ATOL_TR = 2e-7      # see harness/prop_C07.py: arim's polar angle acos(z/r) is ill-conditioned near normal incidence


# =============================================================================================
# (a) ray weights
# =============================================================================================
def law_token(law):
    if law is None:
        return "none"
    if law[0] == "c":
        return "c:" + fhex(law[1])
    return "p:" + ",".join(fhex(c) for c in law[1])


def law_func(law):
    if law is None:
        return None
    if law[0] == "c":
        return arim.material_attenuation_factory("constant", law[1])
    return arim.material_attenuation_factory("polynomial", tuple(law[1]))


def law_value(law, freq):
    """independent evaluation of the law (Horner in exact rationals)"""
    if law[0] == "c":
        return float(law[1])
    x = fractions.Fraction(freq) / 1000000
    acc = fractions.Fraction(0)
    for c in reversed(law[1]):
        acc = acc * x + fractions.Fraction(c)
    return float(acc)


def random_law(kind_hint=None):
    r = rng.random() if kind_hint is None else kind_hint
    if r < 0.25:
        return None
    if r < 0.6:
        return ("c", float(rng.uniform(0.0, 12.0)))
    deg = int(rng.integers(0, 4))
    return ("p", [float(rng.uniform(0.0, 2.0)) for _ in range(deg + 1)])


def set_laws(couplant, block, laws):
    """laws = (couplant L, block L, block T)"""
    couplant.longitudinal_att = law_func(laws[0])
    block.longitudinal_att = law_func(laws[1])
    block.transverse_att = law_func(laws[2])


def path_static(path, couplant, block):
    """what the model needs from the Path object itself (kinds, flags, materials, modes)"""
    n = len(path.interfaces) - 1                       # number of legs
    mat = lambda m: "f" if m is couplant else "s"
    md = lambda m: "L" if m is arim.Mode.L else "T"
    recs = []
    for i in range(1, n):
        itf = path.interfaces[i]
        kind = "0" if itf.kind.name == "fluid_solid" else "1"
        trans = "1" if itf.transmission_reflection.name == "transmission" else "0"
        against = mat(itf.reflection_against) if itf.reflection_against is not None else "f"
        recs.append([kind, trans, mat(path.materials[i - 1]), mat(path.materials[i]), against,
                     md(path.modes[i - 1]), md(path.modes[i])])
    return recs, [md(m) for m in path.modes]


def w_line(sw, width, freq, couplant, block, theta0, recs, incs, legs, vels, leg_laws, lastmode):
    toks = ["W"] + ["1" if s else "0" for s in sw]
    toks += ["none" if width is None else fhex(width), fhex(freq)]
    toks += [fhex(couplant.density), fhex(couplant.longitudinal_vel), fhex(block.density), fhex(block.longitudinal_vel),
             fhex(block.transverse_vel if block.transverse_vel is not None else float("nan"))]
    toks += [fhex(theta0), lastmode, str(len(recs))]
    for rec, th in zip(recs, incs):
        toks += rec + [fhex(th)]
    toks += [fhex(x) for x in legs] + [fhex(x) for x in vels] + [law_token(l) for l in leg_laws]
    return " ".join(toks)


def parse_w(out):
    res = []
    for part in out.split("|"):
        t = part.split()
        if t == ["raise"]:
            res.append(None)
        else:
            v = [unhex(x) for x in t]
            res.append(dict(w=complex(v[0], v[1]), directivity=v[2], transrefl=complex(v[3], v[4]), beamspread=v[5], attenuation=v[6]))
    return res


def call_weights(fn, path, rg, freq, width, sw):
    try:
        return fn(path, rg, freq, width, use_directivity=sw[0], use_transrefl=sw[1], use_beamspread=sw[2],
                  use_attenuation=sw[3])
    except Exception as e:           # noqa: BLE001 - the kind of error is what is compared
        return e


FACTORS = ("directivity", "transrefl", "beamspread", "attenuation")


def spec_weights(tag, path, rg, freq, width, couplant, block, leg_laws, results, replay):
    """the property itself on the implementation's outputs, for one path: results[(side, sw)] = (weights, dict)"""
    ok = True

    def bad(key, what, extra):
        nonlocal ok
        ok = False
        chk.violation(key, what, dict(replay, **extra))

    lam_c = couplant.longitudinal_vel / freq
    theta0 = rg.conventional_out_angle(0)
    legs = [rg.inc_leg_size(k) for k in range(1, len(path.interfaces))]
    log_att = np.zeros_like(legs[0])
    for law, d in zip(leg_laws, legs):
        if law is not None:
            log_att = log_att - law_value(law, freq) * d
    att_law = np.exp(log_att)
    with np.errstate(all="ignore"):
        dir_law = np.sinc(width / lam_c * np.sin(theta0)) if width is not None else None
    lam_last = (block.longitudinal_vel if path.modes[-1] is arim.Mode.L else block.transverse_vel) / freq
    full = {side: results[(side, (True, True, True, True))] for side in ("tx", "rx")}
    for (side, sw), res in results.items():
        if isinstance(res, Exception):
            bad(f"{tag}:raises", f"{side}_ray_weights raised {type(res).__name__} on a valid path", dict(side=side, switches=sw, error=str(res)))
            continue
        w, d = res
        prod = d["directivity"] * d["transrefl"] * d["beamspread"] * d["attenuation"]
        if side == "rx":
            prod = prod * np.sqrt(lam_last)
        same = (prod == w) | (np.isnan(prod) & np.isnan(w))
        if not same.all():
            e, g = np.argwhere(~same)[0]
            bad(f"{tag}:{side}:product", f"{side} weights are not the product of the four returned factors"
                + (" times sqrt(wavelength of the last leg)" if side == "rx" else ""),
                dict(side=side, switches=sw, element=int(e), point=int(g), weights=w[e, g], product=prod[e, g]))
        for on, name in zip(sw, FACTORS):
            if not on:
                if not (np.asarray(d[name]) == 1).all() or np.asarray(d[name]).shape != w.shape:
                    bad(f"{tag}:{side}:off:{name}", f"disabled factor {name} is not identically one", dict(side=side, switches=sw))
            elif not isinstance(full[side], Exception):
                ref = full[side][1][name]
                if not np.array_equal(ref, d[name], equal_nan=True):
                    bad(f"{tag}:{side}:on:{name}", f"enabled factor {name} depends on the other switches", dict(side=side, switches=sw))
        # each enabled factor is the public function of arim.model for that side
        refs = {"directivity": (lambda: model.directivity_2d_rectangular_in_fluid_for_path(rg, width, lam_c)),
                "transrefl": (lambda: (model.transmission_reflection_for_path if side == "tx" else
                                       model.reverse_transmission_reflection_for_path)(path, rg, unit="displacement")),
                "beamspread": (lambda: (model.beamspread_2d_for_path if side == "tx" else model.reverse_beamspread_2d_for_path)(rg)),
                "attenuation": (lambda: model.material_attenuation_for_path(path, rg, freq))}
        if sw == (True, True, True, True):
            for name in FACTORS:
                if not np.array_equal(np.asarray(d[name]), np.asarray(refs[name]()), equal_nan=True):
                    bad(f"{tag}:{side}:factor:{name}", f"{side} factor {name} is not the value of the corresponding arim.model function "
                        "(forward terms on transmit, reverse terms on receive, displacement units)", dict(side=side, switches=sw))
        if sw[0] and not np.allclose(d["directivity"], dir_law, rtol=1e-12, atol=1e-15, equal_nan=True):
            e, g = np.argwhere(~np.isclose(d["directivity"], dir_law, rtol=1e-12, atol=1e-15, equal_nan=True))[0]
            bad(f"{tag}:{side}:directivity-law", "directivity is not sinc(width sin(theta)/lambda) at the probe exit angle conventional_out_angle(0)",
                dict(side=side, switches=sw, element=int(e), point=int(g), impl=d["directivity"][e, g], law=dir_law[e, g], theta=theta0[e, g]))
        if sw[3] and not np.allclose(d["attenuation"], att_law, rtol=1e-12, atol=0, equal_nan=True):
            e, g = np.argwhere(~np.isclose(d["attenuation"], att_law, rtol=1e-12, atol=0, equal_nan=True))[0]
            bad(f"{tag}:{side}:attenuation-law", "attenuation is not exp(-sum alpha_k d_k)",
                dict(side=side, switches=sw, element=int(e), point=int(g), impl=d["attenuation"][e, g], law=att_law[e, g]))
    return ok


def wclose(x, y, rtol, atol=0.0):
    """close(), except that a complex number with a NaN component counts as NaN as a whole (a real NaN weight of the
    implementation is (nan, nan) after the model's complex products)"""
    x, y = complex(x), complex(y)
    xn, yn = x != x, y != y
    if xn or yn:
        return xn and yn
    return close(x, y, rtol, atol)


def compare_weights(tag, spec_ok, impl, mod, sw, side, replay, floor_scale):
    """impl: dict of scalars (w + factors) for one ray; mod: parsed model output (or None)"""
    global evaluations
    if mod is None:
        if spec_ok:
            chk.violation(f"{tag}:model-raises", f"model of {side}_ray_weights raises where the implementation returns", dict(replay, switches=sw),
                          failing_input_found=False)
        return
    for name in ("w",) + FACTORS:
        evaluations += 1
        atol = ATOL_TR * floor_scale if name in ("w", "transrefl") else 0.0
        on = True if name == "w" else sw[FACTORS.index(name)]
        if on:
            good = wclose(impl[name], mod[name], TOL, atol)
        else:
            good = complex(impl[name]) == 1 and complex(mod[name]) == 1
        if not good and spec_ok:
            chk.violation(f"{tag}:{side}:{name}", f"{side}_ray_weights: {name} differs from the model",
                          dict(replay, side=side, switches=sw, observable=name, impl_value=impl[name], model_value=mod[name],
                               correspondence="Model.Amplitudes.tx_ray_weights / rx_ray_weights (extracted)"),
                          failing_input_found=False)


def run_path(tag, path, rg, couplant, block, freq, width, laws3, ray_inputs, replay, switch_sets):
    """ray_inputs: list of ((e, g), theta0, incs, legs) given to the model"""
    recs, modes = path_static(path, couplant, block)
    leg_laws = [laws3[0] if m is couplant else (laws3[1] if md is arim.Mode.L else laws3[2])
                for m, md in zip(path.materials, path.modes)]
    vels = [float(v) for v in path.velocities]
    results = {}
    for sw in switch_sets:
        results[("tx", sw)] = call_weights(bim.tx_ray_weights, path, rg, freq, width, sw)
        results[("rx", sw)] = call_weights(bim.rx_ray_weights, path, rg, freq, width, sw)
    spec_ok = spec_weights(tag, path, rg, freq, width, couplant, block, leg_laws, results, replay)
    lines, meta = [], []
    for (e, g), theta0, incs, legs in ray_inputs:
        for sw in switch_sets:
            lines.append(w_line(sw, width, freq, couplant, block, theta0, recs, incs, legs, vels, leg_laws, modes[-1]))
            meta.append(((e, g), sw))
    outs = drv.run(lines)
    for ((e, g), sw), o in zip(meta, outs):
        mtx, mrx = parse_w(o)
        for side, mod in (("tx", mtx), ("rx", mrx)):
            res = results[(side, sw)]
            if isinstance(res, Exception):
                continue
            w, d = res
            impl = dict(w=w[e, g], **{k: np.asarray(d[k])[e, g] for k in FACTORS})
            with np.errstate(all="ignore"):
                scale = abs(impl["directivity"] * impl["beamspread"] * impl["attenuation"])
                if side == "rx":
                    scale *= math.sqrt((block.longitudinal_vel if modes[-1] == "L" else block.transverse_vel) / freq)
            compare_weights(tag, spec_ok, impl, mod, sw, side, dict(replay, element=e, point=g), float(scale) if np.isfinite(scale) else 1.0)
    return spec_ok


# ---- (a1) Snell-exact single-ray family -------------------------------------------------------
want = 300 if Q else 2500
done = tries = 0
while done < want and tries < 60 * want:
    tries += 1
    geom = snellexact.random_geometry(rng, max_inc_deg=84.0)
    if geom is None or not geom["immersion"] or geom["nlegs"] < 2:
        continue
    laws3 = (random_law(), random_law(), random_law())
    path = snellexact.arim_path(geom, arim, physical=True, attenuation=None)
    couplant, block = path.materials[0], path.materials[1]
    set_laws(couplant, block, laws3)
    rg = arim.ray.RayGeometry.from_path(path)
    freq = float(rng.uniform(1e6, 10e6))
    width = float(rng.uniform(0.1e-3, 2.0e-3))
    theta0 = abs(geom["phi"])                         # analytic: the probe normal is +z
    replay = dict(family="snell-exact", geom={k: geom[k] for k in ("src", "phi", "vels", "legs", "inc", "modes", "rho_f", "rho_s",
                                                                   "c_f", "c_l", "c_t", "last_len")},
                  walls=[(list(w[0]), w[1], w[2]) for w in geom["walls"]], laws=laws3, frequency=freq, width=width)
    run_path("snell", path, rg, couplant, block, freq, width, laws3,
             [((0, 0), theta0, geom["inc"], geom["legs"])], replay, SWITCHES)
    chk.count(family="snell-exact", modes="".join(geom["modes"][1:]),
              laws="/".join("-" if l is None else l[0] for l in laws3))
    nontrivial.add(("snell", tuple(geom["legs"]), "".join(geom["modes"])))
    done += 1
    if done == 1:
        samples.append({"snell_exact_ray": {"modes": geom["modes"], "inc": geom["inc"], "laws": laws3, "frequency": freq}})

# ---- (a2) ray-traced immersion set-ups ---------------------------------------------------------
nsetups = 5 if Q else 40
for s_i in range(nsetups):
    setup = arimgen.immersion_setup(rng, max_refl=[1, 0, 2, 1, 1][s_i % 5] if Q else int(rng.choice([0, 1, 1, 2])),
                                    wall_points=int(rng.integers(50, 300)), attenuation=False)
    couplant, block, paths, views = setup["couplant"], setup["block"], setup["paths"], setup["views"]
    laws3 = (random_law(), random_law(), random_law())
    set_laws(couplant, block, laws3)
    freq = setup["freq"]
    width = float(rng.uniform(0.1e-3, 1.5e-3))
    names = list(paths.keys())
    if Q:
        names = [names[i] for i in rng.permutation(len(names))[:6]]
    for name in names:
        path = paths[name]
        rg = arim.ray.RayGeometry.from_path(path)
        n = len(path.interfaces) - 1
        theta0 = rg.conventional_out_angle(0)
        incs = [rg.conventional_inc_angle(i) for i in range(1, n)]
        legs = [rg.inc_leg_size(k) for k in range(1, n + 1)]
        ne, ng = theta0.shape
        rays = [((e, g), float(theta0[e, g]), [float(a[e, g]) for a in incs], [float(l[e, g]) for l in legs])
                for e in range(ne) for g in range(ng)]
        # all 16 switch sets on one ray per path, 4 sets on all rays
        sw_some = [SWITCHES[0]] + [SWITCHES[int(i)] for i in rng.choice(np.arange(1, 16), size=3, replace=False)]
        replay = dict(family="traced", seed_setup_index=s_i, path=name, laws=laws3, frequency=freq, width=width,
                      couplant=[couplant.density, couplant.longitudinal_vel],
                      block=[block.density, block.longitudinal_vel, block.transverse_vel],
                      probe_locations=setup["probe"].locations.coords, depth=setup["depth"])
        pick = int(rng.integers(0, len(rays)))
        ok = run_path("traced", path, rg, couplant, block, freq, width, laws3, [rays[pick]], replay, SWITCHES)
        if ok:
            run_path("traced", path, rg, couplant, block, freq, width, laws3, rays, replay, sw_some)
        chk.count(family="traced", path=name)
        nontrivial.add(("traced", s_i, name))
    # ray_weights_for_views: same arrays, under the right path, scattering angle = signed_inc_angle(-1);
    # stage 2 is a HISTORY on the same Path / View objects: block velocities updated in place (a calibration
    # loop), rays traced again, ray weights asked again -> they must be those of the NEW rays
    for stage in (1, 2):
        if stage == 2:
            block.longitudinal_vel = block.longitudinal_vel * float(rng.uniform(1.03, 1.12))
            block.transverse_vel = block.transverse_vel * float(rng.uniform(0.90, 0.97))
            arim.ray.ray_tracing_for_paths(list(paths.values()))
            chk.count(history='views re-traced after a velocity update')
        sw = SWITCHES[int(rng.integers(0, 16))]
        rw = bim.ray_weights_for_views(views, freq, width, use_directivity=sw[0], use_transrefl=sw[1], use_beamspread=sw[2],
                                       use_attenuation=sw[3], save_debug=True)
        tx_paths = {v.tx_path for v in views.values()}
        rx_paths = {v.rx_path for v in views.values()}
        if set(rw.tx_ray_weights_dict) != tx_paths or set(rw.rx_ray_weights_dict) != rx_paths:
            chk.violation("views:keys", "ray_weights_for_views does not hold exactly the tx / rx paths of the views", dict(setup=s_i, stage=stage))
        for name, path in paths.items():
            rg = arim.ray.RayGeometry.from_path(path)
            for side, dct, dbg, fn in (("tx", rw.tx_ray_weights_dict, rw.tx_ray_weights_debug_dict, bim.tx_ray_weights),
                                       ("rx", rw.rx_ray_weights_dict, rw.rx_ray_weights_debug_dict, bim.rx_ray_weights)):
                if path not in dct:
                    continue
                ref = call_weights(fn, path, rg, freq, width, sw)
                evaluations += 1
                if isinstance(ref, Exception) or not np.array_equal(ref[0], dct[path], equal_nan=True) or \
                        any(not np.array_equal(np.asarray(ref[1][k]), np.asarray(dbg[path][k]), equal_nan=True) for k in FACTORS):
                    chk.violation(f"views:{side}", f"ray_weights_for_views: {side} weights of path {name} are not {side}_ray_weights(path)",
                                  dict(setup=s_i, stage=stage, path=name, switches=sw, frequency=freq, width=width, note="stage 2 = same views after block velocities were updated in place and rays traced again"))
            if path in rw.scattering_angles_dict:
                if not np.array_equal(rw.scattering_angles_dict[path], rg.signed_inc_angle(-1), equal_nan=True):
                    chk.violation("views:scat-angle", f"scattering angles of path {name} are not signed_inc_angle(-1)", dict(setup=s_i, stage=stage, path=name))

# ---- (a2+) ray_weights_for_views on SUBSETS of the views (one view, two views: a model restricted to the views of interest):
#      paths used on receive only / on transmit only get their own weights, factor by factor
for s_i in range(3 if Q else 20):
    setup = arimgen.immersion_setup(rng, max_refl=int(rng.integers(0, 2)), wall_points=int(rng.integers(40, 120)), attenuation=True,
                                    numelements=int(rng.integers(2, 5)), numscat=int(rng.integers(1, 4)))
    views, freq = setup["views"], setup["freq"]
    width = float(rng.uniform(0.2e-3, 1.0e-3))
    vnames = list(views)
    for _ in range(6 if Q else 12):
        pick = [vnames[int(i)] for i in rng.choice(len(vnames), size=int(rng.integers(1, 3)), replace=False)]
        sub = {vn: views[vn] for vn in pick}
        sw = SWITCHES[0] if rng.random() < 0.5 else SWITCHES[int(rng.integers(0, 16))]
        rw = bim.ray_weights_for_views(sub, freq, width, use_directivity=sw[0], use_transrefl=sw[1], use_beamspread=sw[2],
                                       use_attenuation=sw[3], save_debug=True)
        evaluations += 1
        chk.count(views_subset=len(pick))
        nontrivial.add(("views-subset", s_i, tuple(pick)))
        want_tx, want_rx = {v.tx_path for v in sub.values()}, {v.rx_path for v in sub.values()}
        bad_ = None
        if set(rw.tx_ray_weights_dict) != want_tx or set(rw.rx_ray_weights_dict) != want_rx:
            bad_ = "the dictionaries do not hold exactly the tx / rx paths of the requested views"
        for side, dct, dbg, fn, wanted in (("tx", rw.tx_ray_weights_dict, rw.tx_ray_weights_debug_dict, bim.tx_ray_weights, want_tx),
                                           ("rx", rw.rx_ray_weights_dict, rw.rx_ray_weights_debug_dict, bim.rx_ray_weights, want_rx)):
            if bad_:
                break
            for pth in wanted:
                ref = call_weights(fn, pth, arim.ray.RayGeometry.from_path(pth), freq, width, sw)
                if isinstance(ref, Exception):
                    continue
                if not np.array_equal(ref[0], dct[pth], equal_nan=True):
                    bad_ = f"{side} weights of path {pth.name} are not {side}_ray_weights(path)"
                for k in FACTORS:
                    if bad_ is None and not np.array_equal(np.asarray(ref[1][k]), np.asarray(dbg[pth][k]), equal_nan=True):
                        bad_ = f"{side} factor '{k}' of path {pth.name} is not the one {side}_ray_weights(path) computes"
        if bad_:
            chk.violation("views-subset", f"ray_weights_for_views on the views {pick}: {bad_}",
                          dict(views=pick, switches=sw, frequency=freq, width=width,
                               how="arimgen.immersion_setup(...attenuation=True); seed and tier replay it"))
            break

# ---- (a2'') the weights of a ray do not depend on HOW MANY rays are stored with it nor on their memory order:
#      an image-sized target set (more points than a 16-bit index can address) against the same targets traced a few at a
#      time, and Fortran-ordered rays (ray_tracing(convert_to_fortran_order=True), what the TFM functions ask for)
#      against C-ordered ones
import copy as _copy
for s_i in range(1 if Q else 4):
    big = s_i % 2 == 0
    numscat_ = int(rng.integers(33500, 36000)) if big else int(rng.integers(5, 40))
    setup = arimgen.immersion_setup(rng, numelements=int(rng.integers(2, 4)), numscat=numscat_, max_refl=1, wall_points=int(rng.integers(30, 60)), attenuation=True)
    couplant, block, paths = setup["couplant"], setup["block"], setup["paths"]
    freq, width = setup["freq"], float(rng.uniform(0.2e-3, 1.0e-3))
    names = [n_ for n_ in paths][:]
    names = [names[i] for i in rng.permutation(len(names))[:(3 if Q else 6)]]
    # the same targets, a few at a time (taken at both ends and in the middle of the stored set)
    pick_ = np.unique(np.concatenate([np.arange(0, 3), rng.integers(0, numscat_, 6), np.arange(numscat_ - 4, numscat_)]).clip(0, numscat_ - 1))
    sc_full = setup["scat"]
    sub_pts = arim.Points(np.array(sc_full.points.coords[pick_]), "Scatterers")
    sub_scat = arim.geometry.OrientedPoints(sub_pts, arim.geometry.default_orientations(sub_pts))
    itf_sub = bim.make_interfaces(couplant, setup["probe_op"], setup["frontwall"], setup["backwall"], sub_scat)
    paths_sub = bim.make_paths(block, couplant, itf_sub, max_number_of_reflection=1)
    arim.ray.ray_tracing_for_paths([paths_sub[n_] for n_ in names])
    for name in names:
        path = paths[name]
        variants = {"few-at-a-time": (paths_sub[name], pick_)}
        pf = _copy.copy(path)
        pf.rays = path.rays.to_fortran_order()
        variants["fortran-ordered rays"] = (pf, None)
        rg = arim.ray.RayGeometry.from_path(path)
        for side, fn in (("tx", bim.tx_ray_weights), ("rx", bim.rx_ray_weights)):
            ref = call_weights(fn, path, rg, freq, width, SWITCHES[0])
            if isinstance(ref, Exception):
                continue
            for vname, (p2, cols) in variants.items():
                got = call_weights(fn, p2, arim.ray.RayGeometry.from_path(p2), freq, width, SWITCHES[0])
                evaluations += 1
                chk.count(ray_storage=vname + (" / image-sized set" if big else ""))
                bad_ = isinstance(got, Exception)
                fac_ = None
                if not bad_:
                    for fac_ in ("weights",) + FACTORS:
                        a_ = np.asarray(ref[0] if fac_ == "weights" else ref[1][fac_])
                        b_ = np.asarray(got[0] if fac_ == "weights" else got[1][fac_])
                        a_ = a_ if cols is None else a_[:, cols]
                        if a_.shape != b_.shape or not np.allclose(a_, b_, rtol=1e-11, atol=0, equal_nan=True):
                            bad_ = True
                            break
                if bad_:
                    chk.violation(f"storage:{side}:{vname.split()[0]}", f"{side} ray weights of path {name} ({'factor ' + str(fac_) if not isinstance(got, Exception) else repr(got)}) "
                                  f"differ between the stored rays ({numscat_} targets, C order) and the same rays stored as: {vname}",
                                  dict(path=name, numscat=numscat_, variant=vname, targets_compared=None if cols is None else cols,
                                       frequency=freq, width=width, how="arimgen.immersion_setup(numscat=numscat, max_refl=1, attenuation=True); seed and tier replay it"))
                    break
    nontrivial.add(("storage", s_i))

# ---- (a2') probe_element_width=None: ValueError iff the directivity is enabled -------------------
for _ in range(3 if Q else 20):
    geom = None
    while geom is None or not geom["immersion"] or geom["nlegs"] < 2:
        geom = snellexact.random_geometry(rng, max_inc_deg=80.0)
    path = snellexact.arim_path(geom, arim, physical=True, attenuation=None)
    couplant, block = path.materials[0], path.materials[1]
    laws3 = (random_law(), random_law(), random_law())
    set_laws(couplant, block, laws3)
    rg = arim.ray.RayGeometry.from_path(path)
    freq = float(rng.uniform(1e6, 10e6))
    recs, modes = path_static(path, couplant, block)
    leg_laws = [laws3[0]] + [laws3[1] if m == "L" else laws3[2] for m in modes[1:]]
    sws = [SWITCHES[int(i)] for i in rng.choice(16, size=6, replace=False)]
    outs = drv.run([w_line(sw, None, freq, couplant, block, abs(geom["phi"]), recs, geom["inc"], geom["legs"],
                           [float(v) for v in path.velocities], leg_laws, modes[-1]) for sw in sws])
    for sw, o in zip(sws, outs):
        mods = parse_w(o)
        for side, fn, mod in (("tx", bim.tx_ray_weights, mods[0]), ("rx", bim.rx_ray_weights, mods[1])):
            evaluations += 1
            try:
                res = fn(path, rg, freq, None, use_directivity=sw[0], use_transrefl=sw[1], use_beamspread=sw[2], use_attenuation=sw[3])
            except ValueError:
                res = None
            rep = dict(family="snell-exact", switches=sw, side=side, width=None, frequency=freq, laws=laws3,
                       geom={k: geom[k] for k in ("src", "phi", "vels", "legs", "inc", "modes")})
            if (res is None) != sw[0]:
                chk.violation("width-none", "probe_element_width=None must raise ValueError exactly when the directivity is enabled", rep)
            elif (res is None) != (mod is None):
                chk.violation("width-none:model", "raise / no raise differs from the model for probe_element_width=None", rep, failing_input_found=False)
            elif res is not None and not wclose(res[0][0, 0], mod["w"], TOL, ATOL_TR * abs(mod["beamspread"] * mod["attenuation"]) * (
                    1.0 if side == "tx" else math.sqrt((block.longitudinal_vel if modes[-1] == "L" else block.transverse_vel) / freq))):
                chk.violation("width-none:value", "weights without directivity differ from the model", dict(rep, impl=res[0][0, 0], model=mod["w"]),
                              failing_input_found=False)

# ---- (a3) boundary family: attenuation laws, directivity, error branches -----------------------
law_cases = [("c", 0.0), ("c", 15.0), ("p", [1.0, 2.0, 3.0]), ("p", [0.5]), ("p", [0.0, 0.0, 0.25, 0.125]), ("p", [])]
lines = [f"T {law_token(l)} {fhex(f)}" for l in law_cases for f in (5e6, 1e6, 2.5e6, 0.0)]
outs = drv.run(lines)
k = 0
for l in law_cases:
    for f in (5e6, 1e6, 2.5e6, 0.0):
        o = outs[k]
        k += 1
        evaluations += 1
        try:
            iv = float(law_func(l)(f))
        except ValueError:
            iv = None
        mv = None if o == "raise" else unhex(o)
        if (iv is None) != (mv is None) or (iv is not None and not close(iv, mv, 1e-14)):
            spec_fail = iv is None or l[1] == [] or not close(iv, law_value(l, f), 1e-14)
            chk.violation("attenuation-factory", "material_attenuation_factory law differs from the model",
                          dict(law=l, frequency=f, impl=iv, model=mv), failing_input_found=bool(spec_fail))
try:
    arim.material_attenuation_factory("linear", 1.0)
    chk.violation("attenuation-factory:unknown-kind", "unknown attenuation kind accepted", dict(kind="linear"))
except ValueError:
    pass
# recorded, not asserted (outside the property's quantifier: frequency is documented as a float):
# np.full_like(frequency, value) takes the dtype of the frequency, so an integer frequency truncates the value
try:
    trunc = float(arim.material_attenuation_factory("constant", 15.7)(5000000))
except Exception as e:                       # noqa: BLE001
    trunc = repr(e)
chk.cov["finding_candidate_constant_attenuation_integer_frequency"] = {"law": "constant 15.7", "frequency": "int 5000000", "returned": trunc}
if trunc != 15.7 and "attenuation:int-frequency-truncates" in chk.known:
    chk.violation("attenuation:int-frequency-truncates", "constant attenuation truncated for an integer frequency", {})
# directivity: theta = 0 -> 1; even; zero at width sin(theta) = lambda; negative arguments raise
for th, wd, lam in [(0.0, 1e-3, 0.5e-3), (0.3, 1e-3, 0.5e-3), (-0.3, 1e-3, 0.5e-3), (math.asin(0.5), 1e-3, 0.5e-3), (0.7, 0.0, 1e-3)]:
    evaluations += 1
    iv = float(model.directivity_2d_rectangular_in_fluid(th, wd, lam))
    x = wd / lam * math.sin(th)
    law = 1.0 if x == 0 else math.sin(math.pi * x) / (math.pi * x)
    if not close(iv, law, 1e-12, 1e-15):
        chk.violation("directivity-law", "directivity is not sinc(a sin(theta)/lambda)", dict(theta=th, width=wd, wavelength=lam, impl=iv, law=law))
for wd, lam in [(-1e-3, 1e-3), (1e-3, -1e-3)]:
    try:
        model.directivity_2d_rectangular_in_fluid(0.1, wd, lam)
        chk.violation("directivity-negative", "negative width / wavelength accepted", dict(width=wd, wavelength=lam))
    except ValueError:
        pass

# =============================================================================================
# (b) model_amplitudes_factory on synthetic RayWeights
# =============================================================================================
class _View:
    def __init__(self, tx_path, rx_path, key):
        self.tx_path, self.rx_path, self._key = tx_path, rx_path, key

    def scat_key(self):
        return self._key


def distinct_dyadics(n, den, lo, hi):
    pool = np.arange(int(lo * den), int(hi * den) + 1)
    pool = pool[pool != 0]
    return rng.choice(pool, size=n, replace=False) / den


def gen_arrays(ne, ng, exact):
    if exact:
        vals = distinct_dyadics(4 * ne * ng, 8, -15, 15)
        Qtx = (vals[:ne * ng] + 1j * vals[ne * ng:2 * ne * ng]).reshape(ne, ng)
        Qrx = (vals[2 * ne * ng:3 * ne * ng] + 1j * vals[3 * ne * ng:]).reshape(ne, ng)
        ang = distinct_dyadics(2 * ne * ng, 64, -3, 3)
        Ttx, Trx = ang[:ne * ng].reshape(ne, ng), ang[ne * ng:].reshape(ne, ng)
    else:
        Qtx = rng.standard_normal((ne, ng)) + 1j * rng.standard_normal((ne, ng))
        Qrx = rng.standard_normal((ne, ng)) + 1j * rng.standard_normal((ne, ng))
        Ttx, Trx = rng.uniform(-np.pi, np.pi, (ne, ng)), rng.uniform(-np.pi, np.pi, (ne, ng))
    return Qtx, Qrx, Ttx, Trx


def gen_txrx(ne):
    kind = str(rng.choice(["fmc", "hmc", "repeated", "partial", "permuted", "negative", "single", "empty"],
                          p=[0.2, 0.15, 0.15, 0.15, 0.15, 0.1, 0.07, 0.03]))
    if kind == "fmc":
        tx, rx = arim.ut.fmc(ne)
    elif kind == "hmc":
        tx, rx = arim.ut.hmc(ne)
    elif kind == "repeated":
        n = int(rng.integers(1, 2 * ne + 2))
        tx, rx = rng.integers(0, ne, n), rng.integers(0, ne, n)
        tx[-1], rx[-1] = tx[0], rx[0]
    elif kind == "partial":
        tx0, rx0 = arim.ut.fmc(ne)
        keep = np.sort(rng.choice(len(tx0), size=int(rng.integers(1, len(tx0) + 1)), replace=False))
        tx, rx = tx0[keep], rx0[keep]
    elif kind == "permuted":
        tx0, rx0 = arim.ut.fmc(ne)
        p = rng.permutation(len(tx0))
        tx, rx = tx0[p], rx0[p]
    elif kind == "negative":
        n = int(rng.integers(1, 2 * ne + 2))
        tx, rx = rng.integers(-ne, ne, n), rng.integers(-ne, ne, n)
    elif kind == "single":
        tx, rx = np.array([int(rng.integers(0, ne))]), np.array([int(rng.integers(0, ne))])
    else:
        tx, rx = np.zeros(0, int), np.zeros(0, int)
    return kind, np.asarray(tx, dtype=np.int_), np.asarray(rx, dtype=np.int_)


def gen_selector(ng):
    """(kind, selector given to __getitem__, list of grid indices given to the model, drops first axis?)"""
    kind = str(rng.choice(["int", "negint", "ellipsis", "slice", "stepslice", "revslice", "negslice", "list", "mask",
                           "chunk", "emptyslice", "overslice"]))
    ar = np.arange(ng)
    if kind == "int":
        i = int(rng.integers(0, ng))
        return kind, i, [i], True
    if kind == "negint":
        i = -int(rng.integers(1, ng + 1))
        return kind, i, [i], True
    if kind == "ellipsis":
        return kind, Ellipsis, ar.tolist(), False
    if kind == "slice":
        a, b = sorted(int(x) for x in rng.integers(0, ng + 1, 2))
        sel = slice(a, b)
    elif kind == "stepslice":
        sel = slice(int(rng.integers(0, ng)), None, int(rng.integers(2, 4)))
    elif kind == "revslice":
        sel = slice(None, None, -1) if rng.random() < 0.5 else slice(int(rng.integers(0, ng)), None, -int(rng.integers(1, 3)))
    elif kind == "negslice":
        sel = slice(-int(rng.integers(1, ng + 1)), None)
    elif kind == "list":
        l = [int(x) for x in rng.integers(-ng, ng, int(rng.integers(1, ng + 3)))]
        return kind, l, l, False
    elif kind == "mask":
        m = rng.random(ng) < 0.5
        return kind, m, ar[m].tolist(), False
    elif kind == "chunk":
        b = int(rng.integers(1, ng + 2))
        i = int(rng.integers(0, -(-ng // b)))
        sel = (slice(i * b, (i + 1) * b), Ellipsis)
        return kind, sel, ar[sel].tolist(), False
    elif kind == "emptyslice":
        sel = slice(ng, ng + 3)
    else:
        sel = slice(0, ng + 5)
    return kind, sel, ar[sel].tolist(), False


def poly_S(c):
    def S(x, y):
        x, y = np.asarray(x), np.asarray(y)
        out = np.empty(np.broadcast(x, y).shape, dtype=np.complex128)
        out.real = c[0] + c[1] * x + c[2] * y + c[3] * x * y
        out.imag = c[4] + c[5] * x + c[6] * y
        return out
    return S


def poly_S_elementwise(c):
    """the same function written as one elementwise expression (the result keeps the memory layout of its arguments, as the
    library's own scattering functions do)"""
    def S(x, y):
        return (c[0] + c[1] * x + c[2] * y + c[3] * x * y) + 1j * (c[4] + c[5] * x + c[6] * y)
    return S


def a_line(cmd, kind, ne, ng, a, tx, rx, G, arrays, sdesc, tail=""):
    Qtx, Qrx, Ttx, Trx = arrays
    toks = [cmd, kind, str(ne), str(ng), str(len(tx)), str(len(G)), fhex(a)]
    toks += [str(int(i)) for i in tx] + [str(int(i)) for i in rx] + [str(int(g)) for g in G]
    for Qm in (Qtx, Qrx):
        for v in Qm.ravel():
            toks += [fhex(v.real), fhex(v.imag)]
    for Tm in (Ttx, Trx):
        toks += [fhex(v) for v in Tm.ravel()]
    if kind in ("F", "Z"):
        toks += [fhex(c) for c in sdesc]
    else:
        M = sdesc
        toks.append(str(M.shape[0]))
        for v in M.ravel():
            toks += [fhex(v.real), fhex(v.imag)]
    return " ".join(toks) + tail


def parse_cplx(tokens):
    v = [unhex(x) for x in tokens]
    return np.array(v[0::2]) + 1j * np.array(v[1::2])


def frac_c(z):
    return (fractions.Fraction(float(np.real(z))), fractions.Fraction(float(np.imag(z))))


def cmul_f(a, b):
    return (a[0] * b[0] - a[1] * b[1], a[0] * b[1] + a[1] * b[0])


def spec_entry_exact(c, a, q, qp, th, thp):
    """S(th - a, th' - a) * q * q' in exact rationals"""
    F = fractions.Fraction
    x, y = F(float(th)) - F(float(a)), F(float(thp)) - F(float(a))
    cf = [F(float(v)) for v in c]
    s = (cf[0] + cf[1] * x + cf[2] * y + cf[3] * x * y, cf[4] + cf[5] * x + cf[6] * y)
    return cmul_f(cmul_f(s, frac_c(q)), frac_c(qp))


def norm_idx(i, n):
    i = int(i)
    return i if 0 <= i < n else (i + n if -n <= i < 0 else None)


# ---- (b0) end to end on ray-traced set-ups: real Views, real RayWeights, FMC / HMC ------------------
for s_i in range(2 if Q else 15):
    setup = arimgen.immersion_setup(rng, max_refl=int(rng.choice([0, 1])), wall_points=int(rng.integers(50, 200)), attenuation=True)
    views, probe = setup["views"], setup["probe"]
    ne = probe.numelements
    rwts = bim.ray_weights_for_views(views, setup["freq"], float(rng.uniform(0.2e-3, 1e-3)))
    coeff = {k: [float(v) for v in rng.standard_normal(7)] for k in ("LL", "LT", "TL", "TT")}
    nmat = int(rng.integers(3, 12))
    mats = {k: rng.standard_normal((nmat, nmat)) + 1j * rng.standard_normal((nmat, nmat)) for k in coeff}
    # memory layout of the matrices is not part of their meaning: C order, Fortran order, a transposed view,
    # one frequency of an (n, n, numfreq) stack
    for li_, k_ in enumerate(sorted(mats)):
        lay = (s_i + li_) % 4
        if lay == 1:
            mats[k_] = np.asfortranarray(mats[k_])
        elif lay == 2:
            mats[k_] = np.ascontiguousarray(mats[k_].T).T
        elif lay == 3:
            stack = np.zeros((nmat, nmat, 2), complex)
            stack[..., 1] = mats[k_]
            mats[k_] = stack[..., 1]
        chk.count(matrix_layout=["C", "F", "transposed view", "slice of a stack"][lay])
    funcs = {k: poly_S(c) for k, c in coeff.items()}
    tx, rx = (arim.ut.fmc(ne) if rng.random() < 0.5 else arim.ut.hmc(ne))
    if s_i % 2 == 1:
        # a pulse-echo capture written with ONE index array used for both roles (tx is rx, the same ndarray object)
        tx = rx = np.arange(ne)
        chk.count(end_to_end_capture="pulse-echo, tx is rx (one array object)")
    a = float(rng.uniform(-np.pi, np.pi))
    vnames = list(views.keys())
    # (the views whose two paths are the same Path object are always among those looked at)
    same_path_ = [vn_ for vn_ in vnames if views[vn_].tx_path is views[vn_].rx_path][:2]
    for vn in same_path_ + [vnames[i] for i in rng.permutation(len(vnames))[:(6 if Q else 12)]]:
        v = views[vn]
        key = v.tx_path.modes[-1].key() + v.rx_path.modes[-1].key()
        qt, qr = rwts.tx_ray_weights_dict[v.tx_path], rwts.rx_ray_weights_dict[v.rx_path]
        tt, tr = rwts.scattering_angles_dict[v.tx_path], rwts.scattering_angles_dict[v.rx_path]
        Pf = np.asarray(model.model_amplitudes_factory(tx, rx, v, rwts, funcs, a)[...])
        Pm = np.asarray(model.model_amplitudes_factory(tx, rx, v, rwts, mats, a)[...])
        with np.errstate(all="ignore"):
            inc, out = tt[tx, :].T - a, tr[rx, :].T - a
            ref_f = funcs[key](inc, out) * qt[tx, :].T * qr[rx, :].T
            import arim.scat as _scat
            ref_m = _scat.interpolate_matrix(np.array(mats[key], order="C"))(inc, out) * qt[tx, :].T * qr[rx, :].T
        evaluations += Pf.size + Pm.size
        nontrivial.add(("e2e", s_i, vn))
        chk.count(end_to_end_view=key)
        for cls, P_, ref in (("F", Pf, ref_f), ("M", Pm, ref_m)):
            scale = float(np.nanmax(np.abs(ref))) if np.isfinite(ref).any() else 1.0
            okm = np.isclose(P_, ref, rtol=1e-12, atol=1e-13 * scale, equal_nan=True)
            if P_.shape != ref.shape or not okm.all():
                g_, k_ = np.argwhere(~okm)[0] if P_.shape == ref.shape else (0, 0)
                chk.violation(f"e2e:{cls}", f"view {vn}: amplitudes are not S_{key}(theta_tx - a, theta_rx - a) Q[tx] Q'[rx] built from the "
                              "tx path's transmit weights and the rx path's receive weights",
                              dict(view=vn, scat_key=key, cls=cls, point=int(g_), timetrace=int(k_), tx=tx, rx=rx, scat_angle=a,
                                   impl=P_[g_, k_] if P_.shape == ref.shape else None, expected=ref[g_, k_],
                                   frequency=setup["freq"], probe_locations=probe.locations.coords))

# ---- (b0') the public multi-frequency entry point: every switch set reaches the ray weights unchanged ----------
#      H(view) = conj( model_amplitudes_factory(tx, rx, view, ray_weights_for_views(<same switches>), S(f), a)[...] )
import arim.scat as _scat2
for s_i in range(3 if Q else 20):
    setup = arimgen.immersion_setup(rng, max_refl=int(rng.integers(0, 2)), wall_points=80, numelements=int(rng.integers(2, 4)),
                                    numscat=int(rng.integers(1, 4)), attenuation=True)
    views, probe, block = setup["views"], setup["probe"], setup["block"]
    ne = probe.numelements
    tx, rx = (arim.ut.fmc(ne) if rng.random() < 0.5 else arim.ut.hmc(ne))
    width = float(rng.uniform(0.2e-3, 1e-3))
    a = float(rng.uniform(-np.pi, np.pi))
    freqs = np.array([setup["freq"], setup["freq"] * 1.25])
    for sw in [SWITCHES[int(i)] for i in rng.choice(np.arange(16), size=(4 if Q else 8), replace=False)]:
        nang = int(rng.choice([0, 16]))
        obj = _scat2.scat_factory("sdh", block, radius=float(rng.uniform(0.2e-3, 1e-3)))
        tfs = {vn: tf for vn, (tf, _) in zip(views, bim.scat_unshifted_transfer_functions(
            views, tx, rx, freqs, obj, probe_element_width=width, use_directivity=sw[0], use_transrefl=sw[1], use_beamspread=sw[2],
            use_attenuation=sw[3], scat_angle=a, numangles_for_scat_precomp=nang, first_nonzero_freq_idx=0))}
        chk.count(pipeline_switches=str(sw), pipeline_scattering=("matrices" if nang else "functions"))
        for fi, f_ in enumerate(freqs):
            rwf = bim.ray_weights_for_views(views, float(f_), width, use_directivity=sw[0], use_transrefl=sw[1], use_beamspread=sw[2],
                                            use_attenuation=sw[3])
            scattering = ({k: m[fi] for k, m in obj.as_multi_freq_matrices(freqs, nang).items()} if nang
                          else obj.as_angles_funcs(float(f_)))
            for vn in list(views)[:: (3 if Q else 1)]:
                ref = np.conj(np.asarray(model.model_amplitudes_factory(tx, rx, views[vn], rwf, scattering, a)[...]))
                got = tfs[vn][..., fi]
                evaluations += ref.size
                scale = float(np.nanmax(np.abs(ref))) if np.isfinite(ref).any() else 1.0
                okm = np.isclose(got, ref, rtol=1e-10, atol=1e-12 * scale, equal_nan=True)
                if got.shape != ref.shape or not okm.all():
                    chk.violation("pipeline:switches", f"scat_unshifted_transfer_functions(view {vn}) is not the amplitude built from "
                                  f"ray_weights_for_views with the same switches {dict(zip(('directivity', 'transrefl', 'beamspread', 'attenuation'), sw))}",
                                  dict(view=vn, switches=sw, frequency=float(f_), numangles_for_scat_precomp=nang, scat_angle=a,
                                       width=width, tx=tx, rx=rx, probe_locations=probe.locations.coords,
                                       max_abs_diff=float(np.nanmax(np.abs(got - ref))) if got.shape == ref.shape else None))
                    break

# ---- (b0'') the time-shifted wrappers singlefreq_ / multifreq_scat_transfer_functions: the sum over the scatterers of
#      the unshifted transfer functions (checked above) shifted by the ray-traced delays, with the same switches
import arim.signal as _signal
for s_i in range(2 if Q else 12):
    setup = arimgen.immersion_setup(rng, max_refl=int(rng.integers(0, 2)), wall_points=80, numelements=int(rng.integers(2, 4)),
                                    numscat=int(rng.integers(1, 4)), attenuation=True)
    views, probe, block = setup["views"], setup["probe"], setup["block"]
    ne = probe.numelements
    tx, rx = (arim.ut.fmc(ne) if rng.random() < 0.5 else arim.ut.hmc(ne))
    width, a = float(rng.uniform(0.2e-3, 1e-3)), float(rng.uniform(-np.pi, np.pi))
    f0 = setup["freq"]
    freq_array = np.array([0.0, 0.5 * f0, f0, 1.5 * f0])
    obj = _scat2.scat_factory("sdh", block, radius=float(rng.uniform(0.2e-3, 1e-3)))
    sw = SWITCHES[int(rng.integers(0, 16))]
    kw = dict(probe_element_width=width, use_directivity=sw[0], use_transrefl=sw[1], use_beamspread=sw[2], use_attenuation=sw[3],
              scat_angle=a, numangles_for_scat_precomp=int(rng.choice([0, 16])))
    for which in ("singlefreq", "multifreq"):
        if which == "singlefreq":
            got = dict(bim.singlefreq_scat_transfer_functions(views, tx, rx, f0, freq_array, obj, **kw))
            uns = list(bim.scat_unshifted_transfer_functions(views, tx, rx, f0, obj, **kw))
        else:
            got = dict(bim.multifreq_scat_transfer_functions(views, tx, rx, freq_array, obj, **kw))
            uns = list(bim.scat_unshifted_transfer_functions(views, tx, rx, freq_array, obj, **kw))
        chk.count(wrapper=which, wrapper_switches=str(sw))
        for vn, (utf, delays) in zip(views, uns):
            ref = _signal.timeshift_spectra(utf, delays, freq_array).sum(axis=0)
            evaluations += ref.size
            scale = float(np.nanmax(np.abs(ref))) if np.isfinite(ref).any() else 1.0
            g_ = got.get(vn)
            if g_ is None or g_.shape != ref.shape or not np.allclose(g_, ref, rtol=1e-10, atol=1e-12 * scale, equal_nan=True):
                chk.violation(f"pipeline:{which}", f"{which}_scat_transfer_functions(view {vn}) is not the sum over the scatterers of the "
                              "unshifted transfer functions shifted by the ray delays (same switches)",
                              dict(view=vn, switches=sw, frequency=f0, freq_array=freq_array, scat_angle=a, width=width, tx=tx, rx=rx,
                                   numangles_for_scat_precomp=kw["numangles_for_scat_precomp"], probe_locations=probe.locations.coords))
                break

ncases = 700 if Q else 6000
a_lines, a_meta = [], []
coq_cases = []
for c_i in range(ncases):
    ne, ng = int(rng.integers(1, 6)), int(rng.integers(1, 8))
    exact = rng.random() < 0.6
    arrays = gen_arrays(ne, ng, exact)
    Qtx, Qrx, Ttx, Trx = arrays
    txkind, tx, rx = gen_txrx(ne)
    a = (float(rng.integers(-48, 49)) / 64 if rng.random() < 0.8 else 0.0) if exact else float(rng.uniform(-np.pi, np.pi))
    cls = str(rng.choice(["F", "M", "Mconst"], p=[0.5, 0.35, 0.15]))
    rwts = model.RayWeights({"ptx": Qtx}, {"prx": Qrx}, None, None, {"ptx": Ttx, "prx": Trx})
    view = _View("ptx", "prx", "LT")
    if cls == "F":
        coeffs = [float(v) for v in (rng.integers(-6, 7, 7) / 2 if exact else rng.standard_normal(7))]
        if coeffs[1] == coeffs[2]:
            coeffs[1] += 1.0
        scattering = {"LT": poly_S(coeffs), "LL": poly_S([0.0] * 7)}
        sdesc, kind = coeffs, "F"
    else:
        n = int(rng.integers(1, 9))
        if cls == "Mconst":
            M = np.full((n, n), complex(float(rng.integers(-8, 9)) / 4, float(rng.integers(-8, 9)) / 4))
        elif exact:
            M = (rng.integers(-16, 17, (n, n)) / 4 + 1j * rng.integers(-16, 17, (n, n)) / 4).astype(np.complex128)
        else:
            M = rng.standard_normal((n, n)) + 1j * rng.standard_normal((n, n))
        scattering = {"LT": M, "LL": np.zeros((n, n), complex)}
        sdesc, kind = M, "M"
    ma = model.model_amplitudes_factory(tx, rx, view, rwts, scattering, a)
    selkind, sel, G, drops = gen_selector(ng)
    try:
        P = np.asarray(ma[sel])
        if drops:
            P = P[np.newaxis]
        err = None
    except Exception as e:                       # noqa: BLE001
        P, err = None, e
    chk.count(amp_class=cls, txrx=txkind, selector=selkind, exact=exact)
    a_lines.append(a_line("A", kind, ne, ng, a, tx, rx, G, arrays, sdesc))
    a_meta.append(dict(cls=cls, kind=kind, exact=exact, ne=ne, ng=ng, a=a, tx=tx, rx=rx, G=G, sel=repr(sel), selkind=selkind,
                       arrays=arrays, sdesc=sdesc, P=P, err=err, shape=ma.shape))
    if kind == "F" and exact and err is None and len(coq_cases) < (60 if Q else 200) and len(tx) > 0 and len(G) > 0:
        coq_cases.append(len(a_meta) - 1)
    nontrivial.add(("amp", cls, txkind, selkind, ne, ng, len(tx)))

# error stream: out-of-range grid / element indices (function class raises IndexError; the matrix class would read out
# of bounds inside numba for element indices, so only grid indices are tried there)
for c_i in range(40 if Q else 300):
    ne, ng = int(rng.integers(1, 5)), int(rng.integers(1, 6))
    arrays = gen_arrays(ne, ng, True)
    Qtx, Qrx, Ttx, Trx = arrays
    cls = "F" if rng.random() < 0.6 else "M"
    which = str(rng.choice(["grid", "tx", "rx"])) if cls == "F" else "grid"
    n = int(rng.integers(1, 5))
    tx, rx = rng.integers(0, ne, n), rng.integers(0, ne, n)
    G = [int(rng.integers(0, ng))]
    badv = int(rng.choice([ne, ne + 3, -ne - 1])) if which != "grid" else int(rng.choice([ng, ng + 2, -ng - 1]))
    if which == "tx":
        tx[int(rng.integers(0, n))] = badv
    elif which == "rx":
        rx[int(rng.integers(0, n))] = badv
    else:
        G = [badv]
    coeffs = [1.0, 2.0, 3.0, 0.5, -1.0, 1.0, 0.5]
    M = np.ones((3, 3), complex)
    rwts = model.RayWeights({"ptx": Qtx}, {"prx": Qrx}, None, None, {"ptx": Ttx, "prx": Trx})
    ma = model.model_amplitudes_factory(np.asarray(tx, np.int_), np.asarray(rx, np.int_), _View("ptx", "prx", "LL"), rwts,
                                        {"LL": poly_S(coeffs) if cls == "F" else M}, 0.0)
    try:
        P, err = np.asarray(ma[G[0]])[np.newaxis], None
    except IndexError as e:
        P, err = None, e
    chk.count(amp_class=cls, error_stream=which)
    a_lines.append(a_line("A", cls, ne, ng, 0.0, tx, rx, G, arrays, coeffs if cls == "F" else M))
    a_meta.append(dict(cls=cls, kind=cls, exact=True, ne=ne, ng=ng, a=0.0, tx=tx, rx=rx, G=G, sel=repr(G[0]), selkind="bad-" + which,
                       arrays=arrays, sdesc=coeffs if cls == "F" else M, P=P, err=err, shape=ma.shape))

a_outs = drv.run(a_lines)
# the function-class cases once more through the SPEC (Amplitudes.spec_amp) to cross-check the two executable terms
z_idx = [i for i, m in enumerate(a_meta) if m["kind"] == "F"]
z_outs = dict(zip(z_idx, drv.run([a_line("A", "Z", m["ne"], m["ng"], m["a"], m["tx"], m["rx"], m["G"], m["arrays"], m["sdesc"])
                                  for m in (a_meta[i] for i in z_idx)]))) if z_idx else {}


def amp_replay(m, **extra):
    Qtx, Qrx, Ttx, Trx = m["arrays"]
    d = dict(cls=m["cls"], ne=m["ne"], ng=m["ng"], scat_angle=m["a"], tx=m["tx"], rx=m["rx"], selector=m["sel"], grid_indices=m["G"],
             tx_ray_weights=Qtx, rx_ray_weights=Qrx, tx_scattering_angles=Ttx, rx_scattering_angles=Trx,
             scattering=("polynomial coefficients p0..p3 q0..q2: " + repr(m["sdesc"])) if m["kind"] == "F" else m["sdesc"])
    d.update(extra)
    return d


for i, (m, o) in enumerate(zip(a_meta, a_outs)):
    ne, ng, tx, rx, G = m["ne"], m["ng"], m["tx"], m["rx"], m["G"]
    Qtx, Qrx, Ttx, Trx = m["arrays"]
    key = f"amp:{m['cls']}"
    if i in z_outs and z_outs[i] != o:
        chk.violation("amp:spec-vs-class", "extracted getitem_fn and spec_amp disagree (theorem amplitude_indexing no longer matches the executable terms)",
                      amp_replay(m, theorem_or_correspondence="Props/C08.v amplitude_indexing_fn"), failing_input_found=False)
    if m["shape"] != (ng, len(tx)):
        chk.violation(key + ":shape", "ModelAmplitudes.shape is not (numpoints, numtimetraces)", amp_replay(m, shape=m["shape"]))
    if o == "raise" or m["err"] is not None:
        evaluations += 1
        if (o == "raise") != (m["err"] is not None):
            valid = all(norm_idx(g, ng) is not None for g in G) and all(norm_idx(t, ne) is not None for t in list(tx) + list(rx))
            chk.violation(key + ":error", "raise / no raise differs from the model (index out of range)",
                          amp_replay(m, impl_error=repr(m["err"]), model=o[:60]), failing_input_found=bool(valid == (m["err"] is not None)))
        continue
    P = m["P"]
    nG, ntt = len(G), len(tx)
    if P.shape != (nG, ntt):
        chk.violation(key + ":result-shape", "indexed amplitudes do not have shape (selected points, numtimetraces)",
                      amp_replay(m, impl_shape=P.shape, expected=(nG, ntt)))
        continue
    Pm = parse_cplx(o.split()[1:]).reshape(nG, ntt) if nG * ntt else np.zeros((nG, ntt), complex)
    evaluations += P.size
    # --- spec on the implementation
    spec_bad = None
    for p, zg in enumerate(G):
        g = norm_idx(zg, ng)
        for k in range(ntt):
            ii, jj = norm_idx(tx[k], ne), norm_idx(rx[k], ne)
            if m["kind"] == "F":
                ex = spec_entry_exact(m["sdesc"], m["a"], Qtx[ii, g], Qrx[jj, g], Ttx[ii, g], Trx[jj, g])
                if m["exact"]:
                    good = frac_c(P[p, k]) == ex
                else:
                    good = close(P[p, k], complex(float(ex[0]), float(ex[1])), 1e-12, 1e-13)
            elif m["cls"] == "Mconst":
                ex = cmul_f(cmul_f(frac_c(m["sdesc"][0, 0]), frac_c(Qtx[ii, g])), frac_c(Qrx[jj, g]))
                good = frac_c(P[p, k]) == ex if m["exact"] else close(P[p, k], complex(float(ex[0]), float(ex[1])), 1e-12)
            else:
                good = True          # general matrices: the bilinear interpolant is the model's (C10); compared below
            if not good and spec_bad is None:
                spec_bad = (p, k, ex)
    if spec_bad is not None:
        p, k, ex = spec_bad
        chk.violation(key + ":spec", "P[g][k] is not S(theta_tx - a, theta_rx - a) * Q[tx_k][g] * Q'[rx_k][g]",
                      amp_replay(m, position=(p, k), grid_index=G[p], tx_k=int(tx[k]), rx_k=int(rx[k]), impl=P[p, k],
                                 expected_exact=[str(ex[0]), str(ex[1])]))
        continue
    # --- correspondence with the extracted model
    if m["exact"] and m["cls"] in ("F", "Mconst"):
        same = (P.real == Pm.real) & (P.imag == Pm.imag)
        how = "bit for bit"
    else:
        scale = max(1e-300, float(np.max(np.abs(P))) if P.size else 1.0)
        same = np.abs(P - Pm) <= 1e-11 * scale
        how = "within 1e-11 of max|P|"
    if not same.all():
        p, k = np.argwhere(~same)[0]
        # general matrix: decide failing_input_found with an independent bilinear interpolation of the matrix
        found = False
        if m["cls"] == "M":
            Mx = m["sdesc"]
            n = Mx.shape[0]
            g = norm_idx(G[p], ng)
            ii, jj = norm_idx(tx[k], ne), norm_idx(rx[k], ne)
            d = 2 * np.pi / n
            ti, to = Ttx[ii, g] - m["a"], Trx[jj, g] - m["a"]
            fi, fo = (ti + np.pi) / d, (to + np.pi) / d
            i0, o0 = int(np.floor(fi)), int(np.floor(fo))
            wi, wo = fi - i0, fo - o0
            sw_, se_ = Mx[o0 % n, i0 % n], Mx[o0 % n, (i0 + 1) % n]
            nw_, ne_ = Mx[(o0 + 1) % n, i0 % n], Mx[(o0 + 1) % n, (i0 + 1) % n]
            s = (sw_ + (se_ - sw_) * wi) * (1 - wo) + (nw_ + (ne_ - nw_) * wi) * wo
            found = not close(P[p, k], s * Qtx[ii, g] * Qrx[jj, g], 1e-9, 1e-9 * float(np.max(np.abs(Mx))))
        chk.violation(key + ":model", f"indexed amplitudes differ from the model ({how})",
                      amp_replay(m, position=(int(p), int(k)), impl=P[p, k], model=Pm[p, k],
                                 correspondence="Model.Amplitudes.getitem_fn / getitem_mat (extracted)"),
                      failing_input_found=bool(found))

# ---- a dyadic shard of the function class inside coqc (vm_compute on binary64): cross-checks extraction + driver
if coq_cases:
    def cc(z):
        return cpair(cfloat(np.real(z)), cfloat(np.imag(z)))

    lits = []
    for i in coq_cases:
        m = a_meta[i]
        Qtx, Qrx, Ttx, Trx = m["arrays"]
        P = m["P"]
        lits.append(cpair(
            cpair(clist(m["tx"], cZ), clist(m["rx"], cZ), clist(m["G"], cZ)),
            cpair(cZ(m["ne"]), cZ(m["ng"]), cfloat(m["a"])),
            cpair(clist([clist(r, cc) for r in Qtx]), clist([clist(r, cc) for r in Qrx])),
            cpair(clist([clist(r, cfloat) for r in Ttx]), clist([clist(r, cfloat) for r in Trx])),
            clist(m["sdesc"], cfloat),
            clist([clist(r, cc) for r in P])))
    imports = ("From Coq Require Import ZArith List Floats.\n"
               "From Arim Require Import Base.Num Base.NumF Base.ListX Model.Amplitudes.\n"
               "Local Open Scope float_scope.\n"
               "Definition feq (a b : float) : bool := PrimFloat.eqb a b.\n"
               "Definition ceq (a b : float * float) : bool := andb (feq (fst a) (fst b)) (feq (snd a) (snd b)).\n"
               "Definition polyS (c : list float) (x y : float) : float * float :=\n"
               "  let n k := nth k c 0 in\n"
               "  (((n 0%nat + n 1%nat * x) + n 2%nat * y) + (n 3%nat * x) * y, (n 4%nat + n 5%nat * x) + n 6%nat * y).\n"
               "Definition chk_case (c : (list Z * list Z * list Z) * (Z * Z * float) * (list (list (float*float)) * list (list (float*float)))\n"
               "    * (list (list float) * list (list float)) * list float * list (list (float*float))) : bool :=\n"
               "  let '(((((txrxg, dims), qs), ts), co), P) := c in\n"
               "  let '(tx, rx, G) := txrxg in let '(ne, ng, a) := dims in\n"
               "  match factory tx rx (Z.to_nat ne) (Z.to_nat ng) (fst qs) (snd qs) (fst ts) (snd ts) a with\n"
               "  | Some o => match getitem_fn NumF (polyS co) o G with\n"
               "              | Some R => list_eqb (list_eqb ceq) R P\n"
               "              | None => false end\n"
               "  | None => false end.\n")
    ctype = ("(list Z * list Z * list Z) * (Z * Z * float) * (list (list (float*float)) * list (list (float*float)))"
             " * (list (list float) * list (list float)) * list float * list (list (float*float))")
    bad = chk.coq_failing("amp_fn", imports, ctype, lits, "chk_case", shard=50)
    evaluations += len(lits)
    for b in bad:
        m = a_meta[coq_cases[b]]
        chk.violation("amp:F:vm_compute", "function-class amplitudes differ bit for bit from the Coq model evaluated by vm_compute (binary64)",
                      amp_replay(m, impl=m["P"], correspondence="Model.Amplitudes.getitem_fn over NumF in coqc"), failing_input_found=False)

# =============================================================================================
# (c) sensitivities
# =============================================================================================
nsens = 30 if Q else 250
s_lines, s_meta = [], []
for c_i in range(nsens):
    ne, ng = int(rng.integers(1, 5)), int(rng.integers(1, 10))
    exact = rng.random() < 0.5
    many_tt = c_i % 6 == 1          # full matrices of 4 to 6 elements: 16 to 36 timetraces per grid point
    if many_tt:
        ne, ng, exact = int(rng.integers(4, 7)), int(rng.integers(3, 40)), False
    arrays = gen_arrays(ne, ng, exact)
    Qtx, Qrx, Ttx, Trx = arrays
    if exact:
        ntt = int(rng.choice([1, 2, 4, 8]))
        tx, rx = rng.integers(0, ne, ntt).astype(np.int_), rng.integers(0, ne, ntt).astype(np.int_)
        w = rng.integers(0, 9, ntt) / 4.0
        a = float(rng.integers(-48, 49)) / 64
    else:
        _, tx, rx = gen_txrx(ne)
        if many_tt:
            tx, rx = (np.asarray(v_, np.int_) for v_ in arim.ut.fmc(ne))
        if len(tx) == 0:
            tx, rx = np.array([0], np.int_), np.array([0], np.int_)
        ntt = len(tx)
        w = rng.uniform(0, 1, ntt)
        a = float(rng.uniform(-np.pi, np.pi))
    cls = "F" if (rng.random() < 0.6 or many_tt) else "M"
    if cls == "F":
        sdesc = [float(v) for v in (rng.integers(-6, 7, 7) / 2 if exact else rng.standard_normal(7))]
        scat_obj = poly_S_elementwise(sdesc) if many_tt else poly_S(sdesc)
    else:
        n = int(rng.integers(1, 7))
        sdesc = np.full((n, n), complex(1.5, -0.25)) if exact else rng.standard_normal((n, n)) + 1j * rng.standard_normal((n, n))
        scat_obj = sdesc
    rwts = model.RayWeights({"ptx": Qtx}, {"prx": Qrx}, None, None, {"ptx": Ttx, "prx": Trx})
    ma = model.model_amplitudes_factory(tx, rx, _View("ptx", "prx", "TT"), rwts, {"TT": scat_obj}, a)
    Pfull = np.asarray(ma[...])
    # history: results of successive requests on ONE object are kept by the caller; a later
    # request (same shape or not) must not alter an earlier answer, and each must equal its rows of P
    if ng >= 2:
        kept = []
        reqs = [g for g in range(ng)] + [slice(0, 1), slice(ng - 1, ng), -1, -2]
        for rq in reqs:
            ans = ma[rq]
            kept.append((rq, ans, np.array(ans, copy=True)))
        evaluations += len(kept)
        for rq, ans, snap in kept:
            want = Pfull[rq]
            same = np.array_equal(np.asarray(ans), snap, equal_nan=True)
            right = np.allclose(np.asarray(ans), want, rtol=1e-12, atol=0, equal_nan=True)
            if not (same and right):
                chk.violation(f"amp:kept-results:{cls}", "an answer of ModelAmplitudes.__getitem__ kept by the caller changed after a later "
                              "request on the same object (or differs from the corresponding rows of P)",
                              dict(cls=cls, request=repr(rq), numpoints=ng, numtimetraces=ntt, answer_now=np.asarray(ans),
                                   answer_when_returned=snap, rows_of_P=want), failing_input_found=True)
                break
    with np.errstate(all="ignore"):
        def_uniform = (w[np.newaxis] * Pfull).sum(axis=1) / ntt
        absP = np.abs(Pfull)
        def_assisted = (absP * absP * w[np.newaxis]).sum(axis=1) / ntt
    sizes = list(range(1, 2 * ng + 1)) + [4000]
    if Q and len(sizes) > 8:
        sizes = sorted(set([1, 2, ng - 1, ng, ng + 1, 2 * ng, 4000] + [int(x) for x in rng.integers(1, 2 * ng + 1, 2)]) - {0})
    first_bits = None
    for bs in sizes:
        via_method = rng.random() < 0.5
        if via_method:
            su = ma.sensitivity_uniform_tfm(w, block_size=bs)
            sa = ma.sensitivity_model_assisted_tfm(w, block_size=bs)
        else:
            su = model.sensitivity_uniform_tfm(ma, w, block_size=bs)
            sa = model.sensitivity_model_assisted_tfm(ma, w, block_size=bs)
        # the sensitivity of a grid point is one fixed sum over the timetraces: the SAME floating-point number whatever block
        # the point falls in (bit for bit between block sizes; a one-point block included)
        bits_ = (np.ascontiguousarray(np.asarray(su)).tobytes(), np.ascontiguousarray(np.asarray(sa)).tobytes())
        if first_bits is None:
            first_bits = (bs, bits_, np.asarray(su), np.asarray(sa))
        elif bits_ != first_bits[1] and not getattr(chk, "_sens_bits_reported", False):
            chk._sens_bits_reported = True
            chk.violation(f"sens:bits:{cls}", f"the sensitivities computed with block sizes {first_bits[0]} and {bs} are not bit-identical",
                          dict(cls=cls, numpoints=ng, numtimetraces=ntt, block_sizes=[first_bits[0], bs], weights=w,
                               uniform_a=first_bits[2], uniform_b=np.asarray(su), assisted_a=first_bits[3], assisted_b=np.asarray(sa),
                               max_abs_difference=float(np.nanmax(np.abs(np.asarray(su) - first_bits[2]))) if np.asarray(su).shape == first_bits[2].shape else None))
        s_lines.append(a_line("S", cls, ne, ng, a, tx, rx, [], arrays, sdesc, tail=f" {bs} " + " ".join(fhex(x) for x in w)))
        s_meta.append(dict(cls=cls, kind=cls, exact=exact, ne=ne, ng=ng, a=a, tx=tx, rx=rx, G=[], sel="...", arrays=arrays, sdesc=sdesc,
                           w=w, bs=bs, su=np.asarray(su), sa=np.asarray(sa), du=def_uniform, da=def_assisted, ntt=ntt))
        chk.count(sensitivity_block=("<grid" if bs < ng else ("=grid" if bs == ng else ">grid")), sens_class=cls)
    nontrivial.add(("sens", cls, ne, ng, ntt))
    # plain ndarray as model_amplitudes (documented: "ndarray or ModelAmplitudes")
    bs = int(rng.integers(1, ng + 2))
    su = model.sensitivity_uniform_tfm(Pfull, w, block_size=bs)
    sa = model.sensitivity_model_assisted_tfm(Pfull, w, block_size=bs)
    evaluations += 2 * ng
    if not (np.allclose(su, def_uniform, rtol=1e-12, atol=0, equal_nan=True) and np.allclose(sa, def_assisted, rtol=1e-12, atol=0, equal_nan=True)):
        chk.violation("sens:ndarray", "sensitivity of a plain array differs from the unchunked definition",
                      dict(P=Pfull, weights=w, block_size=bs, uniform=su, assisted=sa, definition_uniform=def_uniform, definition_assisted=def_assisted))

s_outs = drv.run(s_lines)
for m, o in zip(s_meta, s_outs):
    ng, ntt = m["ng"], m["ntt"]
    pu, pa = o.split("|")
    scale_u = max(1e-300, float(np.max(np.abs(m["du"]))))
    scale_a = max(1e-300, float(np.max(np.abs(m["da"]))))
    evaluations += 2 * ng
    rep = amp_replay(m, timetrace_weights=m["w"], block_size=m["bs"], uniform=m["su"], assisted=m["sa"],
                     definition_uniform=m["du"], definition_assisted=m["da"])
    ok = True
    if m["su"].shape != (ng,) or m["sa"].shape != (ng,):
        chk.violation("sens:shape", "sensitivity does not have shape (numpoints,)", rep)
        continue
    if m["exact"]:
        gu = np.array_equal(m["su"], m["du"]) and np.array_equal(m["sa"], m["da"]) if m["cls"] == "F" else \
            (np.allclose(m["su"], m["du"], rtol=0, atol=1e-13 * scale_u) and np.allclose(m["sa"], m["da"], rtol=0, atol=1e-13 * scale_a))
    else:
        gu = np.allclose(m["su"], m["du"], rtol=0, atol=1e-12 * scale_u) and np.allclose(m["sa"], m["da"], rtol=0, atol=1e-12 * scale_a)
    if not gu:
        ok = False
        chk.violation(f"sens:chunk:{m['cls']}", "sensitivity depends on the block size (differs from the unchunked weighted sum / numtimetraces)", rep)
    if "raise" in pu or "raise" in pa:
        if ok:
            chk.violation("sens:model-raises", "model of the sensitivity raises", dict(rep, model=o[:80]), failing_input_found=False)
        continue
    mu = parse_cplx(pu.split())
    mv = np.array([unhex(x) for x in pa.split()])
    if m["exact"] and m["cls"] == "F":
        # |P|^2 through hypot vs sqrt(re^2+im^2)^2: not exact; the uniform one is
        gm = np.array_equal(mu, m["su"]) and np.allclose(mv, m["sa"], rtol=0, atol=1e-13 * scale_a)
    else:
        gm = np.allclose(mu, m["su"], rtol=0, atol=1e-11 * scale_u) and np.allclose(mv, m["sa"], rtol=0, atol=1e-11 * scale_a)
    if not gm and ok:
        chk.violation(f"sens:model:{m['cls']}", "sensitivity differs from the model at the same block size",
                      dict(rep, model_uniform=mu, model_assisted=mv, correspondence="Model.Amplitudes.sensitivity_*_tfm (extracted)"),
                      failing_input_found=False)

# degenerate: an empty grid has no chunk: `None /= numtimetraces` raises (model: error value)
_z = np.zeros((1, 0))
_ma0 = model.model_amplitudes_factory(np.array([0, 0]), np.array([0, 0]), _View("ptx", "prx", "LL"),
                                      model.RayWeights({"ptx": _z.astype(complex)}, {"prx": _z.astype(complex)}, None, None, {"ptx": _z, "prx": _z}),
                                      {"LL": poly_S([1.0] * 7)}, 0.0)
try:
    _ma0.sensitivity_uniform_tfm(np.ones(2), block_size=3)
    _raised = False
except TypeError:
    _raised = True
_o = drv.run(["S F 1 0 2 0 0x0p+0 0 0 0 0 " + " ".join(["0x1p+0"] * 7) + " 3 0x1p+0 0x1p+0"])[0]
evaluations += 1
if not _raised or "raise" not in _o.split("|")[0]:
    chk.violation("sens:empty-grid", "sensitivity on an empty grid: raise / no raise differs from the model",
                  dict(impl_raised=_raised, model=_o), failing_input_found=False)
# degenerate: block_size 0 raises
try:
    ma.sensitivity_uniform_tfm(w, block_size=0)
    chk.violation("sens:block0", "block_size = 0 accepted", {})
except ZeroDivisionError:
    pass

samples.append({"amplitude_case": {k: a_meta[0][k] for k in ("cls", "ne", "ng", "a", "tx", "rx", "sel", "G")}})
# ---- the glue model of the public functions (Model files added later, see manifest text) tied to the library on every run:
#      inputs generated here, the library run on them, the model evaluated on the same inputs by vm_compute inside coqc
import ties.tie_C08 as _tie_glue  # noqa: E402
_tie_n = _tie_glue.run(chk, arim, rng, Q)
chk.cov["glue_model_tie_comparisons"] = int(_tie_n or 0)

chk.finish(
    evaluations=evaluations,
    distinct_nontrivial=len(nontrivial),
    rule=("(a) one case = one ray (Snell-exact: analytically traced immersion ray, 2..4 legs, any L/T word, tilted walls; traced: "
          "(set-up, path) with all its rays) x switch sets, 5 observables per side (weights + 4 factors); (b) one case = (class, "
          "tx/rx kind, selector kind, ne, ng, numtimetraces); (c) one case = (class, ne, ng, numtimetraces) over block sizes "
          "1..2*grid and 4000; distinct = distinct tuples; evaluations counts compared numbers"),
    samples=samples,
    extra={"snell_exact_rays": done, "traced_setups": nsetups, "amplitude_cases": len(a_meta), "sensitivity_runs": len(s_meta),
           "tolerances": {"weights": TOL, "transrefl_abs_floor": ATOL_TR, "amplitudes_float": 1e-11, "amplitudes_dyadic": 0.0}},
    assumptions=["theorems are exact-arithmetic over R; dyadic-exact executions compare bit for bit, others within the stated tolerances",
                 "tx and rx of a ModelAmplitudes object have the same length (the factory's callers build them from one frame)"],
)
